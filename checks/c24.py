"""C24 - pooled connections carry no state from a previous checkout.

A history is a sequence of 2-15 *checkouts* (one holder at a time) on one Engine.
Each checkout is a little user program: Connection user or raw_connection() user,
optional ``execution_options(isolation_level=...)``, a few actions (write a unique
token, begin, savepoint, select, commit, rollback) and an ending (close / raise
inside ``with`` / drop + GC / invalidate / detach+close).

live (file SQLite; legacy pysqlite mode where ``in_transaction`` and AUTOCOMMIT are
meaningful, and the documented non-legacy ``autocommit=False`` mode): at every
checkout, before the user acts, the DBAPI connection handed out must

* not be in a transaction (legacy mode: ``in_transaction``),
* see exactly what an independent observer connection sees (no uncommitted token
  of an earlier user is visible through it), which equals the model's committed set,
* have ``PRAGMA read_uncommitted`` / ``isolation_level`` equal to the engine default.

``pool_reset_on_return=None`` is the documented exception: the model then *expects*
the carry-over for raw users and GC-dropped Connections (control that must differ).
``reset_on_return='commit'`` commits what a raw user / GC-dropped Connection left.

rec-pg / rec-mysql: real psycopg2 / pymysql dialects over a logging recording DBAPI;
the same programs; at every checkout the call log must show the connection clean
(no DML / SAVEPOINT since its last commit()/rollback()) and the isolation /
autocommit settings back at the engine default; committed tokens are computed from
the log (C23's _TxSim) and compared with the model.
"""
from __future__ import annotations

import gc
import warnings

from hypothesis import strategies as st

from vf.api import Generated, Violation
from checks import _faults as F

PROPERTY = "C24"
LEVEL = "exploration"
RULE = (
    "config (pool class x reset_on_return rollback|commit|None|custom-listener x engine default isolation x skip_autocommit_rollback x sqlite mode) x 2-15 checkouts, each "
    "{user conn|raw, isolation option, <=6 actions of w/begin/sp/sel/commit/rollback, ending close|exc|gc|invalidate|detach|ac_err (write, refused "
    "execution_options(AUTOCOMMIT) inside the transaction, close)|ac_reconn (AUTOCOMMIT option, invalidate, transparent reconnect, write, close)}. "
    "Non-trivial: some checkout ends with a DBAPI transaction open or a changed isolation level and the SAME DBAPI connection is handed out by a later checkout; "
    "distinct = canonical JSON of the case"
)
ASSUMPTIONS = [
    "one holder at a time (the property is about what the NEXT user finds); single thread",
    "live tier is SQLite only: legacy pysqlite mode for in_transaction / AUTOCOMMIT, non-legacy autocommit=False mode (no AUTOCOMMIT there - documented incompatible) for the rest",
    "in legacy mode a savepoint is only opened after a DML statement of the same DBAPI transaction (pysqlite legacy mode does not BEGIN for SAVEPOINT - documented driver quirk)",
    "a raw_connection() user does not change isolation_level / autocommit behind the pool's back",
    "with pool_reset_on_return=None the model expects carry-over (the property's exception clause); isolation level is still expected to be reset there only if a reset listener is installed",
    "PostgreSQL / MySQL: call-log level only (recording DBAPI; committed state derived by C23's _TxSim); dialect.default_isolation_level is preset by the harness because the recording engine skips initialize()",
    "known finding excluded by construction and pinned: a Connection.commit() that fails at the DBAPI followed by close() returns the connection with its transaction open "
    "(live: provoked with a SHARED lock held by a second sqlite3 connection -> SQLITE_BUSY)",
    "known finding excluded by construction and pinned, narrowed to exactly its scope: with an AUTOCOMMIT engine default, a per-connection isolation level OTHER than the dialect's own default "
    "level is not restored on return (SQLite, MySQL; psycopg2 has a single knob and is not affected). AUTOCOMMIT engine default + the dialect default level / AUTOCOMMIT itself is generated",
    "reference model in checks/c24.py is trusted",
]

POOLS = ["queue", "queue", "static", "singleton", "null", "assertion"]


def _pool_cls(name):
    from sqlalchemy import pool

    return {"queue": pool.QueuePool, "null": pool.NullPool, "static": pool.StaticPool, "singleton": pool.SingletonThreadPool, "assertion": pool.AssertionPool}[name]


class _Boom(Exception):
    pass


SIG_FAILED_COMMIT = "C24/failed-commit/close-skips-rollback-and-reset"


# ------------------------------------------------------------------ backends
class _Live:
    def __init__(self, cfg, ctx):
        import sqlalchemy as sa
        from vf import sautil

        self.name = "live"
        self.cfg = cfg
        kw = dict(poolclass=_pool_cls(cfg["pool"]), pool_reset_on_return=None if cfg["reset"] in (None, "custom") else cfg["reset"])
        if cfg["pool"] == "queue":
            kw.update(pool_size=cfg["size"], max_overflow=0)
        if cfg["default_iso"]:
            kw["isolation_level"] = cfg["default_iso"]
        if cfg.get("skip_ac_rb"):
            kw["skip_autocommit_rollback"] = True
        if cfg["mode"] == "legacy":
            kw["connect_args"] = {"autocommit": __import__("sqlite3").LEGACY_TRANSACTION_CONTROL, "timeout": 0.2}
        self.eng = sautil.file_engine(ctx, **kw)
        with self.eng.begin() as c:
            c.exec_driver_sql("create table t (x integer)")
        self.eng.dispose()
        self.obs = sautil.raw_connect(self.eng._vf_path)
        self.legacy = cfg["mode"] == "legacy"
        self._keep = []

    def key(self, raw):
        self._keep.append(raw)  # keep alive so that id() stays unique
        return id(raw)

    def committed(self):
        return {r[0] for r in self.obs.execute("select x from t")}

    def visible(self, raw):
        return {r[0] for r in raw.execute("select x from t")}

    def in_txn(self, raw):
        return raw.in_transaction if self.legacy else None

    def iso_state(self, raw):
        ru = raw.execute("PRAGMA read_uncommitted").fetchone()[0]
        return {"read_uncommitted": ru, "isolation_level_attr": raw.isolation_level}

    def iso_default(self):
        d = self.cfg["default_iso"]
        return {"read_uncommitted": 1 if d == "READ UNCOMMITTED" else 0, "isolation_level_attr": None if d == "AUTOCOMMIT" else ""}

    def dialect_default(self):
        return self.eng.dialect.default_isolation_level

    def finding_scope(self):
        return True

    def problems(self):
        return []

    def fail_commit(self, conn):
        """make Connection.commit() fail at the DBAPI: a second connection holds a SHARED lock (SQLITE_BUSY)"""
        import sqlalchemy as sa
        from vf import sautil

        reader = sautil.raw_connect(self.eng._vf_path)
        reader.execute("BEGIN")
        reader.execute("select x from t").fetchall()
        try:
            conn.commit()
        except sa.exc.DBAPIError:
            return True
        finally:
            reader.execute("ROLLBACK")
            reader.close()
        return False

    def close(self):
        from vf import sautil

        self._keep = []
        self.obs.close()
        sautil.remove_db(self.eng)


class _LogConn(F.fakedb.RecConn):
    """recording connection that also logs driver-specific setup calls and attribute sets"""

    _WATCH = ("autocommit", "isolation_level", "readonly", "deferrable")

    def __setattr__(self, name, value):
        object.__setattr__(self, name, value)
        if name in self._WATCH and "statements" in self.__dict__:
            self.db.log.append((self.id, "set:" + name, value))

    def __getattr__(self, name):
        if name.startswith("__"):
            raise AttributeError(name)

        def _f(*a, **kw):
            self.db.log.append((self.id, "call:" + name, a))
            return None

        return _f


class _LogConnMy(_LogConn):
    def __init__(self, db, cid):
        super().__init__(db, cid)
        del self.__dict__["autocommit"]

    def autocommit(self, value):
        self.db.log.append((self.id, "call:autocommit", (value,)))

    def get_autocommit(self):
        return False


class _Rec:
    def __init__(self, cfg, flavour):
        import sqlalchemy as sa
        from sqlalchemy import event
        from checks.c23 import _TxSim

        self.name = "rec-" + flavour
        self.cfg = cfg
        self.flavour = flavour
        self.db = db = F.fakedb.FakeDB()
        cls = _LogConn if flavour == "pg" else _LogConnMy

        def creator():
            c = cls(db, next(db._ids))
            db.conns.append(c)
            return c

        kw = dict(poolclass=_pool_cls(cfg["pool"]), pool_reset_on_return=None if cfg["reset"] in (None, "custom") else cfg["reset"])
        if cfg["pool"] == "queue":
            kw.update(pool_size=cfg["size"], max_overflow=0)
        if cfg["default_iso"]:
            kw["isolation_level"] = cfg["default_iso"]
        if cfg.get("skip_ac_rb"):
            kw["skip_autocommit_rollback"] = True
        url = "postgresql+psycopg2://u:p@h/d" if flavour == "pg" else "mysql+pymysql://u:p@h/d"
        self.eng = sa.create_engine(url, creator=creator, _initialize=False, **kw)
        self.default_name = "READ COMMITTED" if flavour == "pg" else "REPEATABLE READ"
        if cfg["default_iso"] not in (None, "AUTOCOMMIT"):
            # a real first connect detects the level AFTER the engine-wide on-connect hook has set it
            self.default_name = cfg["default_iso"]
        self.eng.dialect.default_isolation_level = self.default_name
        if cfg["default_iso"]:
            # _initialize=False skipped the builtin on-connect hook: install it the way create_engine would
            fn = self.eng.dialect._builtin_onconnect()
            if fn is not None:
                event.listen(self.eng, "connect", fn)
        self.sim = _TxSim(db)
        self.legacy = False
        # per connection isolation tracker, driven by the log
        self.iso = {}
        self.iso_pos = 0

    def key(self, raw):
        return raw.id

    def committed(self):
        self._pump()
        return set(self.sim.committed)

    def visible(self, raw):
        self._pump()
        return self.sim.visible(raw.id)

    def in_txn(self, raw):
        return bool(raw.in_txn)

    def _pump(self):
        # the simulator only understands the token table / savepoint statements: hide isolation statements from it
        log = self.db.log
        while self.iso_pos < len(log):
            cid, site, detail = log[self.iso_pos]
            st_ = self.iso.setdefault(cid, {"level": None, "autocommit": None}) if cid is not None else None
            if site == "call:set_isolation_level":
                st_["level"] = detail[0]
            elif site == "call:autocommit":
                st_["autocommit"] = detail[0]
            elif site == "set:autocommit":
                st_["autocommit"] = detail
            elif site == "execute":
                s = detail[0].strip()
                if s.upper().startswith("SET SESSION TRANSACTION ISOLATION LEVEL"):
                    st_["level"] = s[len("SET SESSION TRANSACTION ISOLATION LEVEL"):].strip()
                    log[self.iso_pos] = (cid, "iso-statement", detail)
                elif s.upper() == "COMMIT":
                    log[self.iso_pos] = (cid, "iso-statement", detail)
            self.iso_pos += 1
        self.sim.pump()

    def iso_state(self, raw):
        self._pump()
        return dict(self.iso.get(raw.id, {"level": None, "autocommit": None}))

    def iso_default(self):
        d = self.eng.dialect
        if self.flavour == "pg":
            lvl = d._isolation_lookup[self.cfg["default_iso"] or self.default_name]
            return {"level": lvl, "autocommit": None}
        return {"level": self.default_name, "autocommit": self.cfg["default_iso"] == "AUTOCOMMIT"}

    def dialect_default(self):
        return self.default_name

    def finding_scope(self):
        """psycopg2 has ONE knob (set_isolation_level): restoring AUTOCOMMIT restores everything; MySQL keeps the session level"""
        return self.flavour != "pg"

    def iso_matches(self, got):
        exp = self.iso_default()
        for k, v in got.items():
            if v is None:
                continue  # never touched on this connection -> still the server / engine default
            if k == "autocommit" and not v and not exp[k]:
                continue
            if v != exp[k]:
                return False
        return True

    def fail_commit(self, conn):
        import sqlalchemy as sa

        self.db.plan[("commit", self.db.counts["commit"])] = "error"
        try:
            conn.commit()
        except (sa.exc.DBAPIError, F.fakedb.Error):
            return True
        return False

    def problems(self):
        self._pump()
        # savepoint names are per Connection: with reset None a carried-over transaction may legitimately see the same name again
        out = [p for p in self.sim.problems if p[0] not in ("unrecognised-statement", "duplicate-savepoint-name")]
        out += [("use-after-close",) + tuple(map(str, x)) for x in self.db.use_after_close]
        return out

    def close(self):
        self.eng.dispose()


# ------------------------------------------------------------------ interpreter
class _Run:
    def __init__(self, b, case):
        import sqlalchemy as sa
        from sqlalchemy import event

        self.sa = sa
        self.b = b
        self.cfg = case["cfg"]
        self.reset = self.cfg["reset"]
        self.committed = set()
        self.pending = {}  # dbapi key -> set of tokens left uncommitted on that DBAPI connection
        self.open_txn = {}  # dbapi key -> a DBAPI-level transaction was left open (legacy in_transaction)
        self.dirty_iso = {}  # dbapi key -> isolation level left changed (only possible when nothing resets it)
        self.tok = 0
        self.trace = []
        self.cls = set()
        self.left_dirty = set()  # keys whose previous checkout ended dirty (open txn / changed isolation)
        self.nontrivial = False
        self.pinned = bool(case.get("pinned"))
        self.excluded = []
        self.infos = []
        self.last_iso = {}
        self.failed_commit_keys = set()
        if self.reset == "custom":
            event.listen(b.eng, "reset", self._custom_reset)

    @staticmethod
    def _custom_reset(dbapi_connection, record, reset_state):
        # documented custom scheme (pooling.rst "Custom Reset-on-Return Schemes")
        dbapi_connection.rollback()

    def _finding_applies(self, iso):
        return (self.cfg["default_iso"] == "AUTOCOMMIT" and iso not in (None, "AUTOCOMMIT") and iso != self.b.dialect_default()
                and self.b.finding_scope())

    def eff_reset(self):
        return "rollback" if self.reset == "custom" else self.reset

    def T(self):
        return f"trace={self.trace}"

    # ---- the oracle at checkout
    def at_checkout(self, raw, n):
        key = self.b.key(raw)
        if key in self.failed_commit_keys:
            self.failed_commit_keys.discard(key)
            try:
                self._at_checkout(raw, n, key)
            except Violation as v:
                raise Violation(SIG_FAILED_COMMIT, f"[{v.signature}] previous user: commit() failed at the DBAPI, then Connection.close(); {v.message}",
                                observed=v.observed, expected=v.expected) from v
            return
        self._at_checkout(raw, n, key)

    def _at_checkout(self, raw, n, key):
        b = self.b
        exp_pending = self.pending.get(key, set())
        exp_open = self.open_txn.get(key, False)
        if key in self.left_dirty:
            self.nontrivial = True
            self.cls.add("dirty-connection-reused")
        t = f"checkout #{n}; {self.T()}"
        it = b.in_txn(raw)
        if it is not None and bool(it) != bool(exp_open):
            if it:
                raise Violation(f"C24/{b.name}/open-transaction-at-checkout", f"{t}: DBAPI connection handed out inside a transaction (reset_on_return={self.reset})",
                                observed=True, expected=exp_open)
            raise Violation(f"C24/{b.name}/control/no-carry-over-with-reset-none", f"{t}: model expected the transaction left by the previous user to be carried over "
                            f"(reset_on_return=None) but the connection is clean", observed=False, expected=True)
        obs = b.committed()
        if obs != self.committed:
            raise Violation(f"C24/{b.name}/committed-differs", f"{t}: an independent connection sees {sorted(obs)}, model committed={sorted(self.committed)}",
                            observed=sorted(obs), expected=sorted(self.committed))
        vis = b.visible(raw)
        exp_vis = self.committed | exp_pending
        if vis != exp_vis:
            sig = "uncommitted-work-of-previous-user-visible" if vis - exp_vis else "visible-differs"
            raise Violation(f"C24/{b.name}/{sig}", f"{t}: the connection handed out sees {sorted(vis)}, expected {sorted(exp_vis)} (reset_on_return={self.reset})",
                            observed=sorted(vis), expected=sorted(exp_vis))
        if not self.dirty_iso.get(key):
            got = b.iso_state(raw)
            ok = b.iso_matches(got) if hasattr(b, "iso_matches") else got == b.iso_default()
            if not ok and self._finding_applies(self.last_iso.get(key)):
                raise Violation("C24/isolation-not-reset/autocommit-default-keeps-previous-level", f"{t}: engine default is AUTOCOMMIT, the previous user of this DBAPI connection "
                                f"selected {self.last_iso[key]}; on return only the autocommit knob was restored: {got} != {b.iso_default()}", observed=got, expected=b.iso_default())
            if not ok:
                raise Violation(f"C24/{b.name}/isolation-not-reset", f"{t}: isolation state {got} != engine default {b.iso_default()} (reset_on_return={self.reset})",
                                observed=got, expected=b.iso_default())
        probs = b.problems()
        if probs:
            raise Violation(f"C24/{b.name}/{probs[0][0]}", f"{t}: call log problem {probs[:3]}", observed=probs[:3])

    # ---- one checkout
    def checkout(self, n, co):
        sa = self.sa
        eng = self.b.eng
        kind = co["user"]
        self.trace.append(f"{kind}:{co.get('iso') or '-'}{'/' + co['opts'] if co.get('opts', 'single') != 'single' else ''}:{''.join(a[0] for a in co['acts'])}:{co['end']}")
        iso = co.get("iso")
        if kind == "raw" or (iso == "AUTOCOMMIT" and not self.b.legacy and self.b.name == "live"):
            iso = None
        if self.reset is None and self.cfg["default_iso"] == "AUTOCOMMIT" and iso not in (None, "AUTOCOMMIT") and self.b.name == "live":
            # reset_on_return=None promises nothing, and restoring pysqlite's isolation_level=None implicitly COMMITs whatever the
            # un-reset transaction holds (driver behaviour): kept out of the domain
            self.infos.append("reset None + AUTOCOMMIT engine default + transactional per-connection level on pysqlite dropped (driver commits on isolation_level=None)")
            iso = None
        if self.cfg["default_iso"] == "AUTOCOMMIT" and iso is not None:
            self.cls.add("ac-default+iso:" + ("dialect-default" if iso == self.b.dialect_default() else iso))
        if self._finding_applies(iso) and not self.pinned:
            # known finding (exactly): resetting to an AUTOCOMMIT engine default only flips the autocommit knob; a per-connection
            # level OTHER than the dialect's own default stays on the DBAPI connection (not psycopg2: one knob)
            self.excluded.append("per-connection isolation level under an AUTOCOMMIT engine default (known finding: level not restored on return)")
            iso = None
        opts = co.get("opts", "single") if kind == "conn" else "single"
        if kind == "conn":
            # connection-level options may reach one checkout in several separate applications (engine-level option engine, then
            # per-connection calls); a logging token carries no DBAPI state, but every application registers its own reset work
            conn = eng.execution_options(logging_token="e%d" % n).connect() if opts == "token_engine" else eng.connect()
            if opts == "token_first":
                conn = conn.execution_options(logging_token="t%d" % n)
            if opts != "single":
                self.cls.add("opts:" + opts)
            raw = conn.connection.dbapi_connection
            fairy = None
        else:
            fairy = eng.raw_connection()
            raw = fairy.dbapi_connection
            conn = None
        self.at_checkout(raw, n)
        key = self.b.key(raw)
        pend = set(self.pending.pop(key, set()))  # inherited (only with reset None)
        open_txn = self.open_txn.pop(key, False)
        self.left_dirty.discard(key)
        autocommit = False
        iso_changed = False
        if iso == "AUTOCOMMIT" and open_txn:
            iso = None  # inherited open DBAPI transaction (reset None) + driver autocommit: nothing is promised, keep the model simple
        self.last_iso[key] = iso
        if iso is not None:
            if opts == "one_call":
                conn = conn.execution_options(logging_token="t%d" % n, isolation_level=iso)
            else:
                conn = conn.execution_options(isolation_level=iso)
            if opts == "iso_twice":
                conn = conn.execution_options(isolation_level=iso)
            if opts == "token_after":
                conn = conn.execution_options(logging_token="t%d" % n)
            iso_changed = True
            autocommit = iso == "AUTOCOMMIT"
            self.cls.add("iso:" + iso)
        if self.cfg["default_iso"] == "AUTOCOMMIT" and not iso_changed:
            autocommit = True
        dml_in_txn = open_txn
        sps = 0
        conn_txn = False  # the Connection object holds a Transaction (autobegin / begin); its commit()/rollback() are no-ops otherwise
        acts = list(co["acts"])
        if autocommit and self.b.name != "live":
            acts = [a for a in acts if a != "w"]  # the recording DBAPI has no driver-level autocommit to observe
        self._acts = acts
        for a in acts:
            if kind == "conn" and a in ("w", "sel", "begin") or (a == "sp" and kind == "conn" and not autocommit and (dml_in_txn or not self.b.legacy)):
                conn_txn = True
            if a == "w":
                if autocommit and self.b.name != "live":
                    continue  # the recording DBAPI has no driver-level autocommit to observe
                self.tok += 1
                stmt = f"insert into t values ({self.tok})"
                if kind == "conn":
                    conn.exec_driver_sql(stmt)
                else:
                    cur = raw.cursor()
                    cur.execute(stmt)
                    cur.close()
                if autocommit:
                    self.committed.add(self.tok)
                else:
                    pend.add(self.tok)
                    dml_in_txn = True
            elif a == "begin":
                if kind == "conn" and not conn.in_transaction():
                    conn.begin()
            elif a == "sp":
                if autocommit:
                    continue
                if self.b.legacy and not dml_in_txn:
                    continue  # see ASSUMPTIONS (legacy SAVEPOINT quirk)
                sps += 1
                if kind == "conn":
                    conn.begin_nested()
                else:
                    cur = raw.cursor()
                    cur.execute(f"SAVEPOINT vf_{n}_{sps}")
                    cur.close()
                dml_in_txn = True
            elif a == "sel":
                if kind == "conn":
                    conn.exec_driver_sql("select x from t").fetchall()
                elif self.b.name == "live":
                    raw.execute("select x from t").fetchall()
            elif a == "cf" and not (self.pinned and kind == "conn"):
                # known finding: a commit() that fails at the DBAPI leaves the RootTransaction attached but inactive; close() then
                # neither rolls back nor lets the pool reset.  Only exercised by the pinned replay.
                self.excluded.append("Connection.commit() failing at the DBAPI before close() (known finding: connection returned with its transaction open)")
                continue
            elif a == "cf":
                self.tok += 1
                conn.exec_driver_sql(f"insert into t values ({self.tok})")
                if not self.b.fail_commit(conn):
                    raise Violation("C24/harness/commit-did-not-fail", f"could not make commit() fail; {self.T()}")
                # the property's expectation: close() releases everything, the next user finds a clean connection
                pend = set()
                dml_in_txn = False
                self.failed_commit_keys.add(key)
                self.cls.add("commit-failed-then-close")
                conn.close()
                try:
                    self._finish_checkout(n, key, kind, "close(after failed commit)", pend, dml_in_txn, True, False)
                except __import__("sqlite3").OperationalError as e:
                    raise Violation(SIG_FAILED_COMMIT, f"commit() failed at the DBAPI, Connection.close() returned the connection to the pool; the idle pooled connection still holds "
                                    f"its write lock: an independent connection cannot even read ({e}); {self.T()}", observed=str(e), expected="connection rolled back on close()")
                return
            elif a in ("commit", "rollback"):
                if kind == "conn":
                    getattr(conn, a)()
                    if not conn_txn:
                        continue  # documented: "If no transaction was started, the method has no effect"
                    conn_txn = False
                else:
                    getattr(raw, a)()
                if a == "commit":
                    self.committed |= pend
                pend = set()
                dml_in_txn = False
                sps = 0
        # ---- ending
        end = co["end"]
        if end in ("ac_err", "ac_reconn") and kind != "conn":
            end = "close"
        if end == "ac_reconn" and (self.b.name == "live" and not self.b.legacy):
            end = "close"  # driver-level AUTOCOMMIT is documented as incompatible with the non-legacy pysqlite mode
        if end == "ac_reconn":
            if conn.get_transaction() is not None:
                conn.rollback()
                pend, dml_in_txn = set(), False
            if dml_in_txn:
                end = "close"  # inherited DBAPI transaction (reset None): switching the driver to autocommit there is not modelled
        if end == "ac_err":
            return self._end_ac_err(n, co, conn, key, pend, autocommit, iso_changed)
        if end == "ac_reconn":
            return self._end_ac_reconn(n, co, conn, key)
        dirty = dml_in_txn or iso_changed
        if dirty:
            self.cls.add("ends-dirty")
        reset = self.eff_reset()
        gone = False  # DBAPI connection discarded
        via_pool_reset = True  # leftovers handled by the pool's reset (else by Connection.close()'s own rollback)
        if kind == "conn":
            if end == "close":
                conn.close()
                via_pool_reset = False
            elif end == "exc":
                try:
                    with conn:
                        raise _Boom()
                except _Boom:
                    pass
                via_pool_reset = False
            elif end == "gc":
                conn = None
                gc.collect()
            elif end == "invalidate":
                conn.invalidate()
                conn.close()
                gone = True
            elif end == "detach":
                conn.detach()
                conn.close()
                gone = True
                via_pool_reset = False
        else:
            if end in ("close", "exc"):
                fairy.close()
            elif end == "gc":
                fairy = None  # no reference cycle: the fairy dies (and is finalized) by refcount
            elif end == "invalidate":
                fairy.invalidate()
                gone = True
            elif end == "detach":
                fairy.detach()
                fairy.close()
                gone = True
        self.cls.add(f"end:{kind}:{end}")
        # ---- model of what happens to the leftovers
        if end == "invalidate":
            pend = set()
        elif not via_pool_reset:
            # Connection.close(): "any transactional state ... unconditionally released via rollback()", but only if the
            # Connection had begun a transaction object; DBAPI-level leftovers inherited under reset None that the
            # Connection never touched go through the pool reset
            if kind == "conn" and self._conn_had_txn(co, autocommit):
                pend = set()
                dml_in_txn = False
            else:
                pend, dml_in_txn = self._pool_reset(pend, dml_in_txn, reset, gone)
        else:
            pend, dml_in_txn = self._pool_reset(pend, dml_in_txn, reset, gone)
        self._finish_checkout(n, key, kind, end, pend, dml_in_txn, dirty, gone)

    def _finish_checkout(self, n, key, kind, end, pend, dml_in_txn, dirty, gone):
        if gone:
            pend, dml_in_txn = set(), False
        if pend:
            self.pending[key] = pend
        if dml_in_txn:
            self.open_txn[key] = True
        if (pend or dml_in_txn) and not gone:
            self.cls.add("carry-over-expected")
        if dirty and not gone:
            self.left_dirty.add(key)
        got = self.b.committed()
        if got != self.committed:
            raise Violation(f"C24/{self.b.name}/committed-after-return", f"after checkout #{n} returned ({kind}/{end}, reset_on_return={self.reset}): independent connection sees "
                            f"{sorted(got)}, model committed={sorted(self.committed)}; {self.T()}", observed=sorted(got), expected=sorted(self.committed))

    def _end_ac_err(self, n, co, conn, key, pend, autocommit, iso_changed):
        """(i) a write autobegins, then execution_options(isolation_level='AUTOCOMMIT') is refused because a transaction is open
        (the Connection's recorded options may nevertheless say AUTOCOMMIT now), then close()"""
        if not (autocommit and self.b.name != "live"):
            self.tok += 1
            conn.exec_driver_sql(f"insert into t values ({self.tok})")
            if autocommit:
                self.committed.add(self.tok)
            else:
                pend.add(self.tok)
        else:
            conn.exec_driver_sql("select x from t").fetchall()
        try:
            conn.execution_options(isolation_level="AUTOCOMMIT")
        except self.sa.exc.InvalidRequestError:
            pass
        else:
            raise Violation("C24/ac_err/isolation-change-inside-transaction-accepted", f"execution_options(isolation_level=...) with a transaction in progress did not raise; {self.T()}")
        conn.close()  # the Connection holds a Transaction: its own rollback releases everything, whatever reset_on_return says
        self.cls.add("end:conn:ac_err")
        self.cls.add("ends-dirty")
        self._finish_checkout(n, key, "conn", "ac_err", set(), False, True, False)

    def _end_ac_reconn(self, n, co, conn, key):
        """(ii) AUTOCOMMIT option set, connection invalidated, the Connection transparently reconnects onto a fresh DBAPI connection
        at the ENGINE default isolation; a write there is transactional unless the engine default is AUTOCOMMIT; then close()"""
        conn.execution_options(isolation_level="AUTOCOMMIT")
        conn.invalidate()
        self.left_dirty.discard(key)
        actual_autocommit = self.cfg["default_iso"] == "AUTOCOMMIT"
        if actual_autocommit and self.b.name != "live":
            conn.exec_driver_sql("select x from t").fetchall()
            wrote = None
        else:
            self.tok += 1
            wrote = self.tok
            conn.exec_driver_sql(f"insert into t values ({wrote})")
        raw2 = conn.connection.dbapi_connection
        key2 = self.b.key(raw2)
        self.pending.pop(key2, None)  # whatever was carried over on it (reset None) goes with the Connection's own rollback below
        self.open_txn.pop(key2, None)
        self.last_iso[key2] = None
        if wrote is not None and actual_autocommit:
            self.committed.add(wrote)
        conn.close()
        self.cls.add("end:conn:ac_reconn")
        if not actual_autocommit:
            self.cls.add("ends-dirty")
        self._finish_checkout(n, key2, "conn", "ac_reconn", set(), False, not actual_autocommit, False)

    def _conn_had_txn(self, co, autocommit):
        """did the Connection object itself hold a Transaction at the end (autobegin by any execute / begin / savepoint)?"""
        had = False
        for a in self._acts:
            if a in ("w", "sel", "begin"):
                had = True
            elif a == "sp" and not autocommit:
                had = True
            elif a in ("commit", "rollback"):
                had = False
        return had

    def _pool_reset(self, pend, dml_in_txn, reset, gone):
        if reset == "rollback":
            return set(), False
        if reset == "commit":
            self.committed |= pend
            self.cls.add("commit-on-return")
            return set(), False
        # reset None: nothing happens; a discarded connection loses its work
        if gone:
            return set(), False
        return pend, dml_in_txn


def _check(case, ctx, make_backend):
    cfg = case["cfg"]
    b = make_backend(cfg, ctx)
    run = _Run(b, case)
    try:
        with warnings.catch_warnings():
            warnings.simplefilter("ignore")
            try:
                for n, co in enumerate(case["checkouts"]):
                    run.checkout(n, co)
                # one last clean checkout observes what the last user left
                run.checkout(len(case["checkouts"]), {"user": "conn", "iso": None, "acts": [], "end": "close"})
            finally:
                classes = set(run.cls)
                classes.add("pool:" + cfg["pool"])
                classes.add(f"reset:{cfg['reset']}")
                classes.add(f"mode:{cfg['mode']}")
                classes.add(f"skip_autocommit_rollback:{bool(cfg.get('skip_ac_rb'))}")
                if run.nontrivial:
                    classes.add("NONTRIVIAL")
                ctx.note(case, run.nontrivial, classes=sorted(classes))
                for r in run.excluded:
                    ctx.exclude(r)
                for r in run.infos:
                    ctx.info(r)
    finally:
        b.close()


def check_live(case, ctx):
    _check(case, ctx, lambda cfg, c: _Live(cfg, c))


def check_rec_pg(case, ctx):
    _check(case, ctx, lambda cfg, c: _Rec(cfg, "pg"))


def check_rec_mysql(case, ctx):
    _check(case, ctx, lambda cfg, c: _Rec(cfg, "mysql"))


# ------------------------------------------------------------------ generators
def _cfgs(live):
    return st.builds(
        lambda pool, size, reset, default_iso, mode, skip: {"pool": pool, "size": size, "reset": reset, "default_iso": default_iso, "mode": mode, "skip_ac_rb": skip},
        st.sampled_from(POOLS),
        st.integers(1, 2),
        st.sampled_from(["rollback", "rollback", "commit", None, None, "custom"]),
        st.sampled_from([None, None, "READ UNCOMMITTED", "SERIALIZABLE", "AUTOCOMMIT", "AUTOCOMMIT"] if live else [None, None, "AUTOCOMMIT", "AUTOCOMMIT", "SERIALIZABLE"]),
        st.sampled_from(["legacy", "legacy", "nonlegacy"]) if live else st.just("rec"),
        st.booleans(),
    )


def _fix_cfg(cfg):
    # AUTOCOMMIT engine default only makes sense in legacy pysqlite mode
    if cfg["mode"] == "nonlegacy" and cfg["default_iso"] == "AUTOCOMMIT":
        cfg = dict(cfg, default_iso=None)
    return cfg


def _checkouts(live):
    # the FULL set of levels each dialect supports, including the dialect's own default level and AUTOCOMMIT
    isos = ([None, None, "AUTOCOMMIT", "READ UNCOMMITTED", "SERIALIZABLE", "SERIALIZABLE"] if live
            else [None, None, "AUTOCOMMIT", "SERIALIZABLE", "READ COMMITTED", "REPEATABLE READ", "READ UNCOMMITTED"])
    one = st.builds(
        lambda user, iso, opts, acts, end: {"user": user, "iso": iso, "opts": opts, "acts": acts, "end": end},
        st.sampled_from(["conn", "conn", "raw"]),
        st.sampled_from(isos),
        st.sampled_from(["single", "single", "single", "token_first", "token_first", "token_engine", "token_engine", "one_call", "token_after", "iso_twice"]),
        st.lists(st.sampled_from(["w", "w", "w", "w", "begin", "begin", "sp", "sp", "sel", "sel", "commit", "commit", "rollback", "rollback", "cf"]), min_size=0, max_size=6),
        st.sampled_from(["close", "close", "gc", "gc", "exc", "invalidate", "detach", "ac_err", "ac_err", "ac_reconn", "ac_reconn"]),
    )
    return st.lists(one, min_size=2, max_size=15)


def _cases(live):
    return st.builds(lambda cfg, cos: {"cfg": _fix_cfg(cfg), "checkouts": cos}, _cfgs(live), _checkouts(live))


def subs(tier):
    return [
        Generated("live", check_live, strategy=_cases(True), quick=600, thorough=40000),
        Generated("rec-pg", check_rec_pg, strategy=_cases(False), quick=300, thorough=10000),
        Generated("rec-mysql", check_rec_mysql, strategy=_cases(False), quick=300, thorough=10000),
    ]
