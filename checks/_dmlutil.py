"""Helpers shared by C12 / C56 / C13 (owned by the author of those checks).

* ``scramble_factory(mode)``: an sqlite3.Connection subclass whose cursors
  deliver the rows of a multi-row ``INSERT .. RETURNING`` in a permuted order
  (SQLite documents RETURNING order as arbitrary) and that accept positional
  tuples for ``:1`` / ``$1`` placeholders (what the test-only numeric dialects
  of pysqlite.py do with their own factory).
* ``parse_insert(statement, parameters, paramstyle)``: a small structural
  interpreter for the INSERT statements emitted by "insertmanyvalues": column
  list, VALUES tuples with every placeholder resolved to its bound value, the
  ``sen_counter`` literal of the ``INSERT .. SELECT .. FROM (VALUES ..)`` form
  and the RETURNING / OUTPUT column names.
"""
from __future__ import annotations

import re
import sqlite3


# ------------------------------------------------------------------ live scrambling cursor
def scramble_factory(mode: str, stats: dict | None = None):
    """mode: 'none' | 'rev' | 'rot' | 'swap'"""

    def permute(rows):
        if len(rows) < 2:
            return rows
        if stats is not None:
            stats["multi"] = stats.get("multi", 0) + 1
        if mode == "rev":
            return rows[::-1]
        if mode == "rot":
            k = len(rows) // 2 or 1
            return rows[k:] + rows[:k]
        if mode == "swap":
            out = list(rows)
            for i in range(0, len(out) - 1, 2):
                out[i], out[i + 1] = out[i + 1], out[i]
            return out
        return rows

    def fix(sql, parameters):
        if isinstance(parameters, tuple) and parameters and (":1" in sql or "$1" in sql):
            return {str(i): v for i, v in enumerate(parameters, 1)}
        return parameters

    class Cur(sqlite3.Cursor):
        _vf_ins = False

        def execute(self, sql, parameters=()):
            self._vf_ins = sql.lstrip()[:6].upper() == "INSERT"
            return super().execute(sql, fix(sql, parameters))

        def executemany(self, sql, seq):
            self._vf_ins = False
            return super().executemany(sql, [fix(sql, p) for p in seq])

        def fetchall(self):
            rows = super().fetchall()
            if self._vf_ins:
                rows = permute(rows)
            return rows

    class Conn(sqlite3.Connection):
        def cursor(self, factory=None):
            return super().cursor(factory=Cur if factory is None else factory)

    return Conn


_dollar_registered = False


def register_dollar():
    """the test-only ``sqlite+pysqlite_dollar`` dialect (paramstyle numeric_dollar)"""
    global _dollar_registered
    if not _dollar_registered:
        from sqlalchemy.dialects import registry

        registry.register("sqlite.pysqlite_dollar", "sqlalchemy.dialects.sqlite.pysqlite", "_SQLiteDialect_pysqlite_dollar")
        _dollar_registered = True


def sqlite_engine(paramstyle="qmark", scramble="none", stats=None, **kw):
    """in-memory SQLite engine, non-legacy transaction control, one connection"""
    from sqlalchemy import create_engine
    from sqlalchemy.pool import StaticPool

    connect_args = {"autocommit": False, "factory": scramble_factory(scramble, stats)}
    if paramstyle == "numeric_dollar":
        register_dollar()
        return create_engine("sqlite+pysqlite_dollar://", poolclass=StaticPool, connect_args=connect_args, **kw)
    return create_engine("sqlite://", poolclass=StaticPool, connect_args=connect_args, paramstyle=paramstyle, **kw)


# ------------------------------------------------------------------ INSERT statement interpreter
_PH = {
    "pyformat": re.compile(r"%\((\w+)\)s"),
    "format": re.compile(r"%s"),
    "qmark": re.compile(r"\?"),
    "numeric_dollar": re.compile(r"\$(\d+)"),
    "numeric": re.compile(r":(\d+)"),
    "named": re.compile(r":(\w+)"),
}


class ParseError(Exception):
    pass


def _split_top(s: str):
    """split on top-level commas (parentheses and single-quoted strings respected)"""
    out, depth, cur, q = [], 0, [], False
    for ch in s:
        if q:
            cur.append(ch)
            if ch == "'":
                q = False
            continue
        if ch == "'":
            q = True
            cur.append(ch)
        elif ch == "(":
            depth += 1
            cur.append(ch)
        elif ch == ")":
            depth -= 1
            cur.append(ch)
        elif ch == "," and depth == 0:
            out.append("".join(cur).strip())
            cur = []
        else:
            cur.append(ch)
    if "".join(cur).strip():
        out.append("".join(cur).strip())
    return out


def _balanced(s: str, start: int):
    """s[start] == '(' ; returns index just past the matching ')'"""
    assert s[start] == "(", s[start:start + 20]
    depth, q = 0, False
    for i in range(start, len(s)):
        ch = s[i]
        if q:
            if ch == "'":
                q = False
            continue
        if ch == "'":
            q = True
        elif ch == "(":
            depth += 1
        elif ch == ")":
            depth -= 1
            if depth == 0:
                return i + 1
    raise ParseError("unbalanced parentheses")


class _Resolver:
    """resolves placeholders left to right over the whole statement"""

    def __init__(self, statement, parameters, paramstyle):
        self.rx = _PH[paramstyle]
        self.style = paramstyle
        self.params = parameters
        self.positions = {}  # start offset -> value
        n = 0
        for m in self.rx.finditer(statement):
            if paramstyle in ("format", "qmark"):
                val = parameters[n]
            elif paramstyle in ("numeric", "numeric_dollar"):
                val = parameters[int(m.group(1)) - 1]
            else:
                val = parameters[m.group(1)]
            self.positions[m.start()] = (m.end(), val, n)
            n += 1
        self.count = n


def parse_insert(statement: str, parameters, paramstyle: str):
    """returns dict(table, columns, rows=[{col: ('bind', value) | ('sql', text)}],
    counters=[int|None], form='values'|'select', returning=[colname], nplaceholders)"""
    st = " ".join(statement.split())
    res = _Resolver(st, parameters, paramstyle)
    m = re.match(r"INSERT (?:OR \w+ )?INTO (\S+) \(", st)
    if not m:
        raise ParseError(f"not an INSERT with a column list: {st[:80]}")
    table = m.group(1)
    cstart = m.end() - 1
    cend = _balanced(st, cstart)
    columns = [c.strip().strip('"`[]') for c in _split_top(st[cstart + 1:cend - 1])]
    rest = st[cend:]
    off = cend
    returning = []
    mo = re.match(r"\s*OUTPUT (.*?) (?=SELECT |VALUES )", rest)
    if mo:
        returning = _ret_names(mo.group(1))
    vi = rest.find("VALUES ")
    if vi < 0:
        raise ParseError("no VALUES")
    form = "select" if re.search(r"SELECT .* FROM \(VALUES ", rest[: vi + 7]) else "values"
    sel_names = None
    if form == "select":
        ms = re.search(r"SELECT (.*?) FROM \(VALUES ", rest)
        sel_names = _split_top(ms.group(1))
    pos = off + vi + len("VALUES ")
    rows, counters = [], []
    while True:
        end = _balanced(st, pos)
        items = _split_item_spans(st, pos + 1, end - 1)
        vals = []
        for a, b in items:
            txt = st[a:b].strip()
            # locate a placeholder at the start of the item
            lead = a + (len(st[a:b]) - len(st[a:b].lstrip()))
            if lead in res.positions:
                pend, val, _ = res.positions[lead]
                tail = st[pend:b].strip()
                if tail and not re.fullmatch(r"::[\w \[\]()]+", tail):
                    vals.append(("sql", txt))
                else:
                    vals.append(("bind", val))
            else:
                vals.append(("sql", txt))
        rows.append(vals)
        pos = end
        if st[pos:pos + 2] == ", " and st[pos + 2] == "(":
            pos += 2
            continue
        break
    tail = st[pos:]
    if form == "select":
        mt = re.match(r"\) AS imp_sen\((.*?)\) ORDER BY sen_counter", tail)
        if not mt:
            raise ParseError(f"unexpected tail of select form: {tail[:80]}")
        names = [x.strip() for x in mt.group(1).split(",")]
        if names[-1] != "sen_counter":
            raise ParseError("sen_counter is not the last derived column")
        pnames = names[:-1]
        # map SELECT list (one entry per INSERT column) to VALUES positions
        out_rows = []
        for vals in rows:
            if len(vals) != len(names):
                raise ParseError("VALUES tuple arity differs from imp_sen column list")
            kind, ctr = vals[-1]
            if kind != "sql" or not ctr.isdigit():
                raise ParseError(f"sen_counter is not an integer literal: {ctr!r}")
            counters.append(int(ctr))
            byname = dict(zip(pnames, vals[:-1]))
            row = {}
            for col, sel in zip(columns, sel_names):
                base = sel.split("::")[0].strip()
                mcast = re.fullmatch(r"CAST\((\w+) AS .*\)", sel)
                if mcast:
                    base = mcast.group(1)
                row[col] = byname[base] if base in byname else ("sql", sel)
            out_rows.append(row)
        rows = out_rows
        tail = tail[mt.end():]
    else:
        out_rows = []
        for vals in rows:
            if len(vals) != len(columns):
                raise ParseError(f"VALUES tuple arity {len(vals)} != {len(columns)} columns")
            out_rows.append(dict(zip(columns, vals)))
            counters.append(None)
        rows = out_rows
    mr = re.search(r" RETURNING (.*)$", tail)
    post = tail
    if mr:
        returning = _ret_names(mr.group(1))
        post = tail[: mr.start()]
    return {"table": table, "columns": columns, "rows": rows, "counters": counters, "form": form, "returning": returning,
            "post": post.strip(), "nplaceholders": res.count, "statement": st}


def _split_item_spans(st, a, b):
    spans, depth, q, s0 = [], 0, False, a
    for i in range(a, b):
        ch = st[i]
        if q:
            if ch == "'":
                q = False
            continue
        if ch == "'":
            q = True
        elif ch == "(":
            depth += 1
        elif ch == ")":
            depth -= 1
        elif ch == "," and depth == 0:
            spans.append((s0, i))
            s0 = i + 1
    spans.append((s0, b))
    return spans


def _ret_names(txt):
    out = []
    for item in _split_top(txt):
        item = item.strip()
        m = re.match(r"^(?:\w+\.)?[\"`\[]?(\w+)[\"`\]]?(?: AS (\w+))?$", item)
        if not m:
            out.append(("expr", item))
        else:
            out.append(("col", m.group(1), m.group(2)))
    return out
