"""C44 - version counters prevent lost updates.

2-3 Sessions (own connections, one SQLite file) work on the same versioned
rows.  Each session has an op sequence; a drawn (or exhaustively enumerated)
interleaving merges them.  Every op ends its transaction (commit / rollback)
before the next op runs - with ``expire_on_commit=False`` a session keeps the
(value, version) it loaded, which is exactly the stale state optimistic
versioning must catch.  Oracle: serial model of the table {id: (value,
version)} and of what each session has loaded; a flush whose loaded version is
not the current one must raise StaleDataError and leave the table unchanged
(raw observer connection), a successful UPDATE stores generator(loaded version)
and the in-memory version equals the stored one.
"""
from __future__ import annotations

import itertools

from hypothesis import strategies as st
from sqlalchemy import Column, ForeignKey, Integer, String, Table, join
from sqlalchemy.exc import IntegrityError
from sqlalchemy.orm import Session, column_property, declarative_base
from sqlalchemy.orm.exc import StaleDataError

from vf import sautil
from vf.api import Enumerated, Generated, Violation

PROPERTY = "C44"
LEVEL = "exploration"
RULE = (
    "exh: two sessions that both start with the row loaded, every pair of per-session op sequences over {load, write, write_rb, delete, forget, switch} of length <=2 (thorough: <=3) x EVERY interleaving "
    "of the two sequences x both version schemes (integer counter, custom string generator). exh_shapes: mapping shapes with the version column on the BASE table - "
    "joined-table inheritance of depth 2 and 3 and one class mapped against a plain join of two tables - two preloaded sessions, every pair of sequences of length <=2 "
    "(thorough <=3) over {load, write, delete} where session 0 changes column i and session 1 column j for every (i, j) over {base, intermediate, leaf} table columns, "
    "x every interleaving. random: all five mapping shapes, 2-3 sessions, 1-2 rows, sequences of <=5 ops over "
    "{load, forget, write, write_same, write_rb, write2 (both rows in one flush), delete, insert, switch (row switch: delete + add of a new object with the same "
    "primary key in one flush = one versioned UPDATE)} and a drawn interleaving. Non-trivial: at some point two "
    "sessions hold the same row loaded at the same version and both then attempt a write or delete (so exactly one may win), or a write/delete is "
    "attempted from a stale version; distinct = canonical JSON of the case"
)
ASSUMPTIONS = [
    "interleaving is at op granularity: each op commits or rolls back before another session runs (what the property quantifies; also keeps SQLite file locking out of the picture)",
    "sessions use expire_on_commit=False so that loaded state survives the op boundary; rollback expires everything (documented), after which the session reloads",
    "version schemes: default integer counter and a custom version_id_generator (string 'v<n>'); server-side generated versions (version_id_generator=False + triggers) are not covered",
    "SQLite only (supports_sane_rowcount=True, single-row UPDATE/DELETE per versioned object)",
    "staleness is judged on the version value only: delete + re-insert restarts the counter, a row re-created at the same version number is accepted (ABA, inherent to version counters)",
    "the serial model in this file is trusted; assigning the value an attribute already has emits no UPDATE and therefore performs no version check (documented unit-of-work behaviour)",
]

Base = declarative_base()


class IntRow(Base):
    __tablename__ = "vrow_int"
    id = Column(Integer, primary_key=True)
    val = Column(Integer)
    ver = Column(Integer, nullable=False)
    __mapper_args__ = {"version_id_col": ver}


def _strgen(v):
    return "v%d" % ((int(v[1:]) if v else 0) + 1)


class StrRow(Base):
    __tablename__ = "vrow_str"
    id = Column(Integer, primary_key=True)
    val = Column(Integer)
    ver = Column(String(20), nullable=False)
    __mapper_args__ = {"version_id_col": ver, "version_id_generator": _strgen}


# --- mapping shapes: the version column is on the BASE table, the changed column may live on the base, an intermediate or the leaf table
class A2(Base):  # joined-table inheritance, depth 2
    __tablename__ = "v2_base"
    id = Column(Integer, primary_key=True)
    ver = Column(Integer, nullable=False)
    kind = Column(String(10))
    val = Column(Integer)
    __mapper_args__ = {"version_id_col": ver, "polymorphic_on": kind, "polymorphic_identity": "a"}


class L2(A2):
    __tablename__ = "v2_leaf"
    id = Column(Integer, ForeignKey("v2_base.id"), primary_key=True)
    leaf = Column(Integer)
    __mapper_args__ = {"polymorphic_identity": "l"}


class A3(Base):  # joined-table inheritance, depth 3
    __tablename__ = "v3_base"
    id = Column(Integer, primary_key=True)
    ver = Column(Integer, nullable=False)
    kind = Column(String(10))
    val = Column(Integer)
    __mapper_args__ = {"version_id_col": ver, "polymorphic_on": kind, "polymorphic_identity": "a"}


class M3(A3):
    __tablename__ = "v3_mid"
    id = Column(Integer, ForeignKey("v3_base.id"), primary_key=True)
    mid = Column(Integer)
    __mapper_args__ = {"polymorphic_identity": "m"}


class L3(M3):
    __tablename__ = "v3_leaf"
    id = Column(Integer, ForeignKey("v3_mid.id"), primary_key=True)
    leaf = Column(Integer)
    __mapper_args__ = {"polymorphic_identity": "l"}


_ja = Table("vj_a", Base.metadata, Column("id", Integer, primary_key=True), Column("val", Integer), Column("ver", Integer, nullable=False))
_jb = Table("vj_b", Base.metadata, Column("aid", Integer, ForeignKey("vj_a.id"), primary_key=True), Column("leaf", Integer))


class JoinRow(Base):  # one class mapped against a plain join of two tables
    __table__ = join(_ja, _jb)
    id = column_property(_ja.c.id, _jb.c.aid)
    __mapper_args__ = {"version_id_col": _ja.c.ver}


_intgen = lambda v: (v or 0) + 1  # noqa: E731
VARIANTS = [
    {"name": "flat-int", "cls": IntRow, "gen": _intgen, "cols": ["val"], "tables": [IntRow.__table__], "sql": "select id, val, ver from vrow_int"},
    {"name": "flat-str", "cls": StrRow, "gen": _strgen, "cols": ["val"], "tables": [StrRow.__table__], "sql": "select id, val, ver from vrow_str"},
    {"name": "joined2", "cls": L2, "gen": _intgen, "cols": ["val", "leaf"], "tables": [A2.__table__, L2.__table__],
     "sql": "select b.id, b.val, l.leaf, b.ver from v2_base b join v2_leaf l on l.id = b.id"},
    {"name": "joined3", "cls": L3, "gen": _intgen, "cols": ["val", "mid", "leaf"], "tables": [A3.__table__, M3.__table__, L3.__table__],
     "sql": "select b.id, b.val, m.mid, l.leaf, b.ver from v3_base b join v3_mid m on m.id = b.id join v3_leaf l on l.id = b.id"},
    {"name": "join", "cls": JoinRow, "gen": _intgen, "cols": ["val", "leaf"], "tables": [_ja, _jb],
     "sql": "select a.id, a.val, b.leaf, a.ver from vj_a a join vj_b b on b.aid = a.id"},
]


def _interleave(seqs, order):
    """merge per-session sequences following `order` (a list of session indexes; surplus entries ignored, leftovers appended)"""
    its = [list(s) for s in seqs]
    pos = [0] * len(its)
    out = []
    for s in order:
        if s < len(its) and pos[s] < len(its[s]):
            out.append((s, its[s][pos[s]]))
            pos[s] += 1
    for s in range(len(its)):
        while pos[s] < len(its[s]):
            out.append((s, its[s][pos[s]]))
            pos[s] += 1
    return out


def check_schedule(case, ctx):
    import warnings

    from sqlalchemy.exc import SAWarning

    with warnings.catch_warnings():
        # a stale DELETE on a multi-table mapping first warns about the unversioned table ("expected to delete 1 row(s); 0 were matched")
        # before the versioned table raises StaleDataError; the exception is what is judged
        warnings.simplefilter("ignore", SAWarning)
        return _check_schedule(case, ctx)


def _check_schedule(case, ctx):
    V = VARIANTS[case["variant"]]
    cls, gen, cols = V["cls"], V["gen"], V["cols"]
    ncol = len(cols)

    def mk(rid_, vals):
        return cls(id=rid_, **dict(zip(cols, vals)))

    def view(o):
        """(column values, version) as currently held in the instance dict"""
        return (tuple(o.__dict__.get(c) for c in cols), o.__dict__.get("ver"))
    nrows = case.get("rows", 1)
    seqs = case["seqs"]
    sched = _interleave(seqs, case["order"])
    eng = sautil.file_engine(ctx)
    sessions = []
    raw = None
    classes = {"shape:" + V["name"]}
    nontrivial = False
    try:
        Base.metadata.create_all(eng, tables=V["tables"])
        db = {}  # model of the table: id -> (val, ver)
        with Session(eng) as s0:
            for r in range(nrows):
                s0.add(mk(r + 1, (0,) * ncol))
                db[r + 1] = ((0,) * ncol, gen(None))
            s0.commit()
        raw = sautil.raw_connect(eng._vf_path)
        sessions = [Session(eng, expire_on_commit=False) for _ in seqs]
        # per session: id -> ("loaded", val, ver) | absent (nothing cached; next touch loads)
        cache = [dict() for _ in seqs]
        objs = [dict() for _ in seqs]
        pending_conflict = set()  # (row, version) currently loaded by >= 2 sessions

        def observe(where, op):
            rows = {r[0]: (tuple(r[1:-1]), r[-1]) for r in raw.execute(V["sql"])}
            if rows != db:
                sig = f"C44/{op}/table-differs-from-serial-model"
                raise Violation(sig, f"{where}: table {rows} != serial model {db}", observed=rows, expected=db)

        def ensure_loaded(si, rid):
            """load the row into session si if it holds no state for it (part of the op, same transaction)"""
            if rid in cache[si]:
                return
            o = sessions[si].get(cls, rid)
            if o is None:
                cache[si].pop(rid, None)
                objs[si].pop(rid, None)
                if rid in db:
                    raise Violation("C44/load/row-not-found", f"session {si} get({rid}) returned None but the row exists")
                return
            if rid not in db:
                raise Violation("C44/load/phantom-row", f"session {si} loaded row {rid} that the model says is deleted")
            got_ = (tuple(getattr(o, c) for c in cols), o.ver)
            if got_ != db[rid]:
                raise Violation("C44/load/stale-read", f"session {si} fresh load of row {rid} gave {got_} but table has {db[rid]}", observed=str(got_), expected=str(db[rid]))
            cache[si][rid] = db[rid]
            objs[si][rid] = o

        def is_stale(si, rid):
            """the contract is about VERSIONS: a delete + re-insert restarts the counter, so a row re-created by someone else at the
            same version number is indistinguishable (ABA; inherent to counters, not checked as a defect)"""
            if rid not in db:
                return True
            if db[rid][1] != cache[si][rid][1]:
                return True
            if db[rid] != cache[si][rid]:
                classes.add("aba-reinsert-same-version")
            return False

        def drop_all(si):
            # nothing loaded any more: the identity map is emptied too, so the next touch is a fresh load (and a later `insert` of the
            # same primary key does not collide with a leftover expired instance)
            sessions[si].expunge_all()
            cache[si].clear()
            objs[si].clear()

        if case.get("preload"):
            # every session starts with the rows loaded at the initial version (so the first writer wins and every later one is stale)
            for si in range(len(seqs)):
                for rid in sorted(db):
                    ensure_loaded(si, rid)
                sessions[si].commit()
        for step, (si, opd) in enumerate(sched):
            op, rid, arg = opd[0], (opd[1] % nrows) + 1, opd[2]
            sess = sessions[si]
            where = f"step {step} session {si} {op}(row {rid})"
            classes.add(op)
            # conflict bookkeeping for the non-trivial rule
            if op in ("write", "write_rb", "delete", "write2", "switch"):
                c = cache[si].get(rid)
                if c is not None:
                    if sum(1 for sj in range(len(seqs)) if cache[sj].get(rid) == c) >= 2 or rid not in db or db[rid][1] != c[1]:
                        nontrivial = True
                        classes.add("conflict" if db.get(rid) == c else "stale-attempt")
            if op == "load":
                ensure_loaded(si, rid)
                sess.commit()
            elif op == "forget":
                sess.expunge_all()
                sess.rollback()
                drop_all(si)
            elif op in ("write", "write_same", "write_rb", "write2"):
                targets = [rid] if op != "write2" else list(range(1, nrows + 1))
                for t in targets:
                    ensure_loaded(si, t)
                targets = [t for t in targets if t in cache[si]]
                if not targets:
                    sess.commit()
                    classes.add("write-on-missing-row")
                    continue
                changed = []
                for k, t in enumerate(targets):
                    ci = arg % ncol  # which column (= which table of the mapping) carries the change
                    classes.add(f"write-col:{cols[ci]}" + ("" if ncol == 1 else f"@{V['name']}"))
                    newv = cache[si][t][0][ci] if op == "write_same" else 100 + step * 3 + k
                    setattr(objs[si][t], cols[ci], newv)
                    if newv != cache[si][t][0][ci]:
                        changed.append((t, ci, newv))
                stale = [t for t, _ci, _nv in changed if is_stale(si, t)]
                try:
                    sess.flush()
                    got = None
                except StaleDataError:
                    got = "StaleDataError"
                if stale:
                    if got != "StaleDataError":
                        raise Violation(f"C44/{op}/lost-update-not-detected",
                                        f"{where}: session loaded {[cache[si][t] for t in stale]} but table has {[db.get(t) for t in stale]}; flush succeeded instead of StaleDataError",
                                        observed="flush ok", expected="StaleDataError")
                    sess.rollback()
                    drop_all(si)
                    classes.add("stale-detected")
                else:
                    if got is not None:
                        raise Violation(f"C44/{op}/spurious-stale", f"{where}: loaded version is current ({[cache[si][t] for t in targets]}) but flush raised StaleDataError",
                                        observed="StaleDataError", expected="flush ok")
                    if op == "write_rb":
                        sess.rollback()
                        drop_all(si)
                    else:
                        sess.commit()
                        for t, ci, newv in changed:
                            newver = gen(cache[si][t][1])
                            # only the changed column is in the UPDATE: the other columns of the TABLE keep what is stored there (which, after a
                            # delete + re-insert at the same version number - the accepted ABA case - is not what this session holds), while the
                            # SESSION keeps its own copy of them
                            put = lambda vals: vals[:ci] + (newv,) + vals[ci + 1:]  # noqa: E731
                            db[t] = (put(db[t][0]), newver)
                            cache[si][t] = (put(cache[si][t][0]), newver)
                            o = objs[si][t]
                            if view(o) != cache[si][t]:
                                raise Violation(f"C44/{op}/in-memory-version", f"{where}: after commit object holds {view(o)}, expected {cache[si][t]} (stored version {db[t][1]})",
                                                observed=str(view(o)), expected=str(cache[si][t]))
            elif op == "delete":
                ensure_loaded(si, rid)
                if rid not in cache[si]:
                    sess.commit()
                    classes.add("delete-on-missing-row")
                    continue
                sess.delete(objs[si][rid])
                stale = is_stale(si, rid)
                try:
                    sess.flush()
                    got = None
                except StaleDataError:
                    got = "StaleDataError"
                if stale:
                    if got != "StaleDataError":
                        raise Violation("C44/delete/lost-update-not-detected", f"{where}: session loaded {cache[si][rid]} but table has {db.get(rid)}; DELETE succeeded",
                                        observed="flush ok", expected="StaleDataError")
                    sess.rollback()
                    drop_all(si)
                    classes.add("stale-detected")
                else:
                    if got is not None:
                        raise Violation("C44/delete/spurious-stale", f"{where}: loaded version is current but DELETE raised StaleDataError")
                    sess.commit()
                    del db[rid]
                    cache[si].pop(rid)
                    objs[si].pop(rid)
            elif op == "switch":
                # row switch: delete the loaded object and add a NEW object with the same primary key in ONE flush.  The unit of work turns
                # the pair into a single UPDATE on behalf of the pending object (persistence._organize_states_for_save "detected row
                # switch"; test/orm/test_versioning.py RowSwitchTest / AlternateGeneratorTest): it is matched on the version the deleted
                # object was loaded at and stores generator(that version) - i.e. a versioned write.
                ensure_loaded(si, rid)
                if rid not in cache[si]:
                    sess.commit()
                    classes.add("switch-on-missing-row")
                    continue
                newv = tuple(300 + step * 3 + k for k in range(ncol))
                old = objs[si][rid]
                new = mk(rid, newv)
                sess.delete(old)
                sess.add(new)
                stale = is_stale(si, rid)
                try:
                    sess.flush()
                    got = None
                except StaleDataError:
                    got = "StaleDataError"
                if stale:
                    if got != "StaleDataError":
                        raise Violation("C44/switch/lost-update-not-detected", f"{where}: session loaded {cache[si][rid]} but table has {db.get(rid)}; row-switch flush succeeded",
                                        observed="flush ok", expected="StaleDataError")
                    sess.rollback()
                    sess.expunge_all()
                    drop_all(si)
                    classes.add("stale-detected")
                else:
                    if got is not None:
                        raise Violation("C44/switch/spurious-stale", f"{where}: loaded version is current ({cache[si][rid]}) but the row-switch flush raised StaleDataError")
                    sess.commit()
                    db[rid] = (newv, gen(cache[si][rid][1]))
                    cache[si][rid] = db[rid]
                    objs[si][rid] = new
                    classes.add("row-switch-done")
                    if view(new) != db[rid]:
                        raise Violation("C44/switch/in-memory-version", f"{where}: after the row switch the new object holds {view(new)}, "
                                        f"expected {db[rid]} (version must be generator(loaded version))", observed=str(view(new)), expected=str(db[rid]))
            elif op == "insert":
                if rid in cache[si]:
                    sess.commit()
                    classes.add("insert-skipped-row-loaded")
                    continue
                o = mk(rid, (200 + step,) * ncol)
                sess.add(o)
                try:
                    sess.flush()
                    got = None
                except IntegrityError:
                    got = "IntegrityError"
                if rid in db:
                    if got != "IntegrityError":
                        raise Violation("C44/insert/duplicate-accepted", f"{where}: row exists but INSERT succeeded")
                    sess.rollback()
                    drop_all(si)
                else:
                    if got is not None:
                        raise Violation("C44/insert/spurious-integrity-error", f"{where}: row absent but INSERT failed")
                    sess.commit()
                    db[rid] = ((200 + step,) * ncol, gen(None))
                    cache[si][rid] = db[rid]
                    objs[si][rid] = o
                    if view(o) != db[rid]:
                        raise Violation("C44/insert/in-memory-version", f"{where}: after insert object holds {view(o)}, model {db[rid]}")
            else:
                raise ValueError(op)
            observe(where, op)
        ctx.note(case, nontrivial, classes=classes)
    finally:
        for s in sessions:
            s.close()
        if raw is not None:
            raw.close()
        sautil.remove_db(eng)


# ------------------------------------------------------------------ exhaustive interleavings
_EXH_ALPHA = ["load", "write", "write_rb", "delete", "forget", "switch"]


def _all_interleavings(n0, n1):
    for pos in itertools.combinations(range(n0 + n1), n0):
        order = [1] * (n0 + n1)
        for p in pos:
            order[p] = 0
        yield order


def _exh_cases(tier):
    maxlen = 2 if tier == "quick" else 3
    seqs = [()]
    for L in range(1, maxlen + 1):
        seqs += list(itertools.product(_EXH_ALPHA, repeat=L))
    for variant in (0, 1):
        for a in seqs:
            for b in seqs:
                if not a or not b:
                    continue
                if a > b:
                    continue  # the two sessions are symmetric
                for order in _all_interleavings(len(a), len(b)):
                    yield {"variant": variant, "rows": 1, "preload": True, "seqs": [[[op, 0, 0] for op in a], [[op, 0, 0] for op in b]], "order": order}


_SHAPE_ALPHA = ["load", "write", "delete"]


def _exh_shape_cases(tier):
    """mapping shapes (joined inheritance depth 2 / 3, mapper against a join): every pair of sequences of length <=2 over {load, write,
    delete}, where session 0 writes column i and session 1 writes column j for EVERY (i, j) over the mapping's tables, x every interleaving"""
    maxlen = 2 if tier == "quick" else 3
    seqs = []
    for L in range(1, maxlen + 1):
        seqs += list(itertools.product(_SHAPE_ALPHA, repeat=L))
    for variant in (2, 3, 4):
        ncol = len(VARIANTS[variant]["cols"])
        for ci in range(ncol):
            for cj in range(ncol):
                for a in seqs:
                    for b in seqs:
                        if "write" not in a and "write" not in b:
                            continue
                        if (ci, a) > (cj, b):
                            continue  # the two sessions are symmetric: (column i, seq a | column j, seq b) == its mirror image
                        for order in _all_interleavings(len(a), len(b)):
                            yield {"variant": variant, "rows": 1, "preload": True, "seqs": [[[op, 0, ci] for op in a], [[op, 0, cj] for op in b]], "order": order}


# ------------------------------------------------------------------ random schedules
_R_OPS = ["load", "load", "forget", "write", "write", "write_same", "write_rb", "write2", "delete", "insert", "switch", "switch"]


@st.composite
def _schedules(draw):
    ns = draw(st.sampled_from([2, 2, 3]))
    nrows = draw(st.sampled_from([1, 2]))
    seqs = []
    for _ in range(ns):
        seqs.append([[draw(st.sampled_from(_R_OPS)), draw(st.integers(0, 1)), draw(st.integers(0, 2))] for _ in range(draw(st.integers(1, 5)))])
    flat = [i for i, s in enumerate(seqs) for _ in s]
    order = list(draw(st.permutations(flat)))
    return {"variant": draw(st.sampled_from([0, 1, 2, 3, 3, 4])), "rows": nrows, "preload": draw(st.booleans()), "seqs": seqs, "order": order}


def subs(tier):
    return [
        Enumerated("exh", check_schedule, cases=_exh_cases, budget_s_quick=90.0),
        Enumerated("exh_shapes", check_schedule, cases=_exh_shape_cases, budget_s_quick=90.0),
        Generated("random", check_schedule, strategy=_schedules(), quick=600, thorough=30000),
    ]
