"""C53 - horizontal sharding routes reads and writes per the shard choosers.

Every case builds 2-4 fresh SQLite file shards, seeds them with raw sqlite3
(the same primary keys on several shards), draws the three chooser functions
as lookup tables and runs a short op program through one ShardedSession.

Oracle = a plain-Python model of the per-shard tables + an independent raw
sqlite3 observer:

* after every commit (and at the end of every case) the full content of every
  shard file, read through a raw sqlite3 connection, equals the model (every
  flushed row is on exactly the shard the chooser table gives / the identity
  token pins, bulk UPDATE/DELETE touched exactly the chosen shards);
* a query returns, per chosen shard, exactly the rows the same criteria /
  ORDER BY / LIMIT select on that shard (model; when nothing is uncommitted also
  a hand-written SQL twin run on the raw connection) -- results are
  concatenated per shard, so LIMIT/ORDER BY are per shard and no global order is
  demanded;
* every returned object carries the identity token of the shard its row came
  from (rows carry an origin tag), equal PKs from different shards are distinct
  objects, one object per (class, pk, token);
* cursor-level statement monitors on every shard engine: each operation emits
  SQL on exactly the shards the model says (lazy loads, refresh and expired
  loads included).
"""
from __future__ import annotations

import sqlite3

import sqlalchemy as sa
from hypothesis import strategies as st
from sqlalchemy import delete, inspect, select, update
from sqlalchemy.ext.horizontal_shard import ShardedSession, set_shard_id
from sqlalchemy.orm import foreign, registry, relationship
from sqlalchemy.orm.exc import MultipleResultsFound
from sqlalchemy.sql import operators, visitors

from vf import sautil
from vf.api import Generated, HarnessError, Violation

PROPERTY = "C53"
LEVEL = "exploration"
RULE = (
    "case = (2-4 SQLite file shards; routing table rk->shard; identity_chooser / execute_chooser as drawn ordered shard subsets, "
    "execute_chooser optionally derived from rk criteria of the statement; choosers optionally narrowing to lazy_loaded_from's shard; "
    "seed rows per shard with PKs from 1..4 so equal PKs live on several shards; program of 4-15 ops (always one chooser-routed select, one unit-of-work write and one lazy load): add parent(+children)/add child/"
    "modify/ORM delete + flush, commit, get (plain / identity_token / bind shard_id), select (2.0, legacy Query, column rows, Core table; "
    "filters, ORDER BY, LIMIT; set_shard_id option / bind_arguments shard_id / Query.set_shard), lazy load of Parent.children and "
    "Child.parent, refresh, expire+access, ORM-enabled bulk UPDATE/DELETE, one flush inserting / re-pointing several parents whose post_update many-to-one (Parent.fav) lives on different shards with re-used PKs, detach (expunge / second session closed / + pickle round trip) + optional modification + merge(load=True) "
    "of an object whose PK also lives on other shards, with or without the other shard's object resident in the session). Object references are indexes modulo the current model rows. "
    "Non-trivial: some read/bulk op spanned >=2 shards that both hold one of the PKs of the queried table, or a lazy load / refresh / "
    "expired load ran for an object of a shard other than the first; distinct = canonical JSON of the case"
)
ASSUMPTIONS = [
    "SQLite only (file databases, non-legacy transaction control); one ShardedSession per case, single thread",
    "choosers return non-empty lists of distinct shard ids (a duplicated id legitimately duplicates rows; an empty list is outside the API)",
    "results of a multi-shard statement are compared per shard (multiset, and order within one shard when ORDER BY is given); the interleaving of shards is not judged",
    "session.get()/many-to-one loads whose chooser-selected shards hold the PK more than once must raise MultipleResultsFound (Result.one()); not judged further",
    "bulk DELETE uses synchronize_session='fetch' (evaluate skips expired objects by design, which would leave stale identities the model does not track); no rollback op",
    "merge(load=True) of a detached persistent object reconciles by its full identity key (class, pk, identity_token) as Session.merge documents; the detached object has no loaded relationships, so nothing cascades",
    "Session.merge copies the given instance's load_path / load_options onto the merged instance (source comment in Session._merge), so a propagating set_shard_id of the resident object is replaced by the source's options; the model follows that",
    "trusted: the Python row model in this file, sqlite3 as the independent observer, vf.sautil.Capture (before_cursor_execute) as statement monitor",
]

KEYS = ["a", "b", "c", "d", "e"]

# ------------------------------------------------------------------ mapped family (built once per process)
_reg = registry()


@_reg.mapped
class Parent:
    __tablename__ = "parent"
    id = sa.Column(sa.Integer, primary_key=True, autoincrement=False)
    rk = sa.Column(sa.String, nullable=False)
    tag = sa.Column(sa.String)
    val = sa.Column(sa.Integer)
    fav_id = sa.Column(sa.Integer)  # favourite child, written by a post_update UPDATE at the end of the flush


@_reg.mapped
class Child:
    __tablename__ = "child"
    id = sa.Column(sa.Integer, primary_key=True, autoincrement=False)
    parent_id = sa.Column(sa.Integer)
    tag = sa.Column(sa.String)
    val = sa.Column(sa.Integer)
    parent = relationship(Parent, primaryjoin=lambda: foreign(Child.parent_id) == Parent.id, backref="children")


Parent.__mapper__.add_property("fav", relationship(Child, primaryjoin=lambda: foreign(Parent.fav_id) == Child.id, post_update=True))
_reg.configure()
CLS = {"P": Parent, "C": Child}
TBL = {"P": "parent", "C": "child"}
DDL = [
    "CREATE TABLE parent (id INTEGER NOT NULL PRIMARY KEY, rk VARCHAR NOT NULL, tag VARCHAR, val INTEGER, fav_id INTEGER)",
    "CREATE TABLE child (id INTEGER NOT NULL PRIMARY KEY, parent_id INTEGER, tag VARCHAR, val INTEGER)",
]
_case_counter = [0]


# ------------------------------------------------------------------ row model helpers
def _match(cls, pk, row, filters):
    for kind, arg in filters:
        if kind == "val_ge":
            ok = row["val"] >= arg
        elif kind == "id_eq":
            ok = pk == arg
        elif kind == "id_in":
            ok = pk in arg
        elif kind == "rk_eq":
            ok = row["rk"] == arg
        elif kind == "rk_in":
            ok = row["rk"] in arg
        elif kind == "pid_eq":
            ok = row["parent_id"] == arg
        else:
            raise HarnessError(f"filter {kind}")
        if not ok:
            return False
    return True


def _order_limit(items, order, limit):
    """items: list of (pk, row)"""
    if order == "id":
        items = sorted(items, key=lambda it: it[0])
    elif order == "val":
        items = sorted(items, key=lambda it: (it[1]["val"], it[0]))
    elif order == "val_desc":
        items = sorted(items, key=lambda it: (-it[1]["val"], it[0]))
    else:
        items = sorted(items, key=lambda it: it[0])  # canonical only; compared as multiset
    if limit is not None and order is not None:
        items = items[:limit]
    return items


def _sa_criteria(ent, filters):
    """ent: mapped class or Table.c-like namespace with id/val/rk/parent_id"""
    out = []
    for kind, arg in filters:
        if kind == "val_ge":
            out.append(ent.val >= arg)
        elif kind == "id_eq":
            out.append(ent.id == arg)
        elif kind == "id_in":
            out.append(ent.id.in_(list(arg)))
        elif kind == "rk_eq":
            out.append(ent.rk == arg)
        elif kind == "rk_in":
            out.append(ent.rk.in_(list(arg)))
        elif kind == "pid_eq":
            out.append(ent.parent_id == arg)
    return out


def _sa_order(ent, order):
    if order == "id":
        return [ent.id]
    if order == "val":
        return [ent.val, ent.id]
    if order == "val_desc":
        return [ent.val.desc(), ent.id]
    return []


def _raw_twin(cls, filters, order, limit):
    """hand-written SQL equivalent (independent of the SQL compiler)"""
    where, params = [], []
    for kind, arg in filters:
        if kind == "val_ge":
            where.append("val >= ?")
            params.append(arg)
        elif kind == "id_eq":
            where.append("id = ?")
            params.append(arg)
        elif kind == "id_in":
            where.append("id IN (%s)" % ",".join("?" * len(arg)))
            params.extend(arg)
        elif kind == "rk_eq":
            where.append("rk = ?")
            params.append(arg)
        elif kind == "rk_in":
            where.append("rk IN (%s)" % ",".join("?" * len(arg)))
            params.extend(arg)
        elif kind == "pid_eq":
            where.append("parent_id = ?")
            params.append(arg)
    sql = f"SELECT id, tag, val FROM {TBL[cls]}"
    if where:
        sql += " WHERE " + " AND ".join(where)
    sql += {None: "", "id": " ORDER BY id", "val": " ORDER BY val, id", "val_desc": " ORDER BY val DESC, id"}[order]
    if limit is not None and order is not None:
        sql += " LIMIT ?"
        params.append(limit)
    return sql, params


def _first_word(stmt):
    return stmt.lstrip().split(None, 1)[0].upper()


# ------------------------------------------------------------------ the per-case world
class _World:
    def __init__(self, case, ctx):
        self.case = case
        self.ctx = ctx
        self.n = case["n"]
        self.names = [f"s{i}" for i in range(self.n)]
        self.table = {k: self.names[case["table"][k] % self.n] for k in KEYS}
        self.id_sub = self._subset(case["id_sub"])
        self.ex_sub = self._subset(case["ex_sub"])
        self.ex_mode = case["ex_mode"]
        self.lazy_mode = case["lazy_mode"]
        self.db = {s: {"P": {}, "C": {}} for s in self.names}
        self.tag_home = {}
        self.held = {}  # (cls, pk, shard) -> [obj, sticky]
        self.keep = []  # strong refs to everything ever seen (identity map is weak)
        self.dirty = False
        self.newtag = 0
        self.labels = set()
        self.nontrivial = False
        self.chooser_no_instance = 0
        self.engines = {}
        self.caps = {}
        self.sess = None

    def _subset(self, idxs):
        out = []
        for i in idxs:
            s = self.names[i % self.n]
            if s not in out:
                out.append(s)
        return out or [self.names[0]]

    def shard(self, i):
        return self.names[i % self.n]

    # ---- setup / teardown
    def setup(self):
        _case_counter[0] += 1
        cid = _case_counter[0]
        keys_for = {s: [k for k in KEYS if self.table[k] == s] for s in self.names}
        for i, s in enumerate(self.names):
            eng = sautil.file_engine(self.ctx, f"c{cid}_{s}.sqlite")
            self.engines[s] = eng
            seed = self.case["seed"][i] if i < len(self.case["seed"]) else {"parents": [], "children": []}
            raw = sqlite3.connect(eng._vf_path, isolation_level=None)
            try:
                for ddl in DDL:
                    raw.execute(ddl)
                for pid, rki, val in seed["parents"]:
                    if pid in self.db[s]["P"]:
                        continue
                    if self.case["consistent"] and keys_for[s]:
                        rk = keys_for[s][rki % len(keys_for[s])]
                    else:
                        rk = KEYS[rki % len(KEYS)]
                    tag = f"{s}/P/{pid}"
                    self.db[s]["P"][pid] = {"rk": rk, "tag": tag, "val": val, "fav": None}
                    self.tag_home[tag] = ("P", pid, s)
                    raw.execute("INSERT INTO parent (id, rk, tag, val) VALUES (?,?,?,?)", (pid, rk, tag, val))
                for cid_, ppid, val in seed["children"]:
                    if cid_ in self.db[s]["C"]:
                        continue
                    tag = f"{s}/C/{cid_}"
                    self.db[s]["C"][cid_] = {"parent_id": ppid, "tag": tag, "val": val}
                    self.tag_home[tag] = ("C", cid_, s)
                    raw.execute("INSERT INTO child (id, parent_id, tag, val) VALUES (?,?,?,?)", (cid_, ppid, tag, val))
            finally:
                raw.close()
            self.caps[s] = sautil.Capture(eng)
        w = self

        def shard_chooser(mapper, instance, clause=None):
            if instance is None:
                w.chooser_no_instance += 1
                return w.names[0]
            if isinstance(instance, Parent):
                return w.table[instance.rk]
            return w.table[instance.parent.rk]

        def identity_chooser(mapper, primary_key, *, lazy_loaded_from, execution_options, bind_arguments, **kw):
            if lazy_loaded_from is not None and w.lazy_mode == "owner":
                return [lazy_loaded_from.identity_token]
            return list(w.id_sub)

        rk_col = Parent.__table__.c.rk

        def execute_chooser(orm_context):
            if orm_context.is_select and w.lazy_mode == "owner" and orm_context.lazy_loaded_from is not None:
                return [orm_context.lazy_loaded_from.identity_token]
            if w.ex_mode == "criteria":
                ids = []
                wc = getattr(orm_context.statement, "whereclause", None)
                if wc is not None:

                    def visit_binary(binary):
                        left, right = binary.left, binary.right
                        if isinstance(left, sa.sql.ColumnElement) and hasattr(left, "shares_lineage") and left.shares_lineage(rk_col):
                            if binary.operator is operators.eq:
                                vals = [right.effective_value]
                            elif binary.operator is operators.in_op:
                                vals = list(right.effective_value)
                            else:
                                vals = []
                            for v in vals:
                                if w.table[v] not in ids:
                                    ids.append(w.table[v])

                    visitors.traverse(wc, {}, {"binary": visit_binary})
                if ids:
                    return ids
            return list(w.ex_sub)

        def new_session():
            return ShardedSession(
                shards=dict(self.engines),
                shard_chooser=shard_chooser,
                identity_chooser=identity_chooser,
                execute_chooser=execute_chooser,
                expire_on_commit=self.case["eoc"],
            )

        self.new_session = new_session
        self.sess = new_session()

    def teardown(self):
        try:
            if self.sess is not None:
                self.sess.close()
        finally:
            for c in self.caps.values():
                c.close()
            for e in self.engines.values():
                sautil.remove_db(e)

    # ---- statement monitor
    def clear(self):
        for c in self.caps.values():
            c.clear()

    def seen(self, kinds=None):
        """set of shards that saw >=1 statement (optionally only of the given first words)"""
        out = set()
        for s, c in self.caps.items():
            for stmt, _p, _m in c.rows:
                if kinds is None or _first_word(stmt) in kinds:
                    out.add(s)
                    break
        return out

    def expect_sql(self, what, exact=None, within=None, kinds=None):
        got = self.seen(kinds)
        if exact is not None and got != set(exact):
            raise Violation(
                f"C53/{what}/wrong-shards-hit",
                f"{what}: statements {'('+'/'.join(sorted(kinds))+') ' if kinds else ''}ran on shards {sorted(got)}, choosers select {sorted(set(exact))}",
                observed={s: [r[0] for r in c.rows] for s, c in self.caps.items()},
                expected=sorted(set(exact)),
            )
        if within is not None and not got <= set(within):
            raise Violation(
                f"C53/{what}/sql-on-foreign-shard",
                f"{what}: statements ran on shards {sorted(got)}, only {sorted(set(within))} may be touched",
                observed={s: [r[0] for r in c.rows] for s, c in self.caps.items()},
                expected=sorted(set(within)),
            )

    # ---- identity bookkeeping
    def see(self, obj, cls, what, sticky_if_new=None, expected_shard=None):
        """register an object handed out by the session; verifies token/identity/data"""
        if not isinstance(obj, CLS[cls]):
            raise Violation(f"C53/{what}/wrong-class", f"{what}: got {type(obj).__name__}, wanted {cls}")
        st_ = inspect(obj)
        key = st_.identity_key
        token = st_.identity_token
        if key is None or key[2] != token or key[0] is not CLS[cls]:
            raise Violation("C53/identity/key-token-inconsistent", f"{what}: identity_key={key!r} identity_token={token!r}")
        pk = key[1][0]
        if token not in self.db:
            raise Violation("C53/identity/token-not-a-shard", f"{what}: identity_token={token!r}")
        if expected_shard is not None and token != expected_shard:
            raise Violation(
                f"C53/{what}/identity-token-wrong-shard",
                f"{what}: {cls} pk={pk} has identity_token {token!r}, expected {expected_shard!r}",
                observed=token,
                expected=expected_shard,
            )
        k = (cls, pk, token)
        self.keep.append(obj)
        rec = self.held.get(k)
        if rec is not None:
            if rec[0] is not obj:
                raise Violation("C53/identity/two-objects-one-key", f"{what}: a second object for identity {k}")
        else:
            for k2, rec2 in self.held.items():
                if rec2[0] is obj:
                    raise Violation(
                        "C53/identity/one-object-two-shards",
                        f"{what}: the object registered under {k2} was returned again as {k} (equal PKs of different shards must stay distinct)",
                        observed=[list(k2), list(k)],
                    )
            self.held[k] = [obj, sticky_if_new]
        self.audit_obj(k, what)
        return k

    def audit_obj(self, k, what):
        """attribute values of a live object equal the model row of *its* shard;
        any load this triggers stays on that shard"""
        cls, pk, shard = k
        obj = self.held[k][0]
        row = self.db[shard][cls].get(pk)
        if row is None:
            raise Violation(f"C53/{what}/object-without-row", f"{what}: {k} returned but shard {shard} has no such row", observed=list(k))
        if not inspect(obj).persistent:
            raise Violation(
                f"C53/{what}/live-object-not-persistent",
                f"{what}: {k} has a row on its shard and was never deleted, but the session no longer holds it as persistent (synchronization hit the wrong identity token?)",
                observed=list(k),
            )
        self.clear()
        got = {"tag": obj.tag, "val": obj.val}
        if cls == "P":
            got["rk"] = obj.rk
            got["fav"] = obj.fav_id
        else:
            got["parent_id"] = obj.parent_id
        self.expect_sql("attribute-load", within=[shard])
        if got != row:
            home = self.tag_home.get(got["tag"])
            if home is not None and home != k:
                raise Violation(
                    f"C53/{what}/row-of-other-shard",
                    f"{what}: object with identity {k} carries the row {home} (tag {got['tag']!r})",
                    observed=got,
                    expected=row,
                )
            raise Violation(f"C53/{what}/stale-or-wrong-attributes", f"{what}: object {k} has {got}, its shard's row is {row}", observed=got, expected=row)

    def audit_all(self, what):
        for k in sorted(self.held):
            self.audit_obj(k, what)

    def drop(self, k):
        self.held.pop(k, None)

    # ---- raw observer
    def dump_check(self, what):
        for s in self.names:
            raw = sautil.raw_connect(self.engines[s]._vf_path)
            try:
                prow = raw.execute("SELECT id, rk, tag, val, fav_id FROM parent ORDER BY id").fetchall()
                crow = raw.execute("SELECT id, parent_id, tag, val FROM child ORDER BY id").fetchall()
            finally:
                raw.close()
            exp_p = [(pk, r["rk"], r["tag"], r["val"], r["fav"]) for pk, r in sorted(self.db[s]["P"].items())]
            exp_c = [(pk, r["parent_id"], r["tag"], r["val"]) for pk, r in sorted(self.db[s]["C"].items())]
            if prow != exp_p or crow != exp_c:
                raise Violation(
                    f"C53/{what}/shard-content-differs",
                    f"after {what}: shard {s} holds parent={prow} child={crow}; routing per choosers/identity tokens gives parent={exp_p} child={exp_c}",
                    observed={"parent": prow, "child": crow},
                    expected={"parent": exp_p, "child": exp_c},
                )

    # ---- picking
    def rows_of(self, cls):
        return [(s, pk) for s in self.names for pk in sorted(self.db[s][cls])]

    def pick(self, cls, ref, prefer_sticky=False):
        """a live object for the ref-th model row (loaded by identity_token if needed)"""
        rows = self.rows_of(cls)
        if prefer_sticky:
            marked = [(k[2], k[1]) for k in sorted(self.held) if k[0] == cls and self.held[k][1] is not None]
            rows = marked or rows
        if not rows:
            return None
        s, pk = rows[ref % len(rows)]
        k = (cls, pk, s)
        if k not in self.held:
            self.clear()
            obj = self.sess.get(CLS[cls], pk, identity_token=s)
            self.expect_sql("get-token", exact=[s])
            if obj is None:
                raise Violation("C53/get-token/missed-row", f"get({cls}, {pk}, identity_token={s!r}) returned None but the shard holds the row")
            self.see(obj, cls, "get-token", expected_shard=s)
        return k

    def dup_pk_across(self, cls, shards):
        shards = list(dict.fromkeys(shards))
        for i, a in enumerate(shards):
            for b in shards[i + 1:]:
                if set(self.db[a][cls]) & set(self.db[b][cls]):
                    return True
        return False

    def free_id(self, cls, shard, want):
        for d in range(8):
            cand = (want - 1 + d) % 8 + 1
            if cand not in self.db[shard][cls] and (cls, cand, shard) not in self.held:
                return cand
        return None

    def model_shards(self, cls, filters, route):
        if route is not None:
            return [self.shard(route[1])]
        if self.ex_mode == "criteria" and cls == "P":
            ids = []
            for kind, arg in filters:
                vals = [arg] if kind == "rk_eq" else list(arg) if kind == "rk_in" else []
                for v in vals:
                    if self.table[v] not in ids:
                        ids.append(self.table[v])
            if ids:
                return ids
        return list(self.ex_sub)


# ------------------------------------------------------------------ ops
def _op_add_parent(w, op):
    s = w.table[op["rk"]]
    pid = w.free_id("P", s, op["id"])
    if pid is None:
        w.labels.add("noop")
        return
    w.newtag += 1
    ptag = f"n{w.newtag}"
    p = Parent(id=pid, rk=op["rk"], tag=ptag, val=op["val"])
    kids = []
    used = set()
    for kid_id, kval in op["kids"]:
        cid = None
        for d in range(8):
            cand = (kid_id - 1 + d) % 8 + 1
            if cand not in w.db[s]["C"] and ("C", cand, s) not in w.held and cand not in used:
                cid = cand
                break
        if cid is None:
            continue
        used.add(cid)
        w.newtag += 1
        c = Child(id=cid, tag=f"n{w.newtag}", val=kval, parent=p)
        kids.append((cid, c, kval))
    others = [o for o in w.names if o != s and pid in w.db[o]["P"]]
    if others:
        w.labels.add("add:pk-exists-on-other-shard")
    w.sess.add(p)
    w.clear()
    w.sess.flush()
    w.dirty = True
    w.expect_sql("flush-add", exact=[s])
    w.db[s]["P"][pid] = {"rk": op["rk"], "tag": ptag, "val": op["val"], "fav": None}
    w.tag_home[ptag] = ("P", pid, s)
    for cid, c, kval in kids:
        w.db[s]["C"][cid] = {"parent_id": pid, "tag": c.tag, "val": kval}
        w.tag_home[c.tag] = ("C", cid, s)
    w.see(p, "P", "flush-add", expected_shard=s)
    for cid, c, kval in kids:
        w.see(c, "C", "flush-add", expected_shard=s)


def _op_add_child(w, op):
    k = w.pick("P", op["p"])
    if k is None:
        w.labels.add("noop")
        return
    _, ppk, sp = k
    p = w.held[k][0]
    s = w.table[w.db[sp]["P"][ppk]["rk"]]
    cid = w.free_id("C", s, op["id"])
    if cid is None:
        w.labels.add("noop")
        return
    w.newtag += 1
    tag = f"n{w.newtag}"
    c = Child(id=cid, tag=tag, val=op["val"], parent=p)
    w.sess.add(c)
    w.clear()
    w.sess.flush()
    w.dirty = True
    w.expect_sql("flush-add-child", exact=[s], kinds={"INSERT", "UPDATE", "DELETE"})
    w.expect_sql("flush-add-child", within=[s, sp])
    w.db[s]["C"][cid] = {"parent_id": ppk, "tag": tag, "val": op["val"]}
    w.tag_home[tag] = ("C", cid, s)
    if s != sp:
        w.labels.add("add-child:chooser-shard!=parent-shard")
    w.see(c, "C", "flush-add-child", expected_shard=s)


def _op_modify(w, op):
    k = w.pick(op["cls"], op["o"])
    if k is None:
        w.labels.add("noop")
        return
    cls, pk, s = k
    obj = w.held[k][0]
    row = w.db[s][cls][pk]
    v = op["val"] if op["val"] != row["val"] else op["val"] + 1
    if cls == "P":
        chooser_says = w.table[row["rk"]]
    else:
        pr = w.db[s]["P"].get(row["parent_id"])
        chooser_says = w.table[pr["rk"]] if pr is not None else None
    if chooser_says is not None and chooser_says != s:
        w.labels.add("modify:chooser-disagrees-with-token")
    obj.val = v
    w.clear()
    w.sess.flush()
    w.dirty = True
    row["val"] = v
    w.expect_sql("flush-update", exact=[s], kinds={"INSERT", "UPDATE", "DELETE"})
    w.expect_sql("flush-update", within=[s])
    w.audit_obj(k, "flush-update")


def _op_orm_delete(w, op):
    k = w.pick("C", op["o"])
    if k is None:
        w.labels.add("noop")
        return
    cls, pk, s = k
    obj = w.held[k][0]
    w.sess.delete(obj)
    w.clear()
    w.sess.flush()
    w.dirty = True
    del w.db[s]["C"][pk]
    w.drop(k)
    w.expect_sql("flush-delete", exact=[s], kinds={"INSERT", "UPDATE", "DELETE"})


def _op_commit(w, op):
    w.sess.commit()
    w.dirty = False
    w.dump_check("commit")


def _op_get(w, op):
    cls, pk, how = op["cls"], op["id"], op["how"]
    x = w.shard(op["shard"])
    ent = CLS[cls]
    w.clear()
    err = None
    obj = None
    try:
        if how == "token":
            obj = w.sess.get(ent, pk, identity_token=x)
        elif how == "bind":
            obj = w.sess.get(ent, pk, bind_arguments={"shard_id": x})
        else:
            obj = w.sess.get(ent, pk)
    except MultipleResultsFound as e:
        err = e
    what = f"get-{how}"
    if how == "token":
        look, dbshards = [x], [x]
    elif how == "bind":
        look, dbshards = list(w.id_sub), [x]
    else:
        look, dbshards = list(w.id_sub), list(w.ex_sub)
    hits = [s for s in look if (cls, pk, s) in w.held]
    if hits:
        # which of several in-session candidates wins is not specified: any of them is accepted
        w.labels.add("get:identity-map-hit")
        hit = next((s for s in hits if obj is w.held[(cls, pk, s)][0]), None)
        if err is not None or hit is None:
            raise Violation(
                f"C53/{what}/identity-map-lookup",
                f"{what}({cls},{pk}): identities ({cls},{pk},{hits}) are in the session and offered by the identity chooser {look}, got {obj!r} / {err!r}",
            )
        w.expect_sql(what, within=[hit])
        w.audit_obj((cls, pk, hit), what)
        return
    w.expect_sql(what, exact=dbshards)
    cands = [s for s in dbshards if pk in w.db[s][cls]]
    if len(dbshards) >= 2 and w.dup_pk_across(cls, dbshards):
        w.nontrivial = True
    if len(cands) >= 2:
        w.labels.add("get:ambiguous")
        if err is None:
            raise Violation(
                f"C53/{what}/ambiguous-pk-not-reported",
                f"{what}({cls},{pk}) over shards {dbshards}: rows on {cands}, expected MultipleResultsFound, got {obj!r}",
            )
        _resync(w, cls, pk, cands, None)
        return
    if err is not None:
        raise Violation(f"C53/{what}/spurious-multiple-results", f"{what}({cls},{pk}) over {dbshards}: only {cands} hold the PK but MultipleResultsFound raised")
    if not cands:
        if obj is not None:
            raise Violation(f"C53/{what}/phantom", f"{what}({cls},{pk}) over {dbshards}: no shard holds the PK, got {inspect(obj).identity_key}")
        return
    if obj is None:
        raise Violation(f"C53/{what}/missed-row", f"{what}({cls},{pk}) over {dbshards}: row on {cands[0]} not returned")
    w.see(obj, cls, what, expected_shard=cands[0])


def _resync(w, cls, pk, cands, sticky):
    """after MultipleResultsFound the rows already turned into objects may or may
    not still be referenced; align the model's view of the identity map"""
    for s in cands:
        key = CLS[cls].__mapper__.identity_key_from_primary_key((pk,), identity_token=s)
        o = w.sess.identity_map.get(key)
        if o is not None and (cls, pk, s) not in w.held:
            w.see(o, cls, "resync", sticky_if_new=sticky, expected_shard=s)


def _op_select(w, op):
    cls, api, filters, order, limit, route = op["cls"], op["api"], op["filters"], op["order"], op["limit"], op["route"]
    ent = CLS[cls]
    if order is None:
        limit = None
    if api == "core" and route is not None and route[0] != "bind":
        route = ["bind", route[1]]
    if api == "query" and route is not None and route[0] == "bind":
        route = ["qshard", route[1]]
    if api != "query" and route is not None and route[0] == "qshard":
        route = ["bind", route[1]]
    shards = w.model_shards(cls, filters, route)
    x = w.shard(route[1]) if route is not None else None
    what = f"select-{api}"
    # ---- expected, from the model (and a raw twin when nothing is uncommitted)
    expected = {}
    for s in shards:
        items = [(pk, r) for pk, r in w.db[s][cls].items() if _match(cls, pk, r, filters)]
        expected[s] = _order_limit(items, order, limit)
        if not w.dirty:
            sql, params = _raw_twin(cls, filters, order, limit)
            raw = sautil.raw_connect(w.engines[s]._vf_path)
            try:
                rows = raw.execute(sql, params).fetchall()
            finally:
                raw.close()
            mine = [(pk, r["tag"], r["val"]) for pk, r in expected[s]]
            if (rows != mine) if order else (sorted(rows) != sorted(mine)):
                raise Violation("C53/state/raw-twin-differs-from-model", f"shard {s}: raw SQL {sql!r} {params} gives {rows}, model {mine}", observed=rows, expected=mine)
    if len(shards) >= 2 and w.dup_pk_across(cls, shards):
        w.nontrivial = True
        w.labels.add("select:multi-shard+shared-pk")
    if limit is not None and len(shards) >= 2:
        w.labels.add("select:limit-multi-shard")
    if sum(1 for s in shards if expected[s]) >= 2:
        w.labels.add("select:rows-from>=2-shards")
    if limit is not None and any(len([1 for pk, r in w.db[s][cls].items() if _match(cls, pk, r, filters)]) > limit for s in shards):
        w.labels.add("select:limit-cuts-a-shard")
    # ---- run
    bind_arguments = {}
    w.clear()
    if api == "query":
        q = w.sess.query(ent).filter(*_sa_criteria(ent, filters)).order_by(*_sa_order(ent, order))
        if limit is not None:
            q = q.limit(limit)
        if route is not None:
            if route[0] == "opt":
                q = q.options(set_shard_id(x, propagate_to_loaders=route[2]))
            else:
                q = q.set_shard(x)
        result = q.all()
        entity_rows = True
    else:
        if api == "select":
            stmt = select(ent)
            src = ent
            entity_rows = True
        elif api == "cols":
            stmt = select(ent.id, ent.tag, ent.val)
            src = ent
            entity_rows = False
        else:
            t = ent.__table__
            stmt = select(t.c.id, t.c.tag, t.c.val)
            src = t.c
            entity_rows = False
        stmt = stmt.where(*_sa_criteria(src, filters)).order_by(*_sa_order(src, order))
        if limit is not None:
            stmt = stmt.limit(limit)
        if route is not None:
            if route[0] == "opt":
                stmt = stmt.options(set_shard_id(x, propagate_to_loaders=route[2]))
            else:
                bind_arguments["shard_id"] = x
        res = w.sess.execute(stmt, bind_arguments=bind_arguments)
        result = res.scalars().all() if entity_rows else [tuple(r) for r in res.all()]
    w.expect_sql(what, exact=shards)
    # ---- compare
    if entity_rows:
        by_shard = {}
        for o in result:
            ik = inspect(o).identity_key
            by_shard.setdefault(ik[2], []).append(ik[1][0])
        exp_pks = {s: [pk for pk, _ in expected[s]] for s in shards}
        got_cmp = {s: (v if order else sorted(v)) for s, v in by_shard.items() if v}
        exp_cmp = {s: (v if order else sorted(v)) for s, v in exp_pks.items() if v}
        if got_cmp != exp_cmp:
            raise Violation(
                f"C53/{what}/result-differs",
                f"{what} {cls} filters={filters} order={order} limit={limit} route={route} over shards {shards}: per-shard PKs {got_cmp}, expected {exp_cmp}",
                observed=got_cmp,
                expected=exp_cmp,
            )
        sticky = x if (route is not None and route[0] == "opt" and route[2]) else None
        if sticky is not None:
            w.labels.add("select:set_shard_id-propagating")
        for o in result:
            w.see(o, cls, what, sticky_if_new=sticky)
    else:
        exp_rows = [(pk, r["tag"], r["val"]) for s in shards for pk, r in expected[s]]
        ok = sorted(result) == sorted(exp_rows)
        if ok and order:
            # order within each shard (tags name the shard of origin)
            for s in shards:
                sub = [r for r in result if w.tag_home.get(r[1], (None, None, None))[2] == s]
                if sub != [(pk, r["tag"], r["val"]) for pk, r in expected[s]]:
                    ok = False
        if not ok:
            raise Violation(
                f"C53/{what}/result-differs",
                f"{what} {cls} filters={filters} order={order} limit={limit} route={route} over shards {shards}: rows {result}, expected (per shard) {exp_rows}",
                observed=result,
                expected=exp_rows,
            )


def _lazy_shards(w, rec_sticky, owner_shard):
    if rec_sticky is not None:
        return [rec_sticky]
    if w.lazy_mode == "owner":
        return [owner_shard]
    return list(w.ex_sub)


def _op_lazy_children(w, op):
    k = w.pick("P", op["o"], prefer_sticky=op.get("pref") == "sticky")
    if k is None:
        w.labels.add("noop")
        return
    _, pk, sp = k
    p, sticky = w.held[k]
    w.audit_obj(k, "pre-lazy")  # loads scalar attributes if expired (own shard only)
    w.sess.expire(p, ["children"])
    w.clear()
    kids = list(p.children)
    shards = _lazy_shards(w, sticky, sp)
    w.expect_sql("lazy-children", exact=shards)
    if sp != w.names[0]:
        w.nontrivial = True
        w.labels.add("lazy:non-first-shard")
    if sticky is not None:
        w.labels.add("lazy:via-propagated-set_shard_id")
    if len(shards) >= 2:
        w.labels.add("lazy:chooser-spans-shards")
    exp = {s: sorted(cpk for cpk, r in w.db[s]["C"].items() if r["parent_id"] == pk) for s in shards}
    got = {}
    for c in kids:
        ik = inspect(c).identity_key
        got.setdefault(ik[2], []).append(ik[1][0])
    got = {s: sorted(v) for s, v in got.items()}
    if got != {s: v for s, v in exp.items() if v}:
        raise Violation(
            "C53/lazy-children/result-differs",
            f"Parent({pk})@{sp}.children over shards {shards}: per-shard child PKs {got}, expected {exp}",
            observed=got,
            expected=exp,
        )
    for c in kids:
        w.see(c, "C", "lazy-children", sticky_if_new=sticky)


def _op_lazy_parent(w, op):
    k = w.pick("C", op["o"], prefer_sticky=op.get("pref") == "sticky")
    if k is None:
        w.labels.add("noop")
        return
    _, pk, sc = k
    c, sticky = w.held[k]
    w.audit_obj(k, "pre-lazy")
    ppk = w.db[sc]["C"][pk]["parent_id"]
    w.sess.expire(c, ["parent"])
    w.clear()
    err = None
    par = None
    try:
        par = c.parent
    except MultipleResultsFound as e:
        err = e
    if sc != w.names[0]:
        w.nontrivial = True
        w.labels.add("lazy:non-first-shard")
    look = [sc] if w.lazy_mode == "owner" else list(w.id_sub)
    hits = [s for s in look if ("P", ppk, s) in w.held]
    if hits:
        w.labels.add("lazy-parent:identity-map-hit")
        hit = next((s for s in hits if par is w.held[("P", ppk, s)][0]), None)
        if err is not None or hit is None:
            raise Violation(
                "C53/lazy-parent/identity-map-lookup",
                f"Child({pk})@{sc}.parent: identities (P,{ppk},{hits}) are in the session and offered by the identity chooser {look}; got {par!r} / {err!r}",
            )
        w.expect_sql("lazy-parent", within=[hit])
        return
    shards = _lazy_shards(w, sticky, sc)
    if sticky is not None:
        w.labels.add("lazy:via-propagated-set_shard_id")
    w.expect_sql("lazy-parent", exact=shards)
    cands = [s for s in shards if ppk in w.db[s]["P"]]
    if len(cands) >= 2:
        w.labels.add("lazy-parent:ambiguous")
        if err is None:
            raise Violation("C53/lazy-parent/ambiguous-pk-not-reported", f"Child({pk})@{sc}.parent over {shards}: parent rows on {cands}, got {par!r}")
        _resync(w, "P", ppk, cands, sticky)
        return
    if err is not None:
        raise Violation("C53/lazy-parent/spurious-multiple-results", f"Child({pk})@{sc}.parent over {shards}: only {cands} hold Parent({ppk})")
    if not cands:
        if par is not None:
            raise Violation("C53/lazy-parent/phantom", f"Child({pk})@{sc}.parent over {shards}: no Parent({ppk}) there, got {inspect(par).identity_key}")
        return
    if par is None:
        raise Violation("C53/lazy-parent/missed-row", f"Child({pk})@{sc}.parent over {shards}: Parent({ppk}) on {cands[0]} not loaded")
    w.see(par, "P", "lazy-parent", sticky_if_new=sticky, expected_shard=cands[0])


def _op_refresh(w, op):
    k = w.pick(op["cls"], op["o"])
    if k is None:
        w.labels.add("noop")
        return
    cls, pk, s = k
    obj = w.held[k][0]
    w.clear()
    if op["op"] == "refresh":
        w.sess.refresh(obj)
        what = "refresh"
    else:
        w.sess.expire(obj)
        obj.val
        what = "expired-load"
    w.expect_sql(what, exact=[s])
    if s != w.names[0]:
        w.nontrivial = True
        w.labels.add("reload:non-first-shard")
    others = [o for o in w.names if o != s and pk in w.db[o][cls]]
    if others:
        w.labels.add("reload:pk-also-on-other-shard")
    w.audit_obj(k, what)


def _op_bulk(w, op):
    cls, filters, route, api = op["cls"], op["filters"], op["route"], op["api"]
    ent = CLS[cls]
    is_update = op["op"] == "bulk_update"
    what = "bulk-update" if is_update else "bulk-delete"
    if api == "query" and route is not None:
        route = ["qshard", route[1]]
    if api != "query" and route is not None and route[0] == "qshard":
        route = ["bind", route[1]]
    shards = w.model_shards(cls, filters, route)
    x = w.shard(route[1]) if route is not None else None
    sync = op["sync"] if is_update else "fetch"
    crit = _sa_criteria(ent, filters)
    bind_arguments = {}
    w.clear()
    if api == "query":
        q = w.sess.query(ent).filter(*crit)
        if route is not None:
            q = q.set_shard(x)
        if is_update:
            q.update({"val": (ent.val + op["k"]) if op["mode"] == "add" else op["k"]}, synchronize_session=sync)
        else:
            q.delete(synchronize_session=sync)
    else:
        if is_update:
            stmt = update(ent).where(*crit).values(val=(ent.val + op["k"]) if op["mode"] == "add" else op["k"])
        else:
            stmt = delete(ent).where(*crit)
        stmt = stmt.execution_options(synchronize_session=sync)
        if route is not None:
            if route[0] == "opt":
                stmt = stmt.options(set_shard_id(x))
            else:
                bind_arguments["shard_id"] = x
        w.sess.execute(stmt, bind_arguments=bind_arguments)
    w.dirty = True
    w.expect_sql(what, exact=shards, kinds={"UPDATE", "DELETE", "INSERT"})
    w.expect_sql(what, within=shards)
    touched_other = False
    for s in shards:
        for pk in sorted(w.db[s][cls]):
            r = w.db[s][cls][pk]
            if not _match(cls, pk, r, filters):
                continue
            if any(o not in shards and pk in w.db[o][cls] and _match(cls, pk, w.db[o][cls][pk], filters) for o in w.names):
                touched_other = True
            if is_update:
                r["val"] = (r["val"] + op["k"]) if op["mode"] == "add" else op["k"]
            else:
                del w.db[s][cls][pk]
                rec = w.held.get((cls, pk, s))
                w.drop((cls, pk, s))
                if rec is not None and inspect(rec[0]).persistent:
                    raise Violation(
                        "C53/bulk-delete/deleted-object-still-persistent",
                        f"bulk-delete (synchronize_session='fetch') removed row ({cls},{pk}) on {s} but the session still holds that identity as persistent",
                        observed=[cls, pk, s],
                    )
    if touched_other:
        w.labels.add("bulk:matching-row-on-unchosen-shard")
    if len(shards) >= 2:
        w.labels.add("bulk:multi-shard")
        if w.dup_pk_across(cls, shards) or not is_update:
            w.nontrivial = True
    # session synchronization is per identity token: live objects of unchosen
    # shards keep their values, those of chosen shards follow the statement
    w.audit_all(what)


def _op_merge(w, op):
    """detach an object of shard B (expunge / loaded by another session that is then closed / + pickle round trip),
    optionally modify it, and merge(load=True) it back while the session does not hold the B identity but may hold the
    equal-PK object of another shard A.  Session.merge() is documented to reconcile by identity key, which for a
    ShardedSession includes the identity token: the merged object is the B identity, A is untouched, the UPDATE goes to B"""
    cls, how = op["cls"], op["how"]
    ent = CLS[cls]
    src_sticky = None  # loader options travel with the given instance: Session._merge copies load_path / load_options onto the merged one
    rows = w.rows_of(cls)
    dup = [(s, pk) for s, pk in rows if any(o != s and pk in w.db[o][cls] for o in w.names)]
    if op["dup"] and dup:
        rows = dup
    if not rows:
        w.labels.add("noop")
        return
    b, pk = rows[op["o"] % len(rows)]
    kb = (cls, pk, b)
    others = [o for o in w.names if o != b and pk in w.db[o][cls]]
    w.labels.add("merge")
    w.labels.add(f"merge:how={how}")
    # ---- optionally make sure the equal-PK object of another shard is resident (preferring one the identity chooser lists before B)
    if others and op["resident"]:
        rank = {sh: i for i, sh in enumerate(w.id_sub)}
        a = sorted(others, key=lambda o: (rank.get(o, 99), o))[0]
        ka = (cls, pk, a)
        if ka not in w.held:
            w.clear()
            oa = w.sess.get(ent, pk, identity_token=a)
            w.expect_sql("get-token", exact=[a])
            if oa is None:
                raise Violation("C53/get-token/missed-row", f"get({cls}, {pk}, identity_token={a!r}) returned None but the shard holds the row")
            w.see(oa, cls, "get-token", expected_shard=a)
    # ---- detach the B object
    if how == "expunge":
        if kb not in w.held:
            w.pick(cls, w.rows_of(cls).index((b, pk)))
        w.audit_obj(kb, "pre-merge")  # loads expired column attributes (own shard only)
        det, src_sticky = w.held[kb]
        w.sess.expire(det, ["children", "fav"] if cls == "P" else ["parent"])  # unloaded relationships: merge does not cascade
        w.sess.expunge(det)
        w.drop(kb)
    else:
        if w.dirty:  # the other session reads committed state only
            w.sess.commit()
            w.dirty = False
            w.dump_check("commit")
        other = w.new_session()
        try:
            det = other.get(ent, pk, identity_token=b)
            if det is None:
                raise Violation("C53/get-token/missed-row", f"second session: get({cls}, {pk}, identity_token={b!r}) returned None")
            det.tag, det.val  # loaded
        finally:
            other.close()
        if how == "pickle":
            import pickle

            det = pickle.loads(pickle.dumps(det))
    st_d = inspect(det)
    if not st_d.detached or st_d.identity_token != b:
        raise Violation("C53/merge/detached-object-lost-token", f"detached {cls}({pk}) of shard {b}: detached={st_d.detached} identity_token={st_d.identity_token!r}")
    row = w.db[b][cls][pk]
    new_val = None
    if op["modify"]:
        new_val = op["val"] if op["val"] != row["val"] else op["val"] + 1
        det.val = new_val
        w.labels.add("merge:modified")
    held_b = kb in w.held
    resident = [o for o in others if (cls, pk, o) in w.held]
    if others:
        w.nontrivial = True
        w.labels.add("merge:pk-also-on-other-shard")
    if held_b:
        w.labels.add("merge:target-identity-already-in-session")
    elif resident:
        w.labels.add("merge:other-shard-object-resident")
        if any(o in w.id_sub and (b not in w.id_sub or w.id_sub.index(o) < w.id_sub.index(b)) for o in resident):
            w.labels.add("merge:other-shard-object-resident:listed-before-target")
    elif others:
        w.labels.add("merge:no-resident-but-pk-on-other-shard")
    before = {k: w.held[k][0] for k in w.held}
    w.clear()
    try:
        merged = w.sess.merge(det, load=True)
    except MultipleResultsFound as e:
        raise Violation(
            "C53/merge/multiple-results",
            f"merge() of detached {cls}({pk}) with identity_token {b!r} raised MultipleResultsFound ({e}); the key names one shard",
            observed=str(e), expected=f"the {b} identity",
        )
    if held_b:
        w.expect_sql("merge", within=[b])
        if merged is not before[kb]:
            raise Violation("C53/merge/not-the-resident-identity", f"merge of {kb}: the session holds that identity but a different object was returned")
    else:
        w.expect_sql("merge", exact=[b])
    tok = inspect(merged).identity_token
    for k2, o2 in before.items():
        if o2 is merged and k2 != kb:
            raise Violation(
                "C53/merge/merged-onto-other-shard-identity",
                f"merge of detached {cls}({pk}) from shard {b} returned the resident object of {k2} (identity_token {tok!r}); equal PKs of different shards must stay distinct",
                observed=list(k2), expected=list(kb),
            )
    if tok != b:
        raise Violation("C53/merge/identity-token-wrong-shard", f"merge of detached {cls}({pk}) from shard {b} gave identity_token {tok!r}", observed=tok, expected=b)
    if merged is det:
        raise Violation("C53/merge/returned-the-detached-object", f"merge of {kb} returned the given detached instance")
    w.clear()
    w.sess.flush()
    if new_val is not None:
        w.dirty = True
        row["val"] = new_val
        w.expect_sql("merge-flush", exact=[b], kinds={"INSERT", "UPDATE", "DELETE"})
    else:
        # no value changed; a never-populated column (fav_id of an object added without it) copied as None may still
        # produce a no-op UPDATE, which must stay on the object's own shard
        w.expect_sql("merge-flush", within=[b], kinds={"INSERT", "UPDATE", "DELETE"})
        if w.seen({"INSERT", "UPDATE", "DELETE"}):
            w.dirty = True
    w.see(merged, cls, "merge", sticky_if_new=src_sticky, expected_shard=b)
    if w.held[kb][1] != src_sticky:
        # merge onto a resident object replaces its loader options (e.g. a propagating set_shard_id) by those of the source
        w.labels.add("merge:replaces-propagated-shard-option")
        w.held[kb][1] = src_sticky
    w.audit_all("merge")  # A's attributes untouched, B's follow the merged state
    if new_val is not None and op["commit"]:
        w.sess.commit()
        w.dirty = False
        w.dump_check("merge-commit")  # raw sqlite3: the UPDATE landed in shard B only


def _op_add_multi(w, op):
    """ONE flush that inserts new parents (each with a new child that is also its post_update 'fav') which the shard
    chooser places on several shards, re-using the same primary keys across shards where they are free"""
    from sqlalchemy.orm.exc import StaleDataError

    made, used_p, used_c = [], set(), set()
    for it in op["items"]:
        s = w.table[it["rk"]]
        pid = next((c for d in range(8) for c in [(it["id"] - 1 + d) % 8 + 1]
                    if c not in w.db[s]["P"] and ("P", c, s) not in w.held and (s, c) not in used_p), None)
        cid = next((c for d in range(8) for c in [(it["kid"] - 1 + d) % 8 + 1]
                    if c not in w.db[s]["C"] and ("C", c, s) not in w.held and (s, c) not in used_c), None)
        if pid is None or cid is None:
            continue
        used_p.add((s, pid))
        used_c.add((s, cid))
        w.newtag += 2
        p = Parent(id=pid, rk=it["rk"], tag=f"n{w.newtag - 1}", val=it["val"])
        c = Child(id=cid, tag=f"n{w.newtag}", val=it["val"], parent=p)
        p.fav = c
        made.append((s, pid, cid, p, c))
    if not made:
        w.labels.add("noop")
        return
    shards = sorted({m[0] for m in made})
    w.labels.add("post_update:insert-flush")
    if len(shards) >= 2:
        w.nontrivial = True
        w.labels.add("post_update:one-flush-spans-shards")
        pks = [m[1] for m in made]
        if any(pks.count(x) >= 2 for x in pks):
            w.labels.add("post_update:one-flush-spans-shards:same-pk")
    for m in made:
        w.sess.add(m[3])
    w.clear()
    try:
        w.sess.flush()
    except StaleDataError as e:
        raise Violation("C53/flush-post-update/stale-data", f"one flush inserting parents on shards {shards} with post_update: {e}", observed=str(e))
    w.dirty = True
    w.expect_sql("flush-post-update", exact=shards, kinds={"INSERT", "UPDATE", "DELETE"})
    for s, pid, cid, p, c in made:
        w.db[s]["P"][pid] = {"rk": p.rk, "tag": p.tag, "val": p.val, "fav": cid}
        w.tag_home[p.tag] = ("P", pid, s)
        w.db[s]["C"][cid] = {"parent_id": pid, "tag": c.tag, "val": c.val}
        w.tag_home[c.tag] = ("C", cid, s)
    for s, pid, cid, p, c in made:
        w.see(p, "P", "flush-post-update", expected_shard=s)
        w.see(c, "C", "flush-post-update", expected_shard=s)
        w.sess.expire(p, ["fav"])
    if op.get("commit"):
        w.sess.commit()
        w.dirty = False
        w.dump_check("post-update-commit")


def _op_set_fav(w, op):
    """ONE flush changing the post_update many-to-one of persistent parents that live on several shards"""
    from sqlalchemy.orm.exc import StaleDataError

    plan, seen_k = [], set()
    for ref, cref in op["targets"]:  # phase 1: load everything (loads autoflush, so nothing may be pending yet)
        k = w.pick("P", ref)
        if k is None or k in seen_k:
            continue
        seen_k.add(k)
        _, pid, s = k
        row = w.db[s]["P"][pid]
        w.audit_obj(k, "pre-set-fav")
        cand = [c for c in sorted(w.db[s]["C"]) if c != row["fav"]]
        if cand:
            cid = cand[cref % len(cand)]
            kc = ("C", cid, s)
            if kc not in w.held:
                w.pick("C", w.rows_of("C").index((s, cid)))
            plan.append((k, cid))
        elif row["fav"] is not None:
            plan.append((k, None))
    changed = []
    w.clear()
    with w.sess.no_autoflush:  # loading the old value of a later target must not flush the earlier ones separately
        for k, cid in plan:  # phase 2: assign, then one flush
            w.held[k][0].fav = None if cid is None else w.held[("C", cid, k[2])][0]
            changed.append((k, cid))
    if not changed:
        w.labels.add("noop")
        return
    shards = sorted({k[2] for k, _ in changed})
    w.labels.add("post_update:update-flush")
    if len(shards) >= 2:
        w.nontrivial = True
        w.labels.add("post_update:one-flush-spans-shards")
        pks = [k[1] for k, _ in changed]
        if any(pks.count(x) >= 2 for x in pks):
            w.labels.add("post_update:one-flush-spans-shards:same-pk")
    try:
        w.sess.flush()
    except StaleDataError as e:
        raise Violation("C53/flush-post-update/stale-data", f"one flush updating post_update FKs of parents on shards {shards}: {e}", observed=str(e))
    w.dirty = True
    w.expect_sql("flush-post-update", exact=shards, kinds={"INSERT", "UPDATE", "DELETE"})
    for k, cid in changed:
        w.db[k[2]]["P"][k[1]]["fav"] = cid
    for k, _ in changed:
        w.audit_obj(k, "flush-post-update")
        w.sess.expire(w.held[k][0], ["fav"])
    if op.get("commit"):
        w.sess.commit()
        w.dirty = False
        w.dump_check("post-update-commit")


OPS = {
    "add_multi": _op_add_multi,
    "set_fav": _op_set_fav,
    "merge": _op_merge,
    "add_parent": _op_add_parent,
    "add_child": _op_add_child,
    "modify": _op_modify,
    "orm_delete": _op_orm_delete,
    "commit": _op_commit,
    "get": _op_get,
    "select": _op_select,
    "lazy_children": _op_lazy_children,
    "lazy_parent": _op_lazy_parent,
    "refresh": _op_refresh,
    "expire_access": _op_refresh,
    "bulk_update": _op_bulk,
    "bulk_delete": _op_bulk,
}


def check_program(case, ctx):
    w = _World(case, ctx)
    noted = False
    try:
        w.setup()
        try:
            for op in case["ops"]:
                OPS[op["op"]](w, op)
            # distinctness of equal PKs from different shards, one object per key
            objs = {}
            for k in sorted(w.held):
                o = w.held[k][0]
                if id(o) in objs:
                    raise Violation("C53/identity/one-object-two-shards", f"{objs[id(o)]} and {k} are the same object")
                objs[id(o)] = k
                if inspect(o).identity_token != k[2]:
                    raise Violation("C53/identity/token-changed", f"{k} now has identity_token {inspect(o).identity_token!r}")
            if any(len({k[2] for k in w.held if k[:2] == kk[:2]}) >= 2 for kk in w.held):
                w.labels.add("session-held-equal-pk-from-2-shards")
            w.sess.commit()
            w.dirty = False
            w.dump_check("final-commit")
            if w.chooser_no_instance:
                ctx.info("shard_chooser called without instance", w.chooser_no_instance)
        finally:
            classes = sorted(w.labels | {f"shards={w.n}", f"lazy_mode={w.lazy_mode}", f"ex_mode={w.ex_mode}"})
            ctx.note(case, w.nontrivial, classes=classes + (["nontrivial"] if w.nontrivial else ["trivial"]))
            noted = True
    finally:
        w.teardown()
        if not noted:
            ctx.note(case, False, classes=["setup-failed"])


# ------------------------------------------------------------------ strategy
# (strategy objects are built once per shard count; building them inside the
# composite dominated generation time)
def _filters(cls):
    small = st.integers(1, 5)
    common = [
        st.tuples(st.just("val_ge"), st.integers(0, 9)),
        st.tuples(st.just("id_eq"), small),
        st.tuples(st.just("id_in"), st.lists(small, min_size=1, max_size=3, unique=True)),
    ]
    if cls == "P":
        common += [
            st.tuples(st.just("rk_eq"), st.sampled_from(KEYS)),
            st.tuples(st.just("rk_in"), st.lists(st.sampled_from(KEYS), min_size=1, max_size=3, unique=True)),
            st.tuples(st.just("rk_in"), st.lists(st.sampled_from(KEYS), min_size=2, max_size=3, unique=True)),
        ]
    else:
        common += [st.tuples(st.just("pid_eq"), st.integers(1, 4))]
    one = st.one_of(*common)
    return st.one_of(
        st.just([]), st.just([]), st.lists(one, min_size=1, max_size=1), st.lists(one, min_size=1, max_size=1), st.lists(one, min_size=2, max_size=2)
    ).map(lambda fl: [[k, a] for k, a in fl])


_PMASK = st.integers(1, 15)
_CMASK = st.integers(0, 31)
_PROW = st.integers(0, 49)
_CROW = st.integers(0, 39)
_NSH = st.sampled_from([2, 2, 3, 3, 4])
_EXMODE = st.sampled_from(["table", "table", "criteria"])
_LAZYMODE = st.sampled_from(["owner", "owner", "table"])
_CONSISTENT = st.sampled_from([True, True, False])
_THIRD = st.integers(0, 2)
_STRATS = {}


def _strats(n):
    if n in _STRATS:
        return _STRATS[n]
    sh = st.integers(0, n - 1)
    subset = st.lists(sh, min_size=1, max_size=n, unique=True)
    wide = st.lists(sh, min_size=2, max_size=n, unique=True)
    full = st.just(list(range(n)))
    ref = st.integers(0, 23)
    cls_s = st.sampled_from(["P", "C"])
    route = st.one_of(
        st.none(),
        st.none(),
        st.none(),
        st.tuples(st.just("opt"), sh, st.booleans()).map(list),
        st.tuples(st.just("bind"), sh).map(list),
        st.tuples(st.just("qshard"), sh).map(list),
    )
    any_api = st.sampled_from(["select", "select", "query", "cols", "core"])
    flt = {"P": _filters("P"), "C": _filters("C")}

    def sel(cls, route=route, api=any_api):
        return st.fixed_dictionaries(
            {
                "op": st.just("select"),
                "cls": st.just(cls),
                "api": api,
                "filters": flt[cls],
                "order": st.sampled_from([None, "id", "val", "val_desc"]),
                "limit": st.sampled_from([None, None, 1, 2, 3]),
                "route": route,
            }
        )

    def bulk(cls):
        return st.one_of(
            st.fixed_dictionaries(
                {
                    "op": st.just("bulk_update"),
                    "cls": st.just(cls),
                    "filters": flt[cls],
                    "route": route,
                    "api": st.sampled_from(["stmt", "stmt", "query"]),
                    "mode": st.sampled_from(["add", "set"]),
                    "k": st.integers(1, 9),
                    "sync": st.sampled_from(["fetch", "evaluate", "auto"]),
                }
            ),
            st.fixed_dictionaries(
                {
                    "op": st.just("bulk_delete"),
                    "cls": st.just(cls),
                    "filters": flt[cls],
                    "route": route,
                    "api": st.sampled_from(["stmt", "stmt", "query"]),
                }
            ),
        )

    kid = st.tuples(st.integers(1, 5), st.integers(0, 9)).map(list)
    pref = st.sampled_from(["any", "sticky"])
    lazy = st.one_of(
        st.fixed_dictionaries({"op": st.just("lazy_children"), "o": ref, "pref": pref}),
        st.fixed_dictionaries({"op": st.just("lazy_parent"), "o": ref, "pref": pref}),
    )
    add_parent = st.fixed_dictionaries(
        {"op": st.just("add_parent"), "id": st.integers(1, 4), "rk": st.sampled_from(KEYS), "val": st.integers(0, 9), "kids": st.lists(kid, max_size=2)}
    )
    add_child = st.fixed_dictionaries({"op": st.just("add_child"), "p": ref, "id": st.integers(1, 5), "val": st.integers(0, 9)})
    modify = st.fixed_dictionaries({"op": st.just("modify"), "cls": cls_s, "o": ref, "val": st.integers(0, 9)})
    orm_delete = st.fixed_dictionaries({"op": st.just("orm_delete"), "o": ref})
    get = st.fixed_dictionaries({"op": st.just("get"), "cls": cls_s, "id": st.integers(1, 5), "how": st.sampled_from(["plain", "plain", "token", "bind"]), "shard": sh})
    merge = st.fixed_dictionaries(
        {
            "op": st.just("merge"),
            "cls": st.sampled_from(["P", "P", "C"]),
            "o": ref,
            "how": st.sampled_from(["other_session", "expunge", "pickle"]),
            "dup": st.sampled_from([True, True, True, False]),
            "resident": st.sampled_from([True, False]),
            "modify": st.sampled_from([True, True, False]),
            "val": st.integers(0, 9),
            "commit": st.booleans(),
        }
    )
    mitem = st.fixed_dictionaries({"rk": st.sampled_from(KEYS), "id": st.integers(1, 4), "kid": st.integers(1, 5), "val": st.integers(0, 9)})
    add_multi = st.fixed_dictionaries({"op": st.just("add_multi"), "items": st.lists(mitem, min_size=2, max_size=4), "commit": st.booleans()})
    set_fav = st.fixed_dictionaries({"op": st.just("set_fav"), "targets": st.lists(st.tuples(ref, st.integers(0, 5)).map(list), min_size=2, max_size=3), "commit": st.booleans()})
    post_update = st.one_of(add_multi, add_multi, set_fav)
    write = st.one_of(add_parent, add_parent, add_child, modify, modify, orm_delete)
    op = st.one_of(
        add_parent,
        add_child,
        modify,
        orm_delete,
        st.just({"op": "commit"}),
        get,
        get,
        get,
        sel("P"),
        sel("C"),
        sel("P"),
        lazy,
        lazy,
        st.fixed_dictionaries({"op": st.sampled_from(["refresh", "expire_access"]), "cls": cls_s, "o": ref}),
        bulk("P"),
        bulk("C"),
        merge,
        post_update,
    )
    sticky_route = st.tuples(st.just("opt"), sh, st.just(True)).map(list)
    sticky_api = st.sampled_from(["select", "query"])
    d = {
        "sh": sh,
        "id_sub": st.one_of(full, subset, wide),
        "ex_sub": st.one_of(full, full, subset, wide, wide),
        "ref": ref,
        "cls": cls_s,
        "op": op,
        "lazy": lazy,
        "write": write,
        "merge": merge,
        "post_update": post_update,
        "few3": st.lists(op, min_size=0, max_size=3),
        "few4": st.lists(op, min_size=1, max_size=4),
        "sel_unrouted": st.one_of(sel("P", route=st.none()), sel("C", route=st.none())),
        "sel_sticky": {"P": sel("P", route=sticky_route, api=sticky_api), "C": sel("C", route=sticky_route, api=sticky_api)},
    }
    _STRATS[n] = d
    return d


@st.composite
def _programs(draw):
    n = draw(_NSH)
    S = _strats(n)
    table = {k: draw(S["sh"]) for k in KEYS}
    id_sub = draw(S["id_sub"])
    ex_sub = draw(S["ex_sub"])
    seed = []
    for _ in range(n):
        # compact draws: bit masks of present PKs, one packed integer per row
        pmask = draw(_PMASK)
        cmask = draw(_CMASK)
        parents = []
        for pid in range(1, 5):
            if pmask >> (pid - 1) & 1:
                v = draw(_PROW)
                parents.append([pid, v % 5, v // 5])
        children = []
        for cid in range(1, 6):
            if cmask >> (cid - 1) & 1:
                v = draw(_CROW)
                children.append([cid, v % 4 + 1, v // 4])
        seed.append({"parents": parents, "children": children})
    # every program contains one un-routed (chooser-routed) select, one unit-of-work
    # write and one lazy load; a third of them a set_shard_id(propagating) select followed by a lazy
    # load from one of the objects it produced
    ops = list(draw(S["few4"]))
    ops.append(draw(S["sel_unrouted"]))
    ops.append(draw(S["write"]))
    ops.extend(draw(S["few3"]))
    if draw(_THIRD) == 0:
        cls = draw(S["cls"])
        ops.append(draw(S["sel_sticky"][cls]))
        ops.append({"op": "lazy_children" if cls == "P" else "lazy_parent", "o": draw(S["ref"]), "pref": "sticky"})
    else:
        ops.append(draw(S["lazy"]))
    ops.extend(draw(S["few3"]))
    if draw(_THIRD) == 0:  # a third of the programs: one flush with post_update rows on several shards
        ops.insert(draw(st.integers(0, len(ops))), draw(S["post_update"]))
    if draw(_THIRD) == 0:  # a third of the programs: detach + merge across shards, at a drawn position after the first ops
        ops.insert(draw(st.integers(1, len(ops))), draw(S["merge"]))
    return {
        "n": n,
        "table": table,
        "id_sub": id_sub,
        "ex_sub": ex_sub,
        "ex_mode": draw(_EXMODE),
        "lazy_mode": draw(_LAZYMODE),
        "consistent": draw(_CONSISTENT),
        "eoc": draw(st.booleans()),
        "seed": seed,
        "ops": ops,
    }


def subs(tier):
    return [Generated("program", check_program, strategy=_programs(), quick=3200, thorough=40000, budget_s_quick=30.0)]
