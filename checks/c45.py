"""C45 - Session.merge copies state onto the session's single instance.

A source graph (transient with / without primary keys, or detached from another
session with partially expired attributes, unloaded relationships, pending
modifications, edited collections) is merged into a target session that is
empty, already holds some of the identities, or holds modified instances.

Oracle (doc/build/orm/session_state_management.rst "Merging" + Session.merge docstring)
  * the returned object is ``session.identity_map[key]`` (the instance that was
    already there if there was one), or a new pending object when the source has
    no primary key / no such row exists; never the source itself; the source is
    left unmodified and outside the session;
  * for every column attribute loaded on the source, target == source; for the
    others the target keeps what it had (its loaded or pending value, else the
    database value, else None);
  * relationships with the merge cascade that are loaded on the source are merged
    element by element (same rules, recursively); the others leave the target's
    relationship as it was;
  * merging the same source again returns the same objects and leaves nothing
    modified;
  * load=False: zero SQL during merge, result not dirty; a transient or dirty
    source raises InvalidRequestError;
  * after commit the rows equal the projection of the merged graph.
"""
from __future__ import annotations

import warnings

from hypothesis import strategies as st

from vf.api import Generated, Violation
from vf.sautil import Capture

from . import _orm_sess as F

PROPERTY = "C45"
LEVEL = "exploration"
RULE = (
    "database of 1-3 parents / 0-4 children / 0-2 tags; merge cascade on Parent.children and Parent.tags drawn on/off; source = transient Parent with PK "
    "(existing or new) or without PK carrying a drawn subset of attributes, optional children (with existing / new / no PK, optionally the same identity twice) and tags, "
    "or a Parent / Child detached from another session after drawn steps (load collections or not, expire some attributes, set some attributes, remove / append "
    "children); target session prepared by drawn steps (load identities, load collections, set attributes to other values); merge(load=True|False), then merged again. "
    "Non-trivial: the source is partially loaded (some column attribute or relationship absent from it) and the target session already holds at least one of its "
    "identities with a different value for an attribute the source carries (load=False: holds one of its identities at all), or the source has a scalar relationship (many-to-one "
    "Child.parent / one-to-one Parent.profile) loaded as None while the target session holds the identity with that relationship loaded non-None (row changed in between); "
    "distinct = canonical JSON of the case"
)
ASSUMPTIONS = [
    "'loaded on the source' is read from the source instance's __dict__ before the merge (input data, produced by ordinary loading / attribute assignment)",
    "attributes absent from the source leave the target's value untouched (Session.merge docstring / test suite); the prose in session_state_management.rst says such attributes are "
    "'expired ... which discards any locally present value' - the two only differ when the target has a pending or stale value; the docstring reading is used",
    "load=False is exercised on clean detached sources (targets absent, clean, stale, or holding un-flushed pending changes - the result must be clean and nothing is written), plus the "
    "documented error cases (transient source; dirty source whose identity is absent from the target session)",
    "foreign-key columns are never assigned directly on transient sources; detached sources carry the values they were loaded with",
    "idempotence is checked for graphs in which every object has a primary key (a PK-less source legitimately creates a new pending object per merge)",
    "the target session uses autoflush (merge(load=True) flushes the target's own pending changes first, as documented)",
    "trusted: raw sqlite3 observer connection",
]

NAMES = ["a", "b", "c", "d"]
PCOLS = ["name", "x", "y"]
CCOLS = ["name", "x"]
COLS = {"parent": PCOLS + ["owner_id"], "child": CCOLS + ["parent_id"], "tag": ["name"], "profile": ["x", "parent_id"]}
SCALARS = {"child": ("parent",), "parent": ("profile",)}  # scalar relationships that are walked (both keep the default merge cascade)


def _val(attr, v):
    return NAMES[v % 4] if attr == "name" else v


def _kind(o):
    return type(o).__name__.lower()


class _Case:
    def __init__(self, ctx, case):
        self.ctx = ctx
        self.case = case
        cfg = case["cfg"]
        self.fam = F.family(children="save-update, merge" if cfg["cc"] else "save-update", tags="save-update, merge" if cfg["tc"] else "save-update")
        self.merge_cascade = {("parent", "children"): cfg["cc"], ("parent", "tags"): cfg["tc"], ("child", "parent"): True}
        self.eng = F.new_db(ctx, self.fam)
        self.rc = F.raw(self.eng)
        n_p = len(case["parents"])
        self.n_p, self.n_c, self.n_t = n_p, len(case["children"]), case["n_t"]
        self.db = {
            "parent": {i + 1: {"name": NAMES[p[0] % 4], "x": p[1], "y": p[2], "owner_id": None} for i, p in enumerate(case["parents"])},
            "child": {i + 1: {"parent_id": None if c[0] is None else c[0] % n_p + 1, "name": NAMES[c[1] % 4], "x": c[2]} for i, c in enumerate(case["children"])},
            "tag": {i + 1: {"name": NAMES[i % 4]} for i in range(self.n_t)},
            "profile": {i + 1: {"parent_id": pid, "x": i} for i, pid in enumerate(dict.fromkeys(p % n_p + 1 for p in case.get("profiles", [])))},
        }
        self.links = {(l[0] % n_p + 1, l[1] % self.n_t + 1) for l in case["links"]} if self.n_t else set()
        F.raw_insert(self.rc, "parent", [dict(id=k, **v) for k, v in self.db["parent"].items()])
        F.raw_insert(self.rc, "child", [dict(id=k, **v) for k, v in self.db["child"].items()])
        F.raw_insert(self.rc, "tag", [dict(id=k, **v) for k, v in self.db["tag"].items()])
        F.raw_insert(self.rc, "profile", [dict(id=k, **v) for k, v in self.db["profile"].items()])
        F.raw_insert(self.rc, "parent_tag", [dict(parent_id=a, tag_id=b) for a, b in sorted(self.links)])
        self.sessions = []
        self.classes = set()
        self.src_dirty = False  # root (or an object that is merged regardless of the children cascade) has pending changes / is transient
        self.child_dirty = False  # only objects reached through Parent.children are dirty
        self.src_has_pkless = False
        self.src_partial = False
        self.stale = False  # the database was changed after the source was loaded so that a target loaded later sees another scalar value

    def close(self):
        for s in self.sessions:
            s.close()
        self.rc.close()
        F.drop_db(self.eng)

    # ------------------------------------------------------------ source construction
    def _pid(self, idx):
        """parent id for a source index: existing ids first, then fresh ones"""
        i = idx % (self.n_p + 1) + 1
        return i if i <= self.n_p else -1000 * i  # fresh explicit keys: negative and spaced, clear of the max(id)+1 that PK-less objects receive

    def _cid(self, idx):
        i = idx % (self.n_c + 2) + 1
        return i if i <= self.n_c else -1000 * i

    def _mk_child(self, spec):
        fam = self.fam
        kw = {}
        if spec["id"] is not None:
            kw["id"] = self._cid(spec["id"])
        else:
            self.src_has_pkless = True
        for ai, v in spec["attrs"]:
            a = CCOLS[ai % 2]
            kw[a] = _val(a, v)
        if len(kw) - ("id" in kw) < 2:
            self.src_partial = True
        return fam.Child(**kw)

    def build_source(self):
        from sqlalchemy.orm import Session

        fam = self.fam
        spec = self.case["source"]
        k = spec["kind"]
        self.classes.add("src-" + k)
        if k in ("tp", "tn"):
            kw = {}
            if k == "tp":
                kw["id"] = self._pid(spec["idx"])
            else:
                self.src_has_pkless = True
            for ai, v in spec["attrs"]:
                a = PCOLS[ai % 3]
                kw[a] = _val(a, v)
            if len(kw) - ("id" in kw) < 3:
                self.src_partial = True
            src = fam.Parent(**kw)
            cspecs = spec["children"]
            if spec.get("dup"):
                # the same identity twice in one collection: two distinct source objects with one primary key
                cspecs = list(cspecs or [{"id": spec["dup"], "attrs": []}])
                if cspecs[0]["id"] is None:
                    cspecs[0] = {"id": spec["dup"], "attrs": cspecs[0]["attrs"]}
            if cspecs is not None:
                kids = [self._mk_child(cs) for cs in cspecs]
                if spec.get("dup"):
                    kids.append(fam.Child(id=self._cid(cspecs[0]["id"]), x=spec["dup"] % 4 + 4))
                    self.classes.add("same-identity-twice")
                src.children = kids
            else:
                self.src_partial = True
            if spec["tags"] is not None and self.n_t:
                src.tags = [fam.Tag(id=t) for t in dict.fromkeys(t % self.n_t + 1 for t in spec["tags"])]
            else:
                self.src_partial = True
            self.src_dirty = True  # transient objects are never 'clean'
            return src
        # detached
        s0 = Session(self.eng, autoflush=False, expire_on_commit=False)
        self.sessions.append(s0)
        if k == "dp":
            src = s0.get(fam.Parent, spec["idx"] % self.n_p + 1)
            if spec["load_children"]:
                kids = list(src.children)
                if spec["load_child_parent"]:
                    for c in kids:
                        c.parent
                for ci, ai, v in spec["child_set"]:
                    if kids:
                        a = CCOLS[ai % 2]
                        setattr(kids[ci % len(kids)], a, _val(a, v))
                        self.child_dirty = True
                if spec["rm_child"] is not None and kids:
                    src.children.remove(kids[spec["rm_child"] % len(kids)])
                    self.src_dirty = True
                if spec["add_child"] is not None:
                    src.children.append(self._mk_child(spec["add_child"]))
                    self.src_dirty = True
            else:
                self.src_partial = True
            if spec["load_tags"]:
                src.tags
            else:
                self.src_partial = True
            if spec.get("load_profile"):
                src.profile  # one-to-one, possibly loaded as None
            else:
                self.src_partial = True
        else:  # "dc"
            if not self.n_c:
                src = s0.get(fam.Parent, 1)
                self.classes.add("dc-fallback-parent")
            else:
                src = s0.get(fam.Child, spec["idx"] % self.n_c + 1)
                if spec["load_child_parent"]:
                    src.parent
                else:
                    self.src_partial = True
        cols = PCOLS if _kind(src) == "parent" else CCOLS
        exp = [cols[i] for i in range(len(cols)) if spec["expire"] >> i & 1]
        if exp:
            s0.expire(src, exp)
            self.src_partial = True
        for ai, v in spec["set"]:
            a = cols[ai % len(cols)]
            setattr(src, a, _val(a, v))
            self.src_dirty = True
        s0.close()  # everything is detached now; pending attribute history stays on the objects
        if spec.get("stale") and not self.src_dirty and not self.child_dirty:
            # the row changes after the source was loaded: a target session that loads the identity now holds a non-None scalar
            # relationship where the (older, clean) source has it loaded as None
            if _kind(src) == "child" and src.__dict__.get("parent", 0) is None and "parent_id" in src.__dict__:
                pid = spec["idx"] % self.n_p + 1
                self.rc.execute("UPDATE child SET parent_id = ? WHERE id = ?", (pid, src.__dict__["id"]))
                self.db["child"][src.__dict__["id"]]["parent_id"] = pid
                self.stale = True
            elif _kind(src) == "parent" and src.__dict__.get("profile", 0) is None:
                new_id = len(self.db["profile"]) + 1
                self.rc.execute("INSERT INTO profile (id, parent_id, x) VALUES (?, ?, 9)", (new_id, src.__dict__["id"]))
                self.db["profile"][new_id] = {"parent_id": src.__dict__["id"], "x": 9}
                self.stale = True
        return src

    # ------------------------------------------------------------ target preparation
    def prepare_target(self, s1, skip):
        fam = self.fam
        self.t_set = {}  # (kind, id, attr) -> pending value set by the harness in the target session
        self.t_keep = []  # the application keeps what it loaded (the identity map only references weakly)
        _get = s1.get

        class _S:  # every object the preparation obtains is kept referenced
            @staticmethod
            def get(cls, ident, _keep=self.t_keep):
                o = _get(cls, ident)
                _keep.append(o)
                return o

        s1 = _S
        if skip:
            return
        spec = self.case["source"]
        root = None  # (kind, id) of the source root if that row exists
        if spec["kind"] == "tp" and self._pid(spec["idx"]) in self.db["parent"]:
            root = ("parent", self._pid(spec["idx"]))
        elif spec["kind"] == "dp" or (spec["kind"] == "dc" and not self.n_c):
            root = ("parent", spec["idx"] % self.n_p + 1 if spec["kind"] == "dp" else 1)
        elif spec["kind"] == "dc":
            root = ("child", spec["idx"] % self.n_c + 1)
        for op in self.case["target"]:
            k = op[0]
            if k in ("root", "rootset", "rootkid", "rootscalar"):
                if root is None:
                    continue
                o = s1.get(fam.classes[root[0]], root[1])
                self.classes.add("target-holds-identity")
                if k == "rootscalar":
                    v = getattr(o, SCALARS[root[0]][0])  # child.parent / parent.profile loaded in the target session
                    if v is not None:
                        self.t_keep.append(v)
                        self.classes.add("target-scalar-loaded-non-none")
                if k == "rootset":
                    cols = PCOLS if root[0] == "parent" else CCOLS
                    if spec["kind"] == "tp":
                        carried = [PCOLS[ai % 3] for ai, _v in spec["attrs"]]
                    else:
                        carried = [c for i, c in enumerate(cols) if not spec["expire"] >> i & 1]
                    a = (carried or cols)[op[1] % len(carried or cols)]  # prefer an attribute the source carries
                    v = op[2] + 4 if a != "name" else NAMES[(NAMES.index(self.db[root[0]][root[1]]["name"]) + 1 + op[2] % 3) % 4]
                    setattr(o, a, v)
                    self.t_set[(root[0], root[1], a)] = v
                    self.classes.add("target-modified")
                elif k == "rootkid" and root[0] == "parent":
                    kids = list(o.children)
                    self.t_keep.extend(kids)
                    self.classes.add("target-collection-loaded")
                    if kids:
                        c = kids[op[1] % len(kids)]
                        a = CCOLS[op[2] % 2]
                        v = op[2] + 4 if a != "name" else NAMES[(NAMES.index(self.db["child"][c.id]["name"]) + 1) % 4]
                        setattr(c, a, v)
                        self.t_set[("child", c.id, a)] = v
                        self.classes.add("target-modified")
            elif k == "load":
                kind = ["parent", "child"][op[1] % 2]
                n = self.n_p if kind == "parent" else self.n_c
                if n:
                    s1.get(fam.classes[kind], op[2] % n + 1)
                    self.classes.add("target-holds-identity")
            elif k == "coll":
                p = s1.get(fam.Parent, op[1] % self.n_p + 1)
                p.children if op[2] % 2 == 0 else p.tags
                self.classes.add("target-collection-loaded")
            elif k == "set":
                kind = ["parent", "child"][op[1] % 2]
                n = self.n_p if kind == "parent" else self.n_c
                if n:
                    cols = PCOLS if kind == "parent" else CCOLS
                    a = cols[op[3] % len(cols)]
                    ident = op[2] % n + 1
                    o = s1.get(fam.classes[kind], ident)
                    v = _val(a, op[4] + 4) if a != "name" else NAMES[(op[4] + 1) % 4]
                    setattr(o, a, v)
                    self.t_set[(kind, ident, a)] = v
                    self.classes.add("target-modified")

    # ------------------------------------------------------------ snapshots
    def snapshot_session(self, s1):
        """loaded column values / loaded relationship id lists of everything in the target session (no SQL)"""
        out = {}
        self._keepalive = list(s1.identity_map.values())
        for o in self._keepalive:
            kind = _kind(o)
            if kind not in COLS:
                continue
            d = {a: o.__dict__[a] for a in COLS[kind] if a in o.__dict__}
            for rel in ("children", "tags"):
                if rel in o.__dict__:
                    d[rel] = [x.__dict__.get("id") for x in o.__dict__[rel]]
            out[(kind, o.__dict__["id"])] = d
        return out

    def prior_value(self, kind, ident, attr):
        d = self.prior_loaded.get((kind, ident))
        if d is not None and attr in d:
            return d[attr]
        row = self.prior_db[kind].get(ident)
        return None if row is None else row.get(attr)

    def prior_rel_ids(self, ident, rel):
        d = self.prior_loaded.get(("parent", ident))
        if d is not None and rel in d:
            return list(d[rel])
        if rel == "children":
            return sorted(k for k, r in self.prior_db["child"].items() if r["parent_id"] == ident)
        return sorted(t for (p, t) in self.prior_links if p == ident)


def _walk_source(root):
    """[(obj, {loaded col attrs}, {rel: [objs] | obj | None})] reachable through loaded relationships; pure __dict__ reads"""
    seen, out, stack = set(), [], [root]
    while stack:
        o = stack.pop()
        if id(o) in seen:
            continue
        seen.add(id(o))
        kind = _kind(o)
        cols = {a: o.__dict__[a] for a in ["id"] + COLS.get(kind, []) if a in o.__dict__}
        rels = {}
        for rel in {"parent": ("children", "tags", "profile"), "child": ("parent",)}.get(kind, ()):
            if rel in o.__dict__:
                v = o.__dict__[rel]
                rels[rel] = list(v) if isinstance(v, list) else v
                stack.extend(v if isinstance(v, list) else ([v] if v is not None else []))
        out.append((o, cols, rels))
    return out


def check(case, ctx):
    from sqlalchemy.exc import InvalidRequestError
    from sqlalchemy.orm import Session
    from sqlalchemy.orm.util import identity_key

    k = _Case(ctx, case)
    noted = [False]

    def note(nontrivial):
        if not noted[0]:
            noted[0] = True
            ctx.note(case, nontrivial, classes=k.classes)

    def fail(sig, msg, observed=None, expected=None):
        note(True)
        raise Violation(sig, msg, observed=observed, expected=expected)

    try:
        with warnings.catch_warnings():
            warnings.simplefilter("ignore")
            fam = k.fam
            load = bool(case["load"])
            src = k.build_source()
            src_graph = _walk_source(src)
            src_before = [(o, dict(cols), {r: (list(v) if isinstance(v, list) else v) for r, v in rels.items()}) for o, cols, rels in src_graph]
            graph_dirty = k.src_dirty or (k.child_dirty and case["cfg"]["cc"])
            # load=True: autoflush on (merge flushes the target's pending changes first); load=False: autoflush off, so that pending
            # changes of the target are still pending when the clean copy is stamped over them
            s1 = Session(k.eng, autoflush=load, expire_on_commit=False)
            k.sessions.append(s1)
            # load=False with a dirty graph: only the documented error case (identities absent from the target session) is generated
            k.prepare_target(s1, skip=(not load and graph_dirty))
            k.classes.add("load" if load else "noload")

            # ---- what was there before
            k.prior_loaded = k.snapshot_session(s1)
            k.prior_db = {t: {i: dict(r) for i, r in rows.items()} for t, rows in k.db.items()}
            if load:
                for (kind, ident, a), v in k.t_set.items():
                    k.prior_db[kind][ident][a] = v  # merge(load=True) autoflushes the target's own pending changes first
            k.prior_links = set(k.links)
            prior_instances = {(_kind(o), o.__dict__["id"]): o for o in k._keepalive}

            # non-trivial: partially loaded source + an identity already held with a different value for a carried attribute
            differs = False
            for o, cols, rels in src_graph:
                ident = cols.get("id")
                held = k.prior_loaded.get((_kind(o), ident))
                if held:
                    for a, v in cols.items():
                        if a != "id" and a in held and held[a] != v:
                            differs = True
            nontrivial_scalar = False
            held_any = any(k.prior_loaded.get((_kind(o), cols.get("id"))) is not None for o, cols, rels in src_graph)
            nontrivial = k.src_partial and (differs or (not load and held_any and not graph_dirty))
            root_kind = _kind(src)
            for rel in SCALARS.get(root_kind, ()):
                if rel in src.__dict__ and src.__dict__[rel] is None and not (not load and graph_dirty):
                    lab = ("noload" if not load else "load") + "-scalar-none"
                    k.classes.add(lab)
                    held_root = prior_instances.get((root_kind, src.__dict__.get("id")))
                    if held_root is None:
                        k.classes.add(lab + "/target-absent")
                    elif held_root.__dict__.get(rel) is not None:
                        k.classes.add(lab + "/target-holds-non-none")
                        nontrivial_scalar = True
                    else:
                        k.classes.add(lab + "/target-holds-none-or-unloaded")
            nontrivial = nontrivial or nontrivial_scalar
            if differs:
                k.classes.add("target-differs")
            if k.src_partial:
                k.classes.add("source-partial")

            # ---- merge
            cap = Capture(k.eng)
            n_events = [0]
            listeners = []
            if not load:
                # "forego emitting history events": count attribute set events on the target classes while merging
                from sqlalchemy import event

                def _on_set(target, value, oldvalue, initiator):
                    n_events[0] += 1

                for cls, cols in ((fam.Parent, PCOLS), (fam.Child, CCOLS)):
                    for a in cols:
                        event.listen(getattr(cls, a), "set", _on_set)
                        listeners.append((getattr(cls, a), "set", _on_set))
            try:
                try:
                    merged = s1.merge(src, load=load)
                    err = None
                except InvalidRequestError as e:
                    merged, err = None, str(e)
            finally:
                for args in listeners:
                    event.remove(*args)
            n_sql = len(cap.rows)
            cap.close()

            if not load and graph_dirty:
                k.classes.add("noload-must-raise")
                note(nontrivial)
                if err is None or "load=False" not in err:
                    fail("C45/load=False/dirty-or-transient-source-accepted", f"merge(load=False) of a {'transient' if case['source']['kind'] in ('tp', 'tn') else 'dirty detached'} source did not raise: {err}",
                         observed=err, expected="InvalidRequestError (load=False does not support transient / dirty objects)")
                return
            if err is not None:
                fail("C45/merge/unexpected-error", f"merge raised InvalidRequestError: {err}", observed=err)
            if not load:
                if n_sql:
                    fail("C45/load=False/sql-emitted", f"merge(load=False) emitted {n_sql} statement(s)", observed=n_sql, expected=0)
                if n_events[0]:
                    fail("C45/load=False/attribute-events-emitted", f"merge(load=False) fired {n_events[0]} attribute set event(s)", observed=n_events[0], expected=0)
                if merged in s1.dirty or s1.is_modified(merged):
                    fail("C45/load=False/result-flagged-modified", "merge(load=False) result is in session.dirty / is_modified")
                if k.t_set:
                    k.classes.add("noload-over-pending-target")

            # ---- source untouched and outside the session
            for (o, cols0, rels0), (o2, cols1, rels1) in zip(src_before, _walk_source(src)):
                if o is not o2 or cols0 != cols1 or {r: ([id(x) for x in v] if isinstance(v, list) else id(v)) for r, v in rels0.items()} != {r: ([id(x) for x in v] if isinstance(v, list) else id(v)) for r, v in rels1.items()}:
                    fail("C45/source-modified", f"merge changed the source graph: {cols0} -> {cols1}", observed=cols1, expected=cols0)
                if o in s1:
                    fail("C45/source-attached", f"source {o!r} became part of the target session")

            # ---- walk source and target in parallel
            pairs = []  # (source obj, target obj)
            memo = {}
            by_ident = {}
            exp_rows = {"parent": {}, "child": {}, "tag": {}, "profile": {}}
            exp_scalar = {}  # (id(target), relname) -> (target, relname, merged value | None)  # (kind) -> target obj id() -> expected column values
            exp_children = {}  # id(target parent) -> [target children]
            exp_tags = {}
            exp_child_parent = {}  # id(target child) -> target parent | None

            def pair(s_obj, t_obj, path):
                if id(s_obj) in memo:
                    if memo[id(s_obj)] is not t_obj:
                        fail("C45/identity/one-source-two-targets", f"{path}: the same source object was merged onto two different instances")
                    return
                memo[id(s_obj)] = t_obj
                kind = _kind(s_obj)
                if t_obj is None or _kind(t_obj) != kind:
                    fail("C45/identity/missing-target", f"{path}: no merged counterpart for {s_obj!r}: {t_obj!r}")
                if t_obj is s_obj:
                    fail("C45/identity/source-returned", f"{path}: merge returned the source object itself")
                if t_obj not in s1:
                    fail("C45/identity/target-not-in-session", f"{path}: merged {t_obj!r} is not in the target session")
                sid = s_obj.__dict__.get("id")
                if sid is not None:
                    other = by_ident.setdefault((kind, sid), t_obj)
                    if other is not t_obj:
                        fail("C45/identity/one-key-two-targets", f"{path}: two source objects with key {kind}#{sid} were merged onto two different instances")
                    was = prior_instances.get((kind, sid))
                    if was is not None and was is not t_obj:
                        fail("C45/identity/second-instance", f"{path}: the session already held {kind}#{sid} but merge produced another instance")
                    if sid in k.prior_db[kind] or was is not None:
                        im = s1.identity_map.get(identity_key(type(t_obj), sid))
                        if im is not t_obj:
                            fail("C45/identity/not-the-identity-map-instance", f"{path}: merged {kind}#{sid} is not session.identity_map[key] ({im!r})")
                pairs.append((s_obj, t_obj, path))
                # columns are judged after the walk (several source objects may share one target)
                exp_rows[kind].setdefault(id(t_obj), {})
                # relationships
                if kind == "parent":
                    for rel in ("children", "tags"):
                        cascaded = k.merge_cascade[("parent", rel)] and rel in s_obj.__dict__
                        if cascaded:
                            s_list = list(s_obj.__dict__[rel])
                            t_list = list(getattr(t_obj, rel))
                            if len(s_list) != len(t_list):
                                fail(f"C45/relationship/{rel}/length", f"{path}.{rel}: source has {len(s_list)} element(s), merged target {len(t_list)}: {t_list}", observed=len(t_list), expected=len(s_list))
                            for i, (sc, tc) in enumerate(zip(s_list, t_list)):
                                scid = sc.__dict__.get("id")
                                if scid is not None and tc.__dict__.get("id") != scid:
                                    fail(f"C45/relationship/{rel}/element-identity", f"{path}.{rel}[{i}]: source element id {scid}, target element {tc!r}")
                                pair(sc, tc, f"{path}.{rel}[{i}]")
                            (exp_children if rel == "children" else exp_tags)[id(t_obj)] = (t_obj, t_list)
                        elif sid is not None and t_obj is merged and _kind(src) == "parent":
                            # not cascaded / not loaded on the source: the root's relationship stays what it was
                            want_ids = k.prior_rel_ids(sid, rel)
                            got_ids = sorted(x.id for x in getattr(t_obj, rel))
                            if got_ids != sorted(want_ids):
                                fail(f"C45/relationship/{rel}/untouched-expected", f"{path}.{rel}: {'merge cascade is off' if rel in s_obj.__dict__ else 'not loaded on the source'}, "
                                     f"target has ids {got_ids}, before the merge {sorted(want_ids)}", observed=got_ids, expected=sorted(want_ids))
                for rel in SCALARS.get(kind, ()):
                    if rel not in s_obj.__dict__:
                        continue
                    sp = s_obj.__dict__[rel]
                    # a scalar relationship loaded on the source (None included) is copied: the target carries the key as loaded,
                    # so reading it needs no SQL, and it has the merged counterpart / None as value
                    # (with load=True an element reached through the reverse collection skips its back-reference by design: root only)
                    if rel not in t_obj.__dict__ and (not load or t_obj is merged):
                        fail(f"C45/relationship/{rel}/loaded-on-source-not-loaded-on-target",
                             f"{path}.{rel}: the source has it loaded ({sp!r}) but the merged {kind}#{sid} does not (load={load}); a read would lazy load instead of showing the merged state")
                    tp = getattr(t_obj, rel)
                    if sp is None:
                        if tp is not None:
                            fail(f"C45/relationship/{rel}/none-expected", f"{path}.{rel}: the source has None loaded, the merged target has {tp!r} (load={load}, target held before: {prior_instances.get((kind, sid)) is not None})")
                    else:
                        pair(sp, tp, f"{path}.{rel}")
                    exp_scalar[(id(t_obj), rel)] = (t_obj, rel, tp)
                    if rel == "parent":
                        exp_child_parent[id(t_obj)] = (t_obj, tp)

            pair(src, merged, "root")
            note(nontrivial)

            if not load:
                # "The resulting objects from load=False are always produced as clean": also when the target (or a cascaded element)
                # had an un-flushed change before; nothing of it may be left in session.dirty, and a flush writes nothing
                merged_ids = {(_kind(t), t.__dict__.get("id")) for _s, t, _p in pairs}
                for _s, t_obj, path in pairs:
                    if t_obj in s1.dirty or s1.is_modified(t_obj):
                        fail("C45/load=False/merged-instance-left-dirty", f"{path}: after merge(load=False) {t_obj!r} is in session.dirty={t_obj in s1.dirty} / is_modified={s1.is_modified(t_obj)} "
                             f"(it had pending changes before: {any((kk, ii) == (_kind(t_obj), t_obj.__dict__.get('id')) for kk, ii, _a in k.t_set)})")
                other_pending = any((kk, ii) not in merged_ids for kk, ii, _a in k.t_set) or bool(s1.new) or bool(s1.deleted)
                if not other_pending:
                    if len(s1.dirty) or not s1._is_clean():
                        fail("C45/load=False/session-not-clean", f"after merge(load=False) with nothing else pending: session.dirty={list(s1.dirty)}, _is_clean()={s1._is_clean()}")
                    cap2 = Capture(k.eng)
                    s1.flush()
                    n2 = len(cap2.rows)
                    cap2.close()
                    if n2 or len(s1.dirty) or not s1._is_clean():
                        fail("C45/load=False/flush-after-merge-not-a-noop", f"flush after merge(load=False) emitted {n2} statement(s); session.dirty={list(s1.dirty)}, _is_clean()={s1._is_clean()}")

            # ---- column attributes: per target, the last source object (in merge order) that carries the attribute wins;
            # attributes no source carries keep what the target had
            for s_obj, t_obj, path in pairs:
                kind = _kind(s_obj)
                sid = s_obj.__dict__.get("id")
                exp = exp_rows[kind][id(t_obj)]
                for a in COLS[kind]:
                    if a in s_obj.__dict__:
                        exp[a] = (s_obj.__dict__[a], "loaded on source", path, True)
                    elif a not in exp:
                        exp[a] = (k.prior_value(kind, sid, a) if sid is not None else None, "absent from source: target keeps its own value", path, False)
            for s_obj, t_obj, path in pairs:
                kind = _kind(s_obj)
                exp = exp_rows[kind][id(t_obj)]
                for a in COLS[kind]:
                    want, why, wpath, carried = exp[a]
                    if a in ("parent_id", "owner_id"):
                        continue  # foreign keys follow the relationships once anything autoflushes; judged on the committed rows
                    got = getattr(t_obj, a)
                    if got != want:
                        fail(f"C45/attribute/{'copied' if carried else 'unloaded-on-source'}/{kind}.{a if a in ('parent_id', 'owner_id') else 'col'}",
                             f"{wpath}: {kind}#{t_obj.__dict__.get('id')}.{a} is {got!r}, expected {want!r} ({why}); source carries {sorted(x for x in s_obj.__dict__ if not x.startswith('_'))}",
                             observed=got, expected=want)
            for kind in exp_rows:
                for key in exp_rows[kind]:
                    exp_rows[kind][key] = {a: v[0] for a, v in exp_rows[kind][key].items()}

            all_pk = not k.src_has_pkless
            # ---- second merge: same objects, nothing modified
            if all_pk:
                k.classes.add("second-merge")
                merged2 = s1.merge(src, load=load)
                if merged2 is not merged:
                    fail("C45/idempotence/different-instance", "second merge of the same source returned another instance")
                for s_obj, t_obj, path in pairs:
                    kind = _kind(s_obj)
                    for a, want in exp_rows[kind][id(t_obj)].items():
                        if a in ("parent_id", "owner_id"):
                            continue  # foreign keys are synchronised from the relationships by the intervening autoflush
                        if getattr(t_obj, a) != want:
                            fail("C45/idempotence/value-changed", f"{path}: {kind}.{a} changed to {getattr(t_obj, a)!r} by the second merge (was {want!r})")
                for coll_exp, rel in ((exp_children, "children"), (exp_tags, "tags")):
                    for t_obj, t_list in coll_exp.values():
                        now = list(getattr(t_obj, rel))
                        if [id(x) for x in now] != [id(x) for x in t_list]:
                            fail(f"C45/idempotence/{rel}-changed", f"{rel} of {t_obj!r} changed by the second merge: {t_list} -> {now}")
                for t_obj, rel, tp in exp_scalar.values():
                    if rel not in t_obj.__dict__ or getattr(t_obj, rel) is not tp:
                        fail(f"C45/idempotence/{rel}-changed", f"{rel} of {t_obj!r} changed by the second merge: {tp!r} -> {t_obj.__dict__.get(rel, '<unloaded>')!r}")
                if load:
                    # the second merge autoflushed what the first one changed and must not have changed anything itself
                    mod = [repr(t) for _s, t, _p in pairs if s1.is_modified(t)]
                    if mod or s1.new:
                        fail("C45/idempotence/second-merge-flags-changes", f"after merging the same state twice these are still modified: {mod}, new: {list(s1.new)}")

            # ---- commit and compare rows
            s1.commit()
            exp_db = {t: {i: dict(r) for i, r in rows.items()} for t, rows in k.prior_db.items()}
            if not load:
                # pending changes of instances that were merged over are discarded; those of other instances are flushed by the commit
                merged_ids = {(_kind(t), t.__dict__.get("id")) for _s, t, _p in pairs}
                for (kind, ident, a), v in k.t_set.items():
                    if (kind, ident) not in merged_ids:
                        exp_db[kind][ident][a] = v
            exp_links = set(k.prior_links)
            for kind in ("parent", "child", "tag", "profile") if load else ():
                for s_obj, t_obj, path in pairs:
                    if _kind(s_obj) != kind:
                        continue
                    tid = t_obj.id
                    if tid is None:
                        fail("C45/flush/no-primary-key", f"{path}: merged object has no primary key after commit")
                    row = exp_db[kind].setdefault(tid, {a: None for a in COLS[kind]})
                    row.update(exp_rows[kind][id(t_obj)])
            if not load:
                # load=False stamps state without history: nothing is written, whatever the (possibly older) source says
                exp_children, exp_tags, exp_child_parent, exp_scalar = {}, {}, {}, {}
            for t_obj, rel, tp in exp_scalar.values():
                if rel == "profile":
                    for prid, row in exp_db["profile"].items():
                        if tp is not None and prid == tp.id:
                            row["parent_id"] = t_obj.id
                        elif k.prior_db["profile"].get(prid, {}).get("parent_id") == t_obj.id:
                            row["parent_id"] = None
            for t_obj, t_list in exp_children.values():
                pid = t_obj.id
                new_ids = {c.id for c in t_list}
                for cid, row in exp_db["child"].items():
                    if cid in new_ids:
                        row["parent_id"] = pid
                    elif k.prior_db["child"].get(cid, {}).get("parent_id") == pid and cid not in new_ids:
                        row["parent_id"] = None
            for t_obj, tp in exp_child_parent.values():
                in_merged_collection = any(t_obj in lst for _p, lst in exp_children.values())
                if not in_merged_collection:
                    exp_db["child"][t_obj.id]["parent_id"] = None if tp is None else tp.id
            for t_obj, t_list in exp_tags.values():
                exp_links = {l for l in exp_links if l[0] != t_obj.id} | {(t_obj.id, t.id) for t in t_list}
            snap = F.raw_snapshot(k.rc)
            got_db = {
                "parent": {r[0]: {"name": r[1], "x": r[2], "y": r[3], "owner_id": r[4]} for r in snap["parent"]},
                "child": {r[0]: {"parent_id": r[1], "name": r[2], "x": r[3]} for r in snap["child"]},
                "tag": {r[0]: {"name": r[1]} for r in snap["tag"]},
                "profile": {r[0]: {"parent_id": r[1], "x": r[2]} for r in snap["profile"]},
            }
            for t in ("parent", "child", "tag", "profile"):
                if got_db[t] != exp_db[t]:
                    bad = sorted(i for i in set(got_db[t]) | set(exp_db[t]) if got_db[t].get(i) != exp_db[t].get(i))
                    fail(f"C45/db-after-commit/{t}", f"{t} rows differ for ids {bad}: got {[got_db[t].get(i) for i in bad]}, expected {[exp_db[t].get(i) for i in bad]}",
                         observed={i: got_db[t].get(i) for i in bad}, expected={i: exp_db[t].get(i) for i in bad})
            got_links = {tuple(r) for r in snap["parent_tag"]}
            if got_links != exp_links:
                fail("C45/db-after-commit/parent_tag", f"links {sorted(got_links)} expected {sorted(exp_links)}", observed=sorted(got_links), expected=sorted(exp_links))
            # after the flush every merged object with a key is the identity map's instance
            for s_obj, t_obj, path in pairs:
                if s1.identity_map.get(identity_key(type(t_obj), t_obj.id)) is not t_obj:
                    fail("C45/identity/not-the-identity-map-instance", f"{path}: after commit the merged object is not session.identity_map[key]")
    finally:
        k._keepalive = None
        k.t_keep = None
        k.close()


_v = st.integers(0, 3)
_opt = lambda n: st.one_of(st.none(), st.integers(0, n))  # noqa: E731
_attrs = lambda n: st.lists(st.tuples(st.integers(0, n - 1), _v), max_size=n, unique_by=lambda t: t[0]).map(lambda l: [list(t) for t in l])  # noqa: E731


@st.composite
def _child_spec(draw):
    return {"id": draw(_opt(5)), "attrs": draw(_attrs(2))}


@st.composite
def _cases(draw):
    n_p = draw(st.integers(1, 3))
    case = {
        "cfg": {"cc": draw(st.sampled_from([True, True, True, False])), "tc": draw(st.sampled_from([True, True, False]))},
        "parents": [[draw(_v), draw(_v), draw(_v)] for _ in range(n_p)],
        "children": [[draw(_opt(2)), draw(_v), draw(_v)] for _ in range(draw(st.integers(0, 4)))],
        "n_t": draw(st.integers(0, 2)),
        "links": [[draw(st.integers(0, 2)), draw(st.integers(0, 1))] for _ in range(draw(st.integers(0, 2)))],
        "load": draw(st.sampled_from([1, 1, 1, 0])),
    }
    kind = draw(st.sampled_from(["tp", "tp", "tp", "tn", "dp", "dp", "dp", "dp", "dc"]))
    if not case["load"]:
        kind = draw(st.sampled_from(["dp", "dp", "dp", "dc", "tp"]))
    spec = {"kind": kind, "idx": draw(st.integers(0, 3))}
    if kind in ("tp", "tn"):
        spec["attrs"] = draw(_attrs(3).filter(lambda l: len(l) >= 1)) if draw(st.integers(0, 3)) else []
        spec["children"] = draw(st.one_of(st.none(), st.lists(_child_spec(), max_size=3)))
        spec["tags"] = draw(st.one_of(st.none(), st.lists(st.integers(0, 1), max_size=2)))
        spec["dup"] = draw(st.sampled_from([0, 0, 1, 2]))
    else:
        clean = not case["load"] and draw(st.integers(0, 3)) > 0
        spec["load_children"] = draw(st.booleans())
        spec["load_tags"] = draw(st.booleans())
        spec["load_child_parent"] = draw(st.booleans())
        spec["expire"] = draw(st.integers(0, 7))
        spec["set"] = [] if clean else draw(_attrs(3))
        spec["child_set"] = [] if clean else draw(st.lists(st.tuples(st.integers(0, 3), st.integers(0, 1), _v).map(list), max_size=2))
        spec["rm_child"] = None if clean else draw(_opt(3))
        spec["add_child"] = None if clean else draw(st.one_of(st.none(), _child_spec()))
        spec["load_profile"] = draw(st.booleans())
        spec["stale"] = draw(st.booleans())
    case["profiles"] = draw(st.lists(st.integers(0, 2), max_size=2))
    focus = draw(st.sampled_from([False, False, False, True, False, False]))
    if focus:
        # scalar relationship loaded as None on a clean detached source; target absent / holding it non-None (stale) / holding it None
        case["load"] = draw(st.sampled_from([0, 0, 1]))
        kind = draw(st.sampled_from(["dc", "dp"]))
        spec = {"kind": kind, "idx": 0, "load_children": draw(st.booleans()), "load_tags": draw(st.booleans()), "load_child_parent": True, "load_profile": True,
                "expire": draw(st.sampled_from([0, 0, 1, 2])), "set": [], "child_set": [], "rm_child": None, "add_child": None, "stale": draw(st.sampled_from([True, True, False]))}
        if kind == "dc":
            if not case["children"]:
                case["children"] = [[None, 0, 0]]
            case["children"][0][0] = None
        else:
            case["profiles"] = [p for p in case["profiles"] if p % n_p != 0]
    case["source"] = spec
    tops = []
    fmode = draw(st.sampled_from(["scalar", "absent", "scalar", "other", "absent", "scalar"])) if focus else None
    if fmode == "scalar":
        tops.append(["rootscalar", 0, 0])
    if fmode == "absent":
        case["target"] = tops
        return case
    if draw(st.integers(0, 7)):
        # most cases: the target session already holds the root identity with a pending change (and often its children)
        tops.append(["rootset", draw(st.integers(0, 2)), draw(_v)])
        if draw(st.booleans()):
            tops.append(["rootkid", draw(st.integers(0, 2)), draw(_v)])
    for _ in range(draw(st.integers(0, 4))):
        t = draw(st.sampled_from(["load", "coll", "set", "root", "rootset", "rootset", "rootset", "rootkid", "rootkid", "rootscalar"]))
        if t in ("root", "rootset", "rootkid", "rootscalar"):
            tops.append([t, draw(st.integers(0, 2)), draw(_v)])
        elif t == "load":
            tops.append(["load", draw(st.integers(0, 1)), draw(st.integers(0, 4))])
        elif t == "coll":
            tops.append(["coll", draw(st.integers(0, 2)), draw(st.integers(0, 1))])
        else:
            tops.append(["set", draw(st.integers(0, 1)), draw(st.integers(0, 4)), draw(st.integers(0, 2)), draw(_v)])
    case["target"] = tops
    return case


def subs(tier):
    return [Generated("merge", check, strategy=_cases(), quick=1500, thorough=40000)]
