"""Shared fault-injection helpers for C24 / C26 / C27 (owned by the author of those checks).

Built on vf.fakedb.FakeDB (not modified):

* ``VClock`` + ``pool_clock(clock)``  - virtual, strictly increasing clock patched over the
  ``time`` name of ``sqlalchemy.pool.base`` (pool_recycle / invalidate-time comparisons)
* ``arm(db, plan)``                   - install a fault plan relative to the current call counters
* ``PoolEvents``                      - checkout / reset listeners that raise per plan
  (sites ``ev_checkout``: "disconnect" -> DisconnectionError, "disconnect_pool" ->
  InvalidatePoolError, "error" -> DBAPI OperationalError; ``ev_reset``: "error")
* ledger helpers: ``open_ids``, ``classify_error``, ``Bans``
"""
from __future__ import annotations

import contextlib
import logging
from collections import Counter

from vf import fakedb
from vf.api import Violation


# the pool logs swallowed reset/close errors at ERROR level; without a handler
# python's lastResort handler would spray them on stderr
logging.getLogger("sqlalchemy").addHandler(logging.NullHandler())


# ------------------------------------------------------------------ virtual clock
class VClock:
    """stands in for the ``time`` module inside sqlalchemy.pool.base"""

    TICK = 1e-6

    def __init__(self, start=1000.0):
        self.now = float(start)

    def time(self):
        self.now += self.TICK
        return self.now

    def advance(self, dt):
        self.now += dt


@contextlib.contextmanager
def pool_clock(clock):
    import sqlalchemy.pool.base as pb

    old = pb.time
    pb.time = clock
    try:
        yield clock
    finally:
        pb.time = old


class InjectedBaseException(BaseException):
    """KeyboardInterrupt / CancelledError style fault: not an Exception, so Pool._close_connection re-raises it"""


class _BaseFaultConn(fakedb.FakeConnection):
    """FakeConnection that also understands the plan kind "base" (raise a BaseException subclass at that call)"""

    def _call(self, site, detail=None):
        db = self.db
        k = db.counts[site]
        if db.plan.get((site, k)) == "base" and not (self.closed and site != "close") and not (self.dead and site != "close"):
            db.log.append((self.id, site, detail))
            db.counts[site] += 1
            db.injected.append((self.id, site, k, "base"))
            raise InjectedBaseException(f"injected base at {site}#{k} on connection {self.id}")
        return super()._call(site, detail)


class ClockedDB(fakedb.FakeDB):
    """FakeDB whose ledger time (FakeConnection.opened_at) is the virtual clock; connections understand kind "base" """

    def __init__(self, vclock):
        self._vclock = vclock
        super().__init__()

    clock = property(lambda self: self._vclock.now, lambda self, v: None)

    def connect(self):
        n = len(self.conns)
        c = super().connect()  # faults at the connect site are handled there
        if len(self.conns) == n + 1 and self.conns[-1] is c and type(c) is fakedb.FakeConnection:
            c.__class__ = _BaseFaultConn
        return c


# ------------------------------------------------------------------ fault plans
DBAPI_SITES = ("connect", "cursor", "execute", "commit", "rollback", "close", "ping")
EVENT_SITES = ("ev_checkout", "ev_reset", "ev_close", "ev_close_detached", "ev_checkin")


def arm(db, plan, events=None):
    """plan: iterable of [site, k, kind]; k counts from *now* (calls made
    before arming, e.g. a warm-up checkout, are not addressable)"""
    db.plan = {}
    ev_plan = {}
    for site, k, kind in plan:
        if site in EVENT_SITES:
            if events is not None:
                ev_plan[(site, k + events.counts[site])] = kind
        else:
            db.plan[(site, k + db.counts[site])] = kind
    if events is not None:
        events.plan = ev_plan


def disarm(db, events=None):
    db.plan = {}
    if events is not None:
        events.plan = {}


class PoolEvents:
    """pool-level listeners that raise per plan; attached to the Engine so they
    follow Engine.dispose() -> pool.recreate()"""

    def __init__(self, engine, db, more=False):
        from sqlalchemy import event

        self.db = db
        self.plan = {}
        self.counts = Counter()
        event.listen(engine, "checkout", self._checkout)
        event.listen(engine, "reset", self._reset)
        if more:
            event.listen(engine, "close", self._mk("ev_close"))
            event.listen(engine, "close_detached", self._mk("ev_close_detached"))
            event.listen(engine, "checkin", self._mk("ev_checkin"))

    def _mk(self, site):
        def listener(dbapi_connection, *rest):
            kind, k, cid = self._fire(site, dbapi_connection)
            if kind:
                raise fakedb.OperationalError(f"injected error at {site}#{k} on connection {cid}")

        return listener

    def _fire(self, site, dbapi_connection):
        k = self.counts[site]
        self.counts[site] += 1
        cid = getattr(dbapi_connection, "id", None)
        self.db.log.append((cid, site, k))
        kind = self.plan.get((site, k))
        if kind:
            self.db.injected.append((cid, site, k, kind))
        return kind, k, cid

    def _checkout(self, dbapi_connection, record, proxy):
        from sqlalchemy import exc

        kind, k, cid = self._fire("ev_checkout", dbapi_connection)
        if kind == "disconnect":
            raise exc.DisconnectionError(f"injected DisconnectionError at ev_checkout#{k} on connection {cid}")
        if kind == "disconnect_pool":
            raise exc.InvalidatePoolError(f"injected InvalidatePoolError at ev_checkout#{k} on connection {cid}")
        if kind == "error":
            raise fakedb.OperationalError(f"injected error at ev_checkout#{k} on connection {cid}")

    def _reset(self, dbapi_connection, record, reset_state):
        kind, k, cid = self._fire("ev_reset", dbapi_connection)
        if kind:
            raise fakedb.OperationalError(f"injected error at ev_reset#{k} on connection {cid}")


# ------------------------------------------------------------------ ledger helpers
def open_ids(db):
    """connections on which close() was never attempted"""
    return [c.id for c in db.conns if not c.close_attempted]


def is_injected_dbapi_error(e):
    """a fakedb exception that the fake raised because of the plan (or because
    the connection is dead / closed as a consequence of it)"""
    if not isinstance(e, fakedb.Error):
        return False
    msg = str(e)
    return msg.startswith("injected ") or " is dead (" in msg or " already closed (" in msg


def classify_error(prop, e, where, allow=()):
    """returns a short label for an acceptable surfaced error, raises Violation
    for a SQLAlchemy error that is not explained by the injected faults.
    Non-SQLAlchemy / non-fakedb exceptions must not be passed here (let them
    escape: the runner reports crashes inside the library)."""
    from sqlalchemy import exc

    if isinstance(e, InjectedBaseException):
        return "base:InjectedBaseException"
    if isinstance(e, fakedb.Error):
        if is_injected_dbapi_error(e):
            return "raw:" + type(e).__name__
        raise Violation(f"{prop}/error/unexplained-dbapi-error", f"{where}: DBAPI error not caused by the plan: {e!r}")
    if isinstance(e, exc.DBAPIError):
        if e.orig is not None and is_injected_dbapi_error(e.orig):
            return "wrapped:" + type(e).__name__
        raise Violation(f"{prop}/error/unexplained-DBAPIError", f"{where}: DBAPIError whose cause is not an injected fault: {e!r} orig={e.orig!r}")
    for cls in allow:
        if isinstance(e, cls):
            return type(e).__name__
    raise Violation(f"{prop}/error/unexpected-{type(e).__name__}", f"{where}: unexpected {type(e).__name__}: {str(e)[:300]}",
                    observed=type(e).__name__)


class Bans:
    """connections that must never be handed out by a later checkout"""

    def __init__(self, db):
        self.db = db
        self.reason = {}  # conn id -> reason (first one wins)
        self.exempt = set()  # connections whose close a user listener vetoed by raising: the pool could not discard them

    def ban(self, cid, reason):
        if cid is not None:
            self.reason.setdefault(cid, reason)

    def ban_all_existing(self, reason):
        for c in self.db.conns:
            self.reason.setdefault(c.id, reason)

    def sync_dead_and_closed(self):
        for c in self.db.conns:
            if c.close_attempted:
                self.reason.setdefault(c.id, "close() was attempted on it")
            elif c.dead:
                self.reason.setdefault(c.id, "a disconnect error was raised on it")

    def check_handed_out(self, prop, cid, where):
        self.sync_dead_and_closed()
        if cid in self.reason and cid not in self.exempt:
            raise Violation(f"{prop}/reuse/{_slug(self.reason[cid])}", f"{where}: DBAPI connection {cid} was handed out although {self.reason[cid]}",
                            observed=cid, expected="a connection that is not banned")


def _slug(s):
    s = s.lower()
    for a, b in ((" ", "-"), ("(", ""), (")", ""), ("'", ""), (",", "")):
        s = s.replace(a, b)
    return s[:60]
