"""C52 - scoped_session gives each scope its own session (under generated thread schedules)."""
from __future__ import annotations

from hypothesis import strategies as st

from vf.api import Enumerated, Generated, Violation

PROPERTY = "C52"
LEVEL = "exploration"
RULE = (
    "2-4 real threads under vf.sched, each a program of <=8 ops from {registry(), proxied add, remove(), registry.has(), proxied "
    "contains/expunge_all}; registry kind: thread-local, scopefunc with distinct scope ids, scopefunc with scope ids shared by threads (no remove "
    "there); schedule = drawn pre-emptions at traced lines of orm/scoping.py and util/_collections.py. enum2: all schedules with <=2 "
    "pre-emptions for 2 threads x 3 ops. lifetimes: 2-6 plain threads that run one after another (each ends before the next starts, so the OS recycles the thread "
    "ident), programs of <=5 ops, some ending without remove(); non-trivial there: an earlier thread left a session behind. Non-trivial (scheduled subs): >=2 threads interleave a registry()/remove() pair with >=1 pre-emption taken inside registry code; "
    "distinct = canonical JSON"
)
ASSUMPTIONS = [
    "with a user scopefunc that maps two threads to one scope, only creation/lookup is exercised (remove() racing with use of the same scope is the caller's responsibility per the docs)",
    "sessions have no bind: add/contains/expunge_all need no database",
    "pre-emption granularity is a Python source line inside the two files",
]

TARGETS = ("sqlalchemy/orm/scoping.py", "sqlalchemy/util/_collections.py")
OPS = ["get", "get", "add", "remove", "has", "contains", "expunge_all"]
_fam = {}


def _family():
    if _fam:
        return _fam
    from sqlalchemy import Column, Integer
    from sqlalchemy.orm import Session, registry

    reg = registry()
    Base = reg.generate_base()

    class Obj(Base):
        __tablename__ = "c52_obj"
        id = Column(Integer, primary_key=True)

    class CountingSession(Session):
        def __init__(self, *a, **kw):
            super().__init__(*a, **kw)
            self.vf_closed = 0
            self.vf_closed_by = []

        def close(self):
            from vf import sched as S

            self.vf_closed += 1
            w = getattr(S._tls, "worker", None)
            self.vf_closed_by.append(w.tid if w is not None else None)
            super().close()

    reg.configure()
    _fam.update(Obj=Obj, CountingSession=CountingSession)
    return _fam


class _Inv(Exception):
    def __init__(self, sig, msg):
        super().__init__(msg)
        self.sig, self.msg = sig, msg


def check(case, ctx):
    from sqlalchemy.orm import scoped_session, sessionmaker
    from sqlalchemy.orm import scoping as scoping_mod
    from sqlalchemy.util import _collections as coll_mod

    from vf import sched as S

    fam = _family()
    Obj, CS = fam["Obj"], fam["CountingSession"]
    kind = case["kind"]
    programs = case["programs"]
    scopes = case.get("scopes") or list(range(len(programs)))
    preempt = {int(k): v for k, v in case["preempt"]}
    sch = S.Scheduler(preempt=preempt, picks=case.get("picks", []), target_files=TARGETS, max_steps=20000)
    factory = sessionmaker(class_=CS)
    if kind == "threadlocal":
        ss = scoped_session(factory)
        scope_of = lambda w: ("T", w.tid)  # noqa
    else:
        ss = scoped_session(factory, scopefunc=lambda: scopes[sch.me().tid % len(scopes)])
        scope_of = lambda w: ("S", scopes[w.tid % len(scopes)])  # noqa
    shared = kind == "scopefunc_shared"
    model = {}  # scope -> session
    all_sessions = []
    mixed = {"get_remove_threads": set()}
    inflight = {}  # scope -> number of registry() calls currently in progress (shared scopes: the session may exist before the model learns of it)

    def work_for(prog):
        def work(w):
            scope = scope_of(w)
            for op in prog:
                name = op[0]
                if name == "remove" and shared:
                    name = "get"
                if name in ("get", "add", "contains", "expunge_all"):
                    inflight[scope] = inflight.get(scope, 0) + 1
                    try:
                        s = ss()
                    finally:
                        inflight[scope] -= 1
                    if s not in all_sessions:
                        all_sessions.append(s)
                    cur = model.get(scope)
                    if cur is not None and s is not cur and not shared:
                        raise _Inv("C52/registry/different-session-within-scope", f"T{w.tid} scope {scope}: registry() returned a different Session than before without remove()")
                    if shared and cur is not None and s is not cur:
                        raise _Inv("C52/registry/different-session-within-shared-scope", f"T{w.tid} scope {scope}: two Sessions for one scope id")
                    for sc, other in model.items():
                        if sc != scope and other is s:
                            raise _Inv("C52/registry/session-shared-between-scopes", f"scope {scope} received the Session of scope {sc}")
                    if s.vf_closed and not any(True for _ in ()):
                        if cur is None and s.vf_closed:
                            raise _Inv("C52/registry/removed-session-returned", f"scope {scope}: registry() returned a Session that was already removed")
                    model[scope] = s
                    mixed["get_remove_threads"].add(w.tid)
                    if name == "add":
                        o = Obj()
                        ss.add(o)
                        if o not in s:
                            raise _Inv("C52/proxy/add-went-to-another-session", f"scope {scope}: proxied add() did not land in the scope's Session")
                        for other in all_sessions:
                            if other is not s and o in other:
                                raise _Inv("C52/proxy/add-went-to-another-session", f"scope {scope}: object also present in another scope's Session")
                    elif name == "contains":
                        o = Obj()
                        if o in ss:
                            raise _Inv("C52/proxy/contains", "fresh object reported as contained")
                    elif name == "expunge_all":
                        ss.expunge_all()
                        if len(list(s)) != 0:
                            raise _Inv("C52/proxy/expunge_all", "scope's session not emptied")
                elif name == "has":
                    got = ss.registry.has()
                    if got != (scope in model) and not (got and inflight.get(scope, 0) > 0):
                        raise _Inv("C52/registry/has", f"scope {scope}: registry.has() == {got}, model says {scope in model}")
                elif name == "remove":
                    cur = model.get(scope)
                    # closes are attributed to the closing thread: other threads may run whole ops while this one is pre-empted
                    before = {id(s): s.vf_closed_by.count(w.tid) for s in all_sessions}
                    ss.remove()
                    for s in list(all_sessions):
                        delta = s.vf_closed_by.count(w.tid) - before.get(id(s), 0)
                        if s is cur:
                            if delta != 1:
                                raise _Inv("C52/remove/current-session-not-closed-once", f"scope {scope}: remove() closed the scope's Session {delta} times")
                        elif delta != 0 and s not in [m for sc, m in model.items() if sc == scope]:
                            raise _Inv("C52/remove/closed-another-scopes-session", f"scope {scope}: remove() closed a Session of another scope")
                    model.pop(scope, None)
                    if ss.registry.has():
                        raise _Inv("C52/remove/session-still-registered", f"scope {scope}: registry.has() is True after remove()")
                    mixed["get_remove_threads"].add(w.tid)
        return work

    with S.patched(sch, []):
        for prog in programs:
            sch.spawn(work_for(prog))
        sch.run()

    inside_pre = sch.contended_preemptions + sum(1 for _ in sch.trace_log)
    has_remove = sum(1 for p in programs if any(o[0] == "remove" for o in p) and any(o[0] in ("get", "add") for o in p))
    nontrivial = len(sch.trace_log) >= 1 and (has_remove >= 1 or shared) and len(programs) >= 2
    ctx.note(case, nontrivial, classes=[kind, "threads%d" % len(programs), "preempt%d" % len(sch.trace_log)])
    for k, e in sch.errors:
        if k == "invariant" and isinstance(e, _Inv):
            raise Violation(e.sig, e.msg)
        if k == "deadlock":
            raise Violation("C52/deadlock", str(e))
        if k == "harness":
            from vf.api import HarnessError

            raise HarnessError(str(e))
    for w in sch.threads:
        if w.exc is not None:
            if isinstance(w.exc, _Inv):
                raise Violation(w.exc.sig, w.exc.msg + f" | schedule taken: {sch.trace_log[:8]}")
            raise w.exc
    # end state: sessions of different scopes are different objects
    vals = list(model.values())
    if len({id(v) for v in vals}) != len(vals) and not shared:
        raise Violation("C52/registry/session-shared-between-scopes", "two scopes ended with the same Session")


_opst = st.sampled_from(OPS).map(lambda n: [n])


@st.composite
def _cases(draw):
    kind = draw(st.sampled_from(["threadlocal", "threadlocal", "scopefunc_distinct", "scopefunc_shared"]))
    n = draw(st.integers(2, 4))
    programs = [draw(st.lists(_opst, min_size=1, max_size=8)) for _ in range(n)]
    scopes = list(range(n))
    if kind == "scopefunc_shared":
        scopes = [draw(st.integers(0, 1)) for _ in range(n)]
    preempt = sorted({(draw(st.integers(1, 120)), draw(st.integers(0, 3))) for _ in range(draw(st.integers(0, 5)))})
    return {"kind": kind, "programs": programs, "scopes": scopes, "preempt": [list(x) for x in preempt], "picks": draw(st.lists(st.integers(0, 3), max_size=4))}


def _enum2(tier):
    progs = [[["get"], ["add"], ["remove"]], [["get"], ["remove"], ["get"]]]
    for kind, scopes in (("threadlocal", [0, 1]), ("scopefunc_distinct", [0, 1]), ("scopefunc_shared", [0, 0])):
        rng = list(range(1, 90 if tier == "quick" else 140))
        for a in rng:
            yield {"kind": kind, "programs": progs, "scopes": scopes, "preempt": [[a, 0]], "picks": []}
        g = rng[::6 if tier == "quick" else 2]
        for i, a in enumerate(g):
            for b in g[i + 1:]:
                yield {"kind": kind, "programs": progs, "scopes": scopes, "preempt": [[a, 0], [b, 0]], "picks": []}


# ------------------------------------------------------------------------------------ thread lifetimes (scope = the thread, not its ident)
def check_lifetimes(case, ctx):
    """threads that start and END one after another (the OS recycles thread idents): every new thread is a new scope, whatever an
    earlier, finished thread left behind without remove()"""
    import threading

    from sqlalchemy.orm import scoped_session, sessionmaker

    fam = _family()
    Obj, CS = fam["Obj"], fam["CountingSession"]
    ss = scoped_session(sessionmaker(class_=CS))
    seen = []  # sessions handed to earlier (finished) threads
    idents = []
    problems = []

    def run(prog, k):
        try:
            idents.append(threading.get_ident())
            mine = None
            if ss.registry.has():
                problems.append(("C52/lifetime/new-thread-already-has-a-session", f"thread #{k} (ident {threading.get_ident()}): registry.has() is True before its first use"))
            for op in prog:
                name = op[0]
                if name in ("get", "add", "contains", "expunge_all"):
                    s = ss()
                    if mine is None:
                        if any(s is o for o in seen):
                            left = len(list(s.new))
                            problems.append(("C52/lifetime/session-of-finished-thread-reused", f"thread #{k} received the Session of an earlier, finished thread ({left} pending objects left in it)"))
                        mine = s
                    elif s is not mine:
                        problems.append(("C52/registry/different-session-within-scope", f"thread #{k}: a different Session without remove()"))
                    if name == "add":
                        ss.add(Obj())
                    elif name == "expunge_all":
                        ss.expunge_all()
                elif name == "has":
                    if ss.registry.has() != (mine is not None):
                        problems.append(("C52/registry/has", f"thread #{k}: has() == {ss.registry.has()}, model {mine is not None}"))
                elif name == "remove":
                    before = [o.vf_closed for o in seen]
                    ss.remove()
                    if [o.vf_closed for o in seen] != before:
                        problems.append(("C52/lifetime/remove-closed-session-of-finished-thread", f"thread #{k}: remove() closed a Session that belongs to an earlier thread"))
                    if mine is not None and mine.vf_closed < 1:
                        problems.append(("C52/remove/current-session-not-closed-once", f"thread #{k}: remove() did not close its Session"))
                    if mine is not None:
                        seen.append(mine)
                    mine = None
            if mine is not None:
                seen.append(mine)
        except BaseException as e:  # noqa
            problems.append(("crash", repr(e)))

    for k, prog in enumerate(case["phases"]):
        t = threading.Thread(target=run, args=(prog, k))
        t.start()
        t.join()
    reused = len(set(idents)) < len(idents)
    left_behind = sum(1 for p in case["phases"][:-1] if any(o[0] in ("get", "add") for o in p) and (not p or p[-1][0] != "remove"))
    ctx.note(case, len(case["phases"]) >= 2 and left_behind >= 1, classes=["lifetimes", "ident-reused" if reused else "ident-not-reused", "left-behind%d" % min(left_behind, 3)])
    for sig, msg in problems:
        if sig == "crash":
            from vf.api import HarnessError

            raise HarnessError(msg)
        raise Violation(sig, msg + f" (thread idents {idents})")


_life = st.fixed_dictionaries({"phases": st.lists(st.lists(_opst, min_size=1, max_size=5), min_size=2, max_size=6)})


def subs(tier):
    return [
        Enumerated("enum2", check, cases=_enum2),
        Generated("random", check, strategy=_cases(), quick=1500, thorough=60000),
        Generated("lifetimes", check_lifetimes, strategy=_life, quick=600, thorough=20000),
    ]
