"""SQL tokenisers used by C04 / C05 (owned by the C04/C05 check author).

Two layers, exactly as a statement travels to a backend:

1. the DBAPI *paramstyle* grammar decides what is a placeholder.  ``format`` and
   ``pyformat`` drivers (psycopg2, pymysql, mysqlclient, pg8000, ...) are not
   SQL-aware: every ``%`` in the statement is interpreted (``%%`` -> ``%``,
   ``%s`` / ``%(name)s`` -> parameter), also inside quotes.  ``qmark``,
   ``named``, ``numeric`` and ``numeric_dollar`` placeholders are recognised by
   SQL-aware parsers (sqlite3, ODBC, Oracle, the PostgreSQL server) and only
   outside quoted regions.
2. the backend's lexical grammar (string literal / quoted identifier /
   comment rules) per *flavor*.

``lex(sql, flavor, paramstyle)`` returns a list of tuples:

    ("ph", key)             placeholder; key = 0-based position (qmark/format, in
                            order of appearance; numeric: n-1) or name (named/pyformat)
    ("str", value, prefix)  string literal, *decoded* by the flavor's grammar
    ("num", text)           numeric literal (unsigned; a sign is an "op")
    ("word", text)          bare word (keyword / identifier), case preserved
    ("qid", text)           quoted identifier, decoded
    ("op", text)            operator / punctuation
    ("comment", text)

``LexError`` means the text is not lexically valid for that driver+backend
(unterminated quote, stray ``%``, placeholder inside a quoted region).
"""
from __future__ import annotations

import datetime as _dt
import decimal as _decimal

FLAVORS = ("sqlite", "postgresql", "postgresql_bs", "mysql", "mysql_nobs", "mssql", "oracle")

# which characters open a quoted identifier, per flavor -> closing char
_QID = {
    "sqlite": {'"': '"', "`": "`", "[": "]"},
    "postgresql": {'"': '"'},
    "postgresql_bs": {'"': '"'},
    "mysql": {"`": "`"},
    "mysql_nobs": {"`": "`"},
    "mssql": {'"': '"', "[": "]"},
    "oracle": {'"': '"'},
}
# string delimiters per flavor
_STRQ = {
    "sqlite": "'",
    "postgresql": "'",
    "postgresql_bs": "'",
    "mysql": "'\"",
    "mysql_nobs": "'\"",
    "mssql": "'",
    "oracle": "'",
}
# flavors whose plain '...' strings process backslash escapes
_BACKSLASH = {"mysql", "postgresql_bs"}

_MYSQL_ESC = {"0": "\x00", "b": "\b", "n": "\n", "r": "\r", "t": "\t", "Z": "\x1a"}
_PG_ESC = {"b": "\b", "f": "\f", "n": "\n", "r": "\r", "t": "\t"}

_TWO_CHAR_OPS = {"::", "<=", ">=", "<>", "!=", "||", "->", "<<", ">>", ":=", "&&", "@>", "<@", "#>", "==", "!<", "!>", "~*"}


class LexError(Exception):
    def __init__(self, kind, msg):
        super().__init__(f"{kind}: {msg}")
        self.kind = kind


class _PH:
    """a placeholder found by the text-level (format / pyformat) scan"""

    __slots__ = ("key",)

    def __init__(self, key):
        self.key = key

    def __repr__(self):
        return f"<PH {self.key!r}>"


def percent_layer(sql: str, paramstyle: str, percent: str = "python"):
    """apply the driver's %-interpolation grammar; returns a list whose items
    are single characters or _PH objects.

    percent="python"   PEP 249 style drivers built on Python %-formatting or an
                       equivalent whole-string scan (psycopg2, psycopg, pymysql,
                       mysqlclient, asyncmy, aiomysql): %% -> %, everywhere
    percent="nodouble" pymssql: only %(name)s / %s / %d are substituted (regex over
                       the whole string), every other % is literal, %% stays %%
    (percent="sqlaware", pg8000, is handled inside lex(): quotes are respected)
    """
    out = []
    i, n, pos = 0, len(sql), 0
    if percent == "nodouble":
        import re

        rx = re.compile(r"%\(([^\)]+)\)[sd]") if paramstyle == "pyformat" else re.compile(r"%[sd]")
        last = 0
        for m in rx.finditer(sql):
            out.extend(sql[last:m.start()])
            out.append(_PH(m.group(1) if paramstyle == "pyformat" else pos))
            pos += 1
            last = m.end()
        out.extend(sql[last:])
        return out
    while i < n:
        ch = sql[i]
        if ch != "%":
            out.append(ch)
            i += 1
            continue
        if i + 1 >= n:
            raise LexError("stray-percent", f"'%' at end of statement: {sql!r}")
        nx = sql[i + 1]
        if nx == "%":
            out.append("%")
            i += 2
        elif nx == "s" and paramstyle == "format":
            out.append(_PH(pos))
            pos += 1
            i += 2
        elif nx == "(" and paramstyle == "pyformat":
            j = sql.find(")", i + 2)
            if j < 0 or j + 1 >= n or sql[j + 1] != "s":
                raise LexError("stray-percent", f"malformed %(name)s at offset {i}: {sql[i:i + 30]!r}")
            out.append(_PH(sql[i + 2:j]))
            i = j + 2
        else:
            raise LexError("stray-percent", f"'%{nx}' is not a valid {paramstyle} sequence at offset {i}: {sql[max(0, i - 10):i + 12]!r}")
    return out


def _is_word_start(ch):
    return ch.isalpha() or ch == "_" or (ch > "\x7f" and not ch.isspace())


def _is_word_char(ch):
    return ch.isalnum() or ch in "_$#" or (ch > "\x7f" and not ch.isspace())


def lex(sql: str, flavor: str, paramstyle: str, percent: str = "python"):
    if flavor not in _QID:
        raise ValueError(flavor)
    sqlaware_pct = False
    if paramstyle in ("format", "pyformat") and percent != "sqlaware":
        chars = percent_layer(sql, paramstyle, percent)
    else:
        chars = list(sql)
        sqlaware_pct = paramstyle in ("format", "pyformat")
    n = len(chars)
    toks = []
    i = 0
    seq = 0  # sequential placeholder counter (qmark)
    strq = _STRQ[flavor]
    qid = _QID[flavor]

    def quoted(start, close, what, backslash=False, escmap=None):
        """scan a quoted region starting after the opening char; returns (decoded, next_index)"""
        buf = []
        j = start
        while True:
            if j >= n:
                raise LexError("unterminated", f"unterminated {what} in {sql!r}")
            c = chars[j]
            if isinstance(c, _PH):
                raise LexError("placeholder-in-quotes", f"driver placeholder {c.key!r} falls inside a {what}: {sql!r}")
            if backslash and c == "\\":
                if j + 1 >= n:
                    raise LexError("unterminated", f"backslash at end inside {what}: {sql!r}")
                e = chars[j + 1]
                if isinstance(e, _PH):
                    raise LexError("placeholder-in-quotes", f"driver placeholder inside a {what}: {sql!r}")
                if escmap is _MYSQL_ESC:
                    if e in ("%", "_"):
                        buf.append("\\" + e)
                    else:
                        buf.append(_MYSQL_ESC.get(e, e))
                    j += 2
                else:  # postgresql escape string
                    if e in _PG_ESC:
                        buf.append(_PG_ESC[e])
                        j += 2
                    elif e in "01234567":
                        k = j + 1
                        digs = ""
                        while k < n and len(digs) < 3 and isinstance(chars[k], str) and chars[k] in "01234567":
                            digs += chars[k]
                            k += 1
                        buf.append(chr(int(digs, 8) & 0xFF))
                        j = k
                    elif e == "x" and j + 2 < n and isinstance(chars[j + 2], str) and chars[j + 2] in "0123456789abcdefABCDEF":
                        k = j + 2
                        digs = ""
                        while k < n and len(digs) < 2 and isinstance(chars[k], str) and chars[k] in "0123456789abcdefABCDEF":
                            digs += chars[k]
                            k += 1
                        buf.append(chr(int(digs, 16)))
                        j = k
                    elif e in "uU":
                        ln = 4 if e == "u" else 8
                        digs = "".join(c2 for c2 in chars[j + 2:j + 2 + ln] if isinstance(c2, str))
                        try:
                            buf.append(chr(int(digs, 16)))
                        except ValueError:
                            raise LexError("bad-escape", f"invalid unicode escape in {sql!r}")
                        j += 2 + ln
                    else:
                        buf.append(e)
                        j += 2
                continue
            if c == close:
                if j + 1 < n and chars[j + 1] == close:
                    buf.append(close)
                    j += 2
                    continue
                return "".join(buf), j + 1
            buf.append(c)
            j += 1

    while i < n:
        c = chars[i]
        if isinstance(c, _PH):
            toks.append(("ph", c.key))
            i += 1
            continue
        if c.isspace():
            i += 1
            continue
        nx = chars[i + 1] if i + 1 < n and isinstance(chars[i + 1], str) else ""
        # comments
        if c == "-" and nx == "-":
            j = i
            buf = []
            while j < n and chars[j] != "\n":
                if isinstance(chars[j], _PH):
                    raise LexError("placeholder-in-quotes", f"driver placeholder inside a comment: {sql!r}")
                buf.append(chars[j])
                j += 1
            toks.append(("comment", "".join(buf)))
            i = j
            continue
        if c == "#" and flavor.startswith("mysql"):
            j = i
            while j < n and chars[j] != "\n":
                j += 1
            toks.append(("comment", "".join(x for x in chars[i:j] if isinstance(x, str))))
            i = j
            continue
        if c == "/" and nx == "*":
            j = i + 2
            while True:
                if j + 1 >= n:
                    raise LexError("unterminated", f"unterminated comment in {sql!r}")
                if chars[j] == "*" and chars[j + 1] == "/":
                    break
                j += 1
            toks.append(("comment", "".join(x for x in chars[i:j + 2] if isinstance(x, str))))
            i = j + 2
            continue
        # string literals
        if c in strq:
            bs = flavor in _BACKSLASH
            esc = _MYSQL_ESC if flavor == "mysql" else _PG_ESC
            prefix = ""
            # a directly preceding word N / E / B / X / U& is a literal prefix
            if toks and toks[-1][0] == "word" and toks[-1][1].upper() in ("N", "E", "B", "X", "U&", "_UTF8", "_UTF8MB4", "Q", "NQ") and i > 0 and isinstance(chars[i - 1], str) and not chars[i - 1].isspace():
                prefix = toks.pop()[1].upper()
                if prefix == "E" and flavor.startswith("postgresql"):
                    bs, esc = True, _PG_ESC
            val, i = quoted(i + 1, c, "string literal", backslash=bs, escmap=esc)
            if c == '"':
                prefix = prefix + '"'
            toks.append(("str", val, prefix))
            continue
        # quoted identifiers
        if c in qid:
            val, i = quoted(i + 1, qid[c], "quoted identifier")
            toks.append(("qid", val))
            continue
        # postgresql dollar quoting
        if c == "$" and flavor.startswith("postgresql") and (nx == "$" or _is_word_start(nx or " ")):
            j = i + 1
            while j < n and isinstance(chars[j], str) and _is_word_char(chars[j]) and chars[j] != "$":
                j += 1
            if j < n and chars[j] == "$":
                tag = "".join(chars[i:j + 1])
                body = "".join(x if isinstance(x, str) else "\0" for x in chars[j + 1:])
                k = body.find(tag)
                if k < 0:
                    raise LexError("unterminated", f"unterminated dollar-quoted string in {sql!r}")
                toks.append(("str", body[:k], "$"))
                i = j + 1 + k + len(tag)
                continue
        # SQL-aware placeholders
        if sqlaware_pct and c == "%":
            # pg8000: outside quotes only %s / %(name)s / %% are legal
            if nx == "%":
                toks.append(("op", "%"))
                i += 2
                continue
            if nx == "s" and paramstyle == "format":
                toks.append(("ph", seq))
                seq += 1
                i += 2
                continue
            if nx == "(" and paramstyle == "pyformat":
                j = i + 2
                while j < n and chars[j] != ")":
                    j += 1
                if j + 1 < n and chars[j + 1] == "s":
                    toks.append(("ph", "".join(chars[i + 2:j])))
                    i = j + 2
                    continue
            raise LexError("stray-percent", f"'%{nx}' outside quotes is rejected by the driver: {sql!r}")
        if paramstyle == "qmark" and c == "?":
            toks.append(("ph", seq))
            seq += 1
            i += 1
            continue
        if c == ":" and nx != ":":
            if paramstyle == "named" and nx and _is_word_start(nx):
                j = i + 1
                while j < n and isinstance(chars[j], str) and (chars[j].isalnum() or chars[j] == "_"):
                    j += 1
                toks.append(("ph", "".join(chars[i + 1:j])))
                i = j
                continue
            if paramstyle == "numeric" and nx.isdigit():
                j = i + 1
                while j < n and isinstance(chars[j], str) and chars[j].isdigit():
                    j += 1
                toks.append(("ph", int("".join(chars[i + 1:j])) - 1))
                i = j
                continue
        if paramstyle == "numeric_dollar" and c == "$" and nx.isdigit():
            j = i + 1
            while j < n and isinstance(chars[j], str) and chars[j].isdigit():
                j += 1
            toks.append(("ph", int("".join(chars[i + 1:j])) - 1))
            i = j
            continue
        # numbers
        if c.isdigit() or (c == "." and nx.isdigit()):
            j = i
            while j < n and isinstance(chars[j], str) and chars[j].isdigit():
                j += 1
            if j < n and chars[j] == ".":
                j += 1
                while j < n and isinstance(chars[j], str) and chars[j].isdigit():
                    j += 1
            if j < n and isinstance(chars[j], str) and chars[j] in "eE":
                k = j + 1
                if k < n and isinstance(chars[k], str) and chars[k] in "+-":
                    k += 1
                if k < n and isinstance(chars[k], str) and chars[k].isdigit():
                    while k < n and isinstance(chars[k], str) and chars[k].isdigit():
                        k += 1
                    j = k
            toks.append(("num", "".join(chars[i:j])))
            i = j
            continue
        # words
        if _is_word_start(c):
            j = i
            while j < n and isinstance(chars[j], str) and _is_word_char(chars[j]):
                j += 1
            w = "".join(chars[i:j])
            # U&'...' prefix
            if w.upper() == "U" and j + 1 < n and chars[j] == "&" and chars[j + 1] == "'":
                w = "U&"
                j += 1
            toks.append(("word", w))
            i = j
            continue
        # operators
        if nx and (c + nx) in _TWO_CHAR_OPS:
            toks.append(("op", c + nx))
            i += 2
            continue
        toks.append(("op", c))
        i += 1
    return toks


# ---------------------------------------------------------------- placeholder resolution (C04)
class ResolveError(Exception):
    def __init__(self, kind, msg):
        super().__init__(f"{kind}: {msg}")
        self.kind = kind


def resolve(toks, parameters, paramstyle):
    """replace every ("ph", key) by ("val", value) using the DBAPI rules for
    that paramstyle -> ("val", value, "ph"); literal tokens are normalised to
    ("val", python value, "lit") too.
    Also returns the set of parameter keys / positions that were consumed."""
    positional = paramstyle in ("qmark", "format", "numeric", "numeric_dollar")
    if positional:
        if not isinstance(parameters, (tuple, list)):
            raise ResolveError("param-container", f"{paramstyle} needs a sequence, got {type(parameters).__name__}: {parameters!r}")
    else:
        if not isinstance(parameters, dict):
            raise ResolveError("param-container", f"{paramstyle} needs a mapping, got {type(parameters).__name__}: {parameters!r}")
    used = set()
    out = []
    for t in toks:
        if t[0] == "ph":
            key = t[1]
            if positional:
                if not isinstance(key, int) or key < 0 or key >= len(parameters):
                    raise ResolveError("missing-param", f"placeholder #{key} but only {len(parameters)} parameters: {parameters!r}")
            elif key not in parameters:
                raise ResolveError("missing-param", f"placeholder {key!r} not among parameter names {sorted(parameters)!r}")
            used.add(key)
            out.append(("val", parameters[key], "ph"))
        elif t[0] == "str":
            out.append(("val", t[1], "lit"))
        elif t[0] == "num":
            out.append(("val", num_value(t[1]), "lit"))
        else:
            out.append(t)
    n_given = len(parameters)
    if paramstyle in ("qmark", "format"):
        if len(used) != n_given:
            raise ResolveError("param-count", f"{len(used)} placeholders but {n_given} parameters: {parameters!r}")
    elif positional:
        if used != set(range(n_given)):
            raise ResolveError("param-count", f"placeholders use positions {sorted(used)} but {n_given} parameters given: {parameters!r}")
    return out, used


def num_value(text):
    try:
        return int(text)
    except ValueError:
        return float(text)


# ---------------------------------------------------------------- literal decoding (C05)
def decode_literal(unit, kind, flavor):
    """unit: the token list standing where the placeholder stood.  Returns
    (ok, value_or_reason).  kind: str|int|float|decimal|bool|none|date|datetime|time"""
    sign = 1
    u = list(unit)
    if kind in ("int", "float", "decimal") and len(u) == 2 and u[0] == ("op", "-") and u[1][0] == "num":
        sign = -1
        u = u[1:]
    if len(u) != 1:
        return False, f"{len(unit)} tokens where one literal is expected: {unit!r}"
    t = u[0]
    if kind == "none":
        if t[0] == "word" and t[1].upper() == "NULL":
            return True, None
        return False, f"expected NULL, got {t!r}"
    if kind == "bool":
        if t[0] == "word" and t[1].lower() in ("true", "false"):
            return True, t[1].lower() == "true"
        if t[0] == "num" and t[1] in ("0", "1"):
            return True, t[1] == "1"
        return False, f"expected a boolean literal, got {t!r}"
    if kind == "int":
        if t[0] == "num" and t[1].isdigit():
            return True, sign * int(t[1])
        return False, f"expected an integer literal, got {t!r}"
    if kind == "float":
        if t[0] == "num":
            return True, sign * float(t[1])
        return False, f"expected a numeric literal, got {t!r}"
    if kind == "decimal":
        if t[0] == "num":
            d = _decimal.Decimal(t[1])
            return True, -d if sign < 0 else d
        return False, f"expected a numeric literal, got {t!r}"
    if t[0] != "str":
        return False, f"expected a string literal, got {t!r}"
    prefix = t[2]
    allowed = {""}
    if flavor == "mssql":
        allowed.add("N")
    if prefix not in allowed:
        return False, f"string literal with unexpected prefix/delimiter {prefix!r}: {t!r}"
    if kind == "str":
        return True, t[1]
    try:
        if kind == "date":
            return True, _dt.date.fromisoformat(t[1])
        if kind == "datetime":
            return True, _dt.datetime.fromisoformat(t[1])
        if kind == "time":
            return True, _dt.time.fromisoformat(t[1])
    except ValueError as e:
        return False, f"literal {t[1]!r} is not an ISO {kind}: {e}"
    raise ValueError(kind)


def align(bound_toks, lit_toks):
    """bound_toks contain ("ph", key) tokens; lit_toks is the tokenisation of
    the literal rendering.  Returns the list of units (token lists) standing at
    each placeholder, or raises LexError('shape', ...) if the fixed tokens do
    not line up.  A unit is chosen as the shortest run that lets the following
    fixed token match (sign + number allowed)."""
    units = []
    i = j = 0
    nb, nl = len(bound_toks), len(lit_toks)
    while i < nb:
        bt = bound_toks[i]
        if bt[0] != "ph":
            if j >= nl or lit_toks[j] != bt:
                got = lit_toks[j] if j < nl else None
                raise LexError("shape", f"token #{j} of the literal rendering is {got!r}, the bound rendering has {bt!r}")
            i += 1
            j += 1
            continue
        # placeholder: take tokens up to the point where the remaining fixed suffix can match
        remaining_fixed = nb - i - 1
        # number of literal tokens left must be >= remaining tokens of bound (each ph >= 1 token)
        if j >= nl:
            raise LexError("shape", "literal rendering ends before the placeholder position")
        take = 1
        if lit_toks[j] == ("op", "-") and j + 1 < nl and lit_toks[j + 1][0] == "num":
            take = 2
        units.append(lit_toks[j:j + take])
        j += take
        i += 1
    if j != nl:
        raise LexError("shape", f"literal rendering has {nl - j} extra trailing token(s): {lit_toks[j:j + 6]!r}")
    return units
