"""C49 - mutable column values propagate in-place changes to the database.

Histories of in-place mutations on MutableDict / MutableList (JSON and
PickleType) / MutableSet / MutableComposite attributes interleaved with flush,
commit, expire, refresh, pickle -> merge and reload; a plain Python value model
per attribute is the reference: after every flush/commit the stored value (read
with raw SQL and decoded by the harness) == in-memory value == model.
"""
from __future__ import annotations

import json
import pickle

from hypothesis import strategies as st

from vf.api import Generated, Violation

PROPERTY = "C49"
LEVEL = "exploration"
RULE = (
    "histories (<=30 ops) over one entity with MutableDict(JSON), MutableList(JSON), MutableList(PickleType), MutableSet(PickleType) and a "
    "MutableComposite: every mutating method of dict/list/set incl. slices and in-place operators, whole-value replacement with plain values "
    "(coercion) and None, interleaved with flush, commit, expire, refresh, rollback, pickle->(mutate detached)->merge / add, pickle->merge(load=False) at once, and reload in a fresh "
    "Session. Non-trivial: >=2 effective in-place mutations separated by a flush/expire/pickle/reload boundary, or a coerced replacement followed "
    "by an in-place mutation; distinct = canonical JSON of the history"
)
ASSUMPTIONS = [
    "values are JSON-able scalars (ints, short strings); list.sort() operates on ints only",
    "the dirty flag is demanded only when the model value actually changed since the last flush (no-op mutations may or may not flag)",
    "raw reads go through the session's own connection with driver SQL; JSON text / pickle blobs are decoded by the harness",
]

ATTRS = ["d", "l", "lp", "s", "pt"]
DICT_OPS = ["setitem", "delitem", "update_dict", "update_kw", "update_pairs", "setdefault", "pop", "pop_default", "popitem", "clear", "ior"]
LIST_OPS = ["setitem", "delitem", "setslice", "delslice", "append", "extend", "iadd", "insert", "remove", "pop", "clear", "sort", "reverse", "imul"]
SET_OPS = ["add", "remove", "discard", "pop", "clear", "update", "intersection_update", "difference_update", "symmetric_difference_update",
           "ior", "iand", "ixor", "isub"]
SESSION_OPS = ["flush", "commit", "expire", "refresh", "rollback", "pickle", "reload", "read"]


def _apply(kind, name, tgt, a, is_model):
    """apply op to tgt (Mutable or plain); returns nothing, may raise KeyError/IndexError/ValueError"""
    k, v, seq = a.get("k"), a.get("v"), a.get("seq", [])
    if kind == "dict":
        if name == "setitem":
            tgt[k] = v
        elif name == "delitem":
            del tgt[k]
        elif name == "update_dict":
            tgt.update({f"k{i}": i for i in seq})
        elif name == "update_kw":
            tgt.update(**{f"k{i}": i for i in seq})
        elif name == "update_pairs":
            tgt.update([(f"k{i}", i) for i in seq])
        elif name == "setdefault":
            tgt.setdefault(k, v)
        elif name == "pop":
            tgt.pop(k)
        elif name == "pop_default":
            tgt.pop(k, None)
        elif name == "popitem":
            tgt.popitem()
        elif name == "clear":
            tgt.clear()
        elif name == "ior":
            tgt |= {f"k{i}": i + 100 for i in seq}
    elif kind == "list":
        i = a.get("i", 0)
        if name == "setitem":
            tgt[i] = v
        elif name == "delitem":
            del tgt[i]
        elif name == "setslice":
            tgt[slice(*a["sl"])] = list(seq)
        elif name == "delslice":
            del tgt[slice(*a["sl"])]
        elif name == "append":
            tgt.append(v)
        elif name == "extend":
            tgt.extend(list(seq))
        elif name == "iadd":
            tgt += list(seq)
        elif name == "insert":
            tgt.insert(i, v)
        elif name == "remove":
            tgt.remove(v)
        elif name == "pop":
            tgt.pop(i)
        elif name == "clear":
            tgt.clear()
        elif name == "sort":
            tgt.sort()
        elif name == "reverse":
            tgt.reverse()
        elif name == "imul":
            tgt *= a.get("n", 2)
    elif kind == "set":
        other = set(seq)
        if name == "add":
            tgt.add(v)
        elif name == "remove":
            tgt.remove(v)
        elif name == "discard":
            tgt.discard(v)
        elif name == "pop":
            if is_model:
                raise RuntimeError("pop handled by caller")
            return tgt.pop()
        elif name == "clear":
            tgt.clear()
        elif name in ("update", "intersection_update", "difference_update", "symmetric_difference_update"):
            getattr(tgt, name)(list(seq) if name == "update" else other)
        elif name == "ior":
            tgt |= other
        elif name == "iand":
            tgt &= other
        elif name == "ixor":
            tgt ^= other
        elif name == "isub":
            tgt -= other
    return None


def _raw(session, oid):
    from checks._c49_models import E

    row = session.connection().exec_driver_sql("select d, l, lp, s, x, y from c49_e where id = ?", (oid,)).fetchone()
    if row is None:
        return None
    d = json.loads(row[0]) if row[0] is not None else None
    l = json.loads(row[1]) if row[1] is not None else None  # noqa: E741
    lp = pickle.loads(row[2]) if row[2] is not None else None
    s = pickle.loads(row[3]) if row[3] is not None else None
    return {"d": d, "l": l, "lp": list(lp) if lp is not None else None, "s": set(s) if s is not None else None, "pt": (row[4], row[5])}


def _mem(obj):
    return {
        "d": dict(obj.d) if obj.d is not None else None,
        "l": list(obj.l) if obj.l is not None else None,
        "lp": list(obj.lp) if obj.lp is not None else None,
        "s": set(obj.s) if obj.s is not None else None,
        "pt": (obj.pt.x, obj.pt.y) if obj.pt is not None else (None, None),
    }


def _modelval(model):
    return {"d": model["d"], "l": model["l"], "lp": model["lp"], "s": model["s"], "pt": tuple(model["pt"])}


KNOWN_NOT_OVERRIDDEN = {("dict", "ior"): "C49/MutableDict.__ior__/not-tracked", ("list", "imul"): "C49/MutableList.__imul__/not-tracked"}


def check_history(case, ctx):
    from sqlalchemy.ext.mutable import Mutable, MutableComposite
    from sqlalchemy.orm import Session

    from checks._c49_models import Base, E, Point
    from vf.sautil import mem_engine

    eng = mem_engine()
    Base.metadata.create_all(eng)
    init = case["init"]
    model = {"d": dict(init["d"]), "l": list(init["l"]), "lp": list(init["lp"]), "s": set(init["s"]), "pt": tuple(init["pt"])}
    session = Session(eng)
    try:
        obj = E(id=1, d=dict(model["d"]), l=list(model["l"]), lp=list(model["lp"]), s=set(model["s"]), pt=Point(*model["pt"]))
        session.add(obj)
        session.commit()
        committed = _modelval({k: (v.copy() if hasattr(v, "copy") else v) for k, v in model.items()})
        flushed = dict(committed)
        detached = False
        reattach = "merge"
        boundaries = 0
        muts_since_boundary = 0
        segments_with_mut = 0
        coerced_then_mut = False
        last_was_replace = {}
        classes = set()
        for step, op in enumerate(case["ops"]):
            name = op[0]
            where = f"step {step} {op}"
            if name in SESSION_OPS:
                classes.add(name)
                if detached and name != "read":
                    # bring the unpickled copy back first: merge() (a new tracked copy) or add() (the unpickled object itself,
                    # whose Mutable values must have been re-linked to it by the unpickle listener)
                    if reattach == "add":
                        session.add(obj)
                    else:
                        obj = session.merge(obj)
                    detached = False
                if name in ("flush", "commit"):
                    getattr(session, name)()
                    raw = _raw(session, 1)
                    mv = _modelval(model)
                    if raw != mv:
                        bad = [k for k in mv if raw[k] != mv[k]]
                        raise Violation(f"C49/{bad[0]}/stored-value-differs-after-{name}", f"{where}: stored {raw} != model {mv}", observed=str(raw), expected=str(mv))
                    flushed = _modelval({k: (v.copy() if hasattr(v, "copy") else v) for k, v in model.items()})
                    if name == "commit":
                        committed = dict(flushed)
                elif name == "expire":
                    # expiring discards unflushed in-place changes (documented: pending changes of expired attributes are lost)
                    session.expire(obj)
                    model = {k: (v.copy() if hasattr(v, "copy") else v) for k, v in flushed.items()}
                elif name == "refresh":
                    session.refresh(obj)
                    model = {k: (v.copy() if hasattr(v, "copy") else v) for k, v in flushed.items()}
                elif name == "rollback":
                    session.rollback()
                    model = {k: (v.copy() if hasattr(v, "copy") else v) for k, v in committed.items()}
                    flushed = dict(committed)
                elif name == "pickle":
                    session.commit()
                    flushed = committed = _modelval({k: (v.copy() if hasattr(v, "copy") else v) for k, v in model.items()})
                    _ = _mem(obj)  # load everything so the pickled copy carries the values
                    session.close()
                    obj = pickle.loads(pickle.dumps(obj, op[1] if len(op) > 1 else 4))
                    session = Session(eng)
                    detached = True
                    reattach = op[2] if len(op) > 2 else "merge"
                    if reattach == "merge_noload":
                        # merge(load=False) accepts only a clean object: re-attach at once; the copy's Mutable values are linked to it by the
                        # "_sa_event_merge_wo_load" listener alone (no load / refresh event fires on this path)
                        obj = session.merge(obj, load=False)
                        detached = False
                        classes.add("merge-load-false")
                elif name == "reload":
                    session.commit()
                    flushed = committed = _modelval({k: (v.copy() if hasattr(v, "copy") else v) for k, v in model.items()})
                    session.close()
                    session = Session(eng)
                    obj = session.get(E, 1)
                if name != "read":
                    boundaries += 1
                    if muts_since_boundary:
                        segments_with_mut += 1
                    muts_since_boundary = 0
                mem = _mem(obj)
                mv = _modelval(model)
                if mem != mv:
                    bad = [k for k in mv if mem[k] != mv[k]]
                    raise Violation(f"C49/{bad[0]}/in-memory-value-differs-after-{name}", f"{where}: in-memory {mem} != model {mv}", observed=str(mem), expected=str(mv))
                for a in ("d", "l", "lp", "s"):
                    val = getattr(obj, a)
                    if val is not None and not isinstance(val, Mutable):
                        raise Violation(f"C49/{a}/not-a-tracking-mutable-after-{name}", f"{where}: attribute {a} is {type(val).__name__}")
                if obj.pt is not None and not isinstance(obj.pt, MutableComposite):
                    raise Violation(f"C49/pt/not-a-tracking-mutable-after-{name}", f"{where}: composite is {type(obj.pt).__name__}")
                continue
            # ---- mutation on attribute
            attr, kind, a = op[1], op[2], op[3]
            classes.add(f"{kind}.{name}")
            known_sig = KNOWN_NOT_OVERRIDDEN.get((kind, name))
            before = _modelval({k: (v.copy() if hasattr(v, "copy") else v) for k, v in model.items()})
            if name == "replace":
                new = a["value"]
                if kind == "dict":
                    newv = dict(new)
                elif kind == "list":
                    newv = list(new)
                elif kind == "set":
                    newv = set(new)
                else:
                    newv = tuple(new)
                if kind == "pt":
                    obj.pt = Point(*newv)
                else:
                    setattr(obj, attr, newv.copy())
                model[attr] = newv
                last_was_replace[attr] = True
            elif kind == "pt":
                # in-place attribute set on the composite
                if obj.pt is None:
                    continue
                setattr(obj.pt, a["field"], a["v"])
                pt = list(model["pt"])
                pt["xy".index(a["field"])] = a["v"]
                model["pt"] = tuple(pt)
            else:
                tgt = getattr(obj, attr)
                mt = model[attr]
                if tgt is None or mt is None:
                    continue
                rexc = mexc = None
                popped = None
                try:
                    popped = _apply(kind, name, tgt, a, False)
                except (KeyError, IndexError, ValueError, TypeError) as e:
                    rexc = type(e).__name__
                try:
                    if kind == "set" and name == "pop":
                        if not mt:
                            raise KeyError("pop from an empty set")
                        if rexc is None:
                            mt.remove(popped)
                    else:
                        _apply(kind, name, mt, a, True)
                except (KeyError, IndexError, ValueError, TypeError) as e:
                    mexc = type(e).__name__
                if rexc != mexc:
                    raise Violation(f"C49/{kind}.{name}/exception", f"{where}: mutable raised {rexc}, builtin raised {mexc}", observed=rexc, expected=mexc)
                if last_was_replace.get(attr) and rexc is None:
                    coerced_then_mut = True
                last_was_replace[attr] = False
            mv = _modelval(model)
            changed = mv != flushed
            effective = mv != before
            if effective:
                muts_since_boundary += 1
            # dirty flag first: reading other (expired) attributes below may autoflush
            if effective and not detached and obj not in session.dirty:
                sig = known_sig or f"C49/{kind}.{name}/not-marked-dirty"
                raise Violation(sig, f"{where}: value changed in place ({before[attr]} -> {mv[attr]}) but the parent is not in session.dirty", observed="not dirty", expected="dirty")
            mem = _mem(obj)
            if mem != mv:
                bad = [k for k in mv if mem[k] != mv[k]]
                raise Violation(f"C49/{kind}.{name}/in-memory-value", f"{where}: in-memory {mem[bad[0]]} != model {mv[bad[0]]}", observed=str(mem), expected=str(mv))
            if _modelval(model) != flushed and obj in session.dirty:
                pass
            else:
                # an autoflush triggered by the reads above wrote the change: the stored value must then be the model
                if not detached:
                    raw = _raw(session, 1)
                    if raw == mv:
                        flushed = _modelval({k: (v.copy() if hasattr(v, "copy") else v) for k, v in model.items()})
        # final: commit and reload in a fresh session
        if detached:
            if reattach == "add":
                session.add(obj)
            else:
                obj = session.merge(obj)
        session.commit()
        session.close()
        session = Session(eng)
        obj = session.get(E, 1)
        mem = _mem(obj)
        mv = _modelval(model)
        nt = (segments_with_mut + (1 if muts_since_boundary else 0)) >= 2 or coerced_then_mut
        ctx.note(case, nt, classes=classes)
        if mem != mv:
            bad = [k for k in mv if mem[k] != mv[k]]
            raise Violation(f"C49/{bad[0]}/lost-after-final-commit-and-reload", f"reloaded {mem} != model {mv}", observed=str(mem), expected=str(mv))
    finally:
        session.close()
        eng.dispose()


_v = st.one_of(st.integers(0, 9), st.sampled_from(["a", "b", ""]))
_key = st.integers(0, 4).map(lambda i: f"k{i}")
_seq = st.lists(st.integers(0, 6), max_size=4)
_slv = st.one_of(st.none(), st.integers(-5, 5))


@st.composite
def _op(draw, excluded=True):
    grp = draw(st.sampled_from(["sess", "sess", "sess", "d", "l", "lp", "s", "pt", "d", "l", "s"]))
    if grp == "sess":
        name = draw(st.sampled_from(SESSION_OPS))
        return [name, draw(st.integers(2, 5)), draw(st.sampled_from(["merge", "add", "add", "merge_noload"]))] if name == "pickle" else [name]
    if grp == "d":
        name = draw(st.sampled_from(DICT_OPS + ["replace"]))
        if name == "replace":
            return [name, "d", "dict", {"value": draw(st.dictionaries(_key, st.integers(0, 9), max_size=3))}]
        return [name, "d", "dict", {"k": draw(_key), "v": draw(st.integers(0, 9)), "seq": draw(_seq)}]
    if grp in ("l", "lp"):
        name = draw(st.sampled_from(LIST_OPS + ["replace"]))
        if name == "replace":
            return [name, grp, "list", {"value": draw(_seq)}]
        return [name, grp, "list", {"i": draw(st.integers(-4, 4)), "v": draw(st.integers(0, 6)), "seq": draw(_seq),
                                      "sl": [draw(_slv), draw(_slv), draw(st.sampled_from([None, None, 1, 2, -1]))], "n": draw(st.integers(0, 2))}]
    if grp == "s":
        name = draw(st.sampled_from(SET_OPS + ["replace"]))
        if name == "replace":
            return [name, "s", "set", {"value": draw(_seq)}]
        return [name, "s", "set", {"v": draw(st.integers(0, 6)), "seq": draw(_seq)}]
    name = draw(st.sampled_from(["setfield", "setfield", "replace"]))
    if name == "replace":
        return [name, "pt", "pt", {"value": [draw(st.integers(0, 9)), draw(st.integers(0, 9))]}]
    return [name, "pt", "pt", {"field": draw(st.sampled_from(["x", "y"])), "v": draw(st.integers(0, 9))}]


@st.composite
def _histories(draw):
    init = {"d": draw(st.dictionaries(_key, st.integers(0, 9), max_size=3)), "l": draw(_seq), "lp": draw(_seq), "s": draw(_seq),
            "pt": [draw(st.integers(0, 9)), draw(st.integers(0, 9))]}
    return {"init": init, "ops": draw(st.lists(_op(), min_size=5, max_size=30))}


def subs(tier):
    return [Generated("history", check_history, strategy=_histories(), quick=1600, thorough=60000)]
