"""Helpers for C42 (owned by the C42 author): generated inheritance hierarchies.

``normalize(raw)`` turns drawn data into an effective hierarchy config that is
valid by construction; ``get_built(cfg)`` maps it in a throw-away
``registry()`` (bounded per-process LRU keyed by the canonical config,
``registry.dispose()`` on eviction, never ``clear_mappers()``).

Mapping styles used are the documented ones
(doc/build/orm/inheritance.rst):
  * single / joined / mixed: Declarative with ``__tablename__`` present or
    omitted per subclass, ``polymorphic_on`` on the base only (column object,
    attribute name, or CASE expression), ``polymorphic_identity`` per class or
    ``polymorphic_abstract=True``, sibling single-table columns of the same
    name via ``mapped_column(use_existing_column=True)``,
    ``polymorphic_load='inline'|'selectin'`` on subclasses;
  * concrete: "classical" mapping with explicit ``polymorphic_union`` --
    base with own table + ``with_polymorphic=('*', pjoin)``, abstract base
    mapped directly to the pjoin, or plain non-polymorphic base; an
    intermediate class may carry its own pjoin over its subtree.
"""
from __future__ import annotations

import warnings
from collections import OrderedDict

from vf.api import canon

MAX_DEPTH = 3
MAX_WIDTH = 3
MAX_CLASSES = 8
COL_POOL = ["x", "y", "z", "s", "t", "w"]  # s*, t* are strings, the rest integers
KINDS = ["single", "joined", "mixed", "concrete"]


def col_is_str(name: str) -> bool:
    return name[0] in "st"


def ident(cfg, i):
    return f"k{i}" if cfg["disc"] == "str" else 10 + i


def rawcode(cfg, i):
    """stored discriminator code when polymorphic_on is a CASE expression"""
    return f"r{i}" if cfg["disc"] == "str" else 100 + 7 * i


# ----------------------------------------------------------------- normalize
def normalize(raw, pinned=False):
    """effective hierarchy config (valid by construction) from drawn data.

    cfg["excluded"] lists reasons for which drawn columns were dropped to stay
    clear of a listed known finding (bypassed when ``pinned``)."""
    kind = raw["kind"]
    disc = raw["disc"]
    concrete = kind == "concrete"
    on = "col" if concrete else raw["on"]
    croot = raw.get("croot", "table") if concrete else None
    rc = raw["classes"][:MAX_CLASSES]
    if croot == "abstract_doc" and not pinned:
        croot = "abstract"
    if concrete and len(rc) == 1:
        croot = "plain"
    abstract_root = concrete and croot in ("abstract", "abstract_doc") and len(rc) > 1
    classes = []
    depth = []
    nchild = []
    # pass 1: tree, tables
    for i, c in enumerate(rc):
        if i == 0:
            parent = None
            d = 0
        else:
            cand = [j for j in range(i) if depth[j] < MAX_DEPTH and nchild[j] < MAX_WIDTH]
            parent = cand[c["p"] % len(cand)]
            d = depth[parent] + 1
            nchild[parent] += 1
        depth.append(d)
        nchild.append(0)
        if concrete:
            table = not (i == 0 and abstract_root)
        elif i == 0 or kind == "joined":
            table = True
        elif kind == "single":
            table = False
        else:
            table = bool(c.get("own"))
        classes.append({"parent": parent, "cols": [], "table": table})
    n = len(classes)
    anc = [_anc_of(classes, i) for i in range(n)]  # nearest first
    home = []
    for i in range(n):
        h = i
        if not classes[i]["table"]:
            h = next((j for j in anc[i] if classes[j]["table"]), 0)
        home.append(h)
    # pass 2: columns
    excluded = []
    for i, c in enumerate(rc):
        # names unique along the root->class path (siblings/cousins may share)
        taken = {"id", "b0", "type", "code", "ref_id", "dtwin"}
        for j in anc[i]:
            taken.update(classes[j]["cols"])
        if not concrete:
            # two different tables, one joined below the other, must not both carry the
            # name (the mapper refuses: "Implicitly combining column ...")
            for k in range(i):
                hk = home[k]
                if hk != home[i] and (hk in anc[home[i]] or home[i] in anc[hk]):
                    taken.update(classes[k]["cols"])
        cols = []
        for name in c["cols"]:
            if name in COL_POOL and name not in taken and name not in cols:
                cols.append(name)
        if cols and not pinned and late_sibling_trigger(classes, anc, home, i):
            excluded.append("late-single-sibling-column")
            cols = []
        classes[i]["cols"] = cols
    for i, (c, r) in enumerate(zip(classes, rc)):
        leaf = nchild[i] == 0
        if concrete:
            c["abstract"] = i == 0 and abstract_root
            c["load"] = None
            if i == 0:
                c["poly"] = (croot != "plain") and not leaf
            else:
                c["poly"] = bool(r.get("poly")) and not leaf
        else:
            c["abstract"] = bool(r.get("abs"))
            c["load"] = r.get("load") if i > 0 else None
            c["poly"] = False
    cfg = {
        "kind": kind,
        "disc": disc,
        "on": on,
        "croot": croot,
        "ref": bool(raw.get("ref")) and not concrete,
        "wpm": bool(raw.get("wpm")) and not concrete and n > 1,  # legacy mapper-level with_polymorphic="*" on the base
        "classes": classes,
        "excluded": excluded,
    }
    return cfg


def late_sibling_trigger(classes, anc, home, i):
    """known finding: a single-table class i adds its columns to table H after a joined
    subclass J of H's class was declared; a class declared later below J (and not below
    i) then also maps i's columns.  True if class i with columns would set this up."""
    if classes[i]["table"]:
        return False
    h = home[i]
    for k in range(i + 1, len(classes)):
        if i in anc[k] or h not in anc[k]:
            continue
        chain = [k] + anc[k]  # k, parent, ..., root
        below_h = chain[: chain.index(h)]  # classes strictly below h on the way to k, nearest-to-k first
        tabled = [j for j in below_h if classes[j]["table"]]
        if not tabled:
            continue
        first = tabled[-1]  # first table-owning class below h
        if first != k and first < i:
            return True
    return False


def _anc_of(classes, i):
    out = []
    j = classes[i]["parent"]
    while j is not None:
        out.append(j)
        j = classes[j]["parent"]
    return out


def shape(cfg):
    """derived tree facts: children, depth, path, descendants (incl. self), home table index"""
    cl = cfg["classes"]
    n = len(cl)
    children = [[] for _ in range(n)]
    depth = [0] * n
    path = [[] for _ in range(n)]
    for i, c in enumerate(cl):
        p = c["parent"]
        if p is None:
            path[i] = [0]
        else:
            children[p].append(i)
            depth[i] = depth[p] + 1
            path[i] = path[p] + [i]
    desc = [[] for _ in range(n)]
    for i in range(n):
        for j in path[i]:
            desc[j].append(i)
    home = [0] * n
    for i, c in enumerate(cl):
        j = i
        while not cl[j]["table"] and cl[j]["parent"] is not None:
            j = cl[j]["parent"]
        home[i] = j
    return {"children": children, "depth": depth, "path": path, "desc": desc, "home": home, "n": n}


# ----------------------------------------------------------------- build
class Built:
    def __init__(self):
        self.registry = None
        self.metadata = None
        self.classes = []
        self.tables = {}
        self.ref_cls = None
        self.ref_table = None
        self.pjoins = {}
        self.warnings = []
        self.cfg = None
        self.shape = None


def _build(cfg) -> Built:
    from sqlalchemy import Column, ForeignKey, Integer, String, Table, case
    from sqlalchemy.orm import mapped_column, polymorphic_union, registry, relationship

    b = Built()
    b.cfg = cfg
    sh = b.shape = shape(cfg)
    reg = b.registry = registry()
    md = b.metadata = reg.metadata
    cl = cfg["classes"]
    n = len(cl)
    disc_t = String if cfg["disc"] == "str" else Integer

    def ctype(name):
        return String if col_is_str(name) else Integer

    if cfg["kind"] == "concrete":
        pyclasses = []
        for i, c in enumerate(cl):
            bases = (object,) if i == 0 else (pyclasses[c["parent"]],)
            pyclasses.append(type(f"C{i}", bases, {}))
        for i, c in enumerate(cl):
            if not c["table"]:
                continue
            cols = [Column("id", Integer, primary_key=True), Column("b0", Integer)]
            for j in sh["path"][i]:
                for name in cl[j]["cols"]:
                    cols.append(Column(name, ctype(name)))
            b.tables[i] = Table(f"t{i}", md, *cols)
        for i, c in enumerate(cl):
            if c["poly"]:
                b.pjoins[i] = polymorphic_union(
                    OrderedDict((ident(cfg, k), b.tables[k]) for k in sh["desc"][i] if k in b.tables), "type", f"pjoin{i}"
                )
        for i, c in enumerate(cl):
            kw = {}
            if i == 0:
                if c["abstract"]:
                    pj = b.pjoins[0]
                    # "abstract_doc" is the literal inheritance.rst semi-classical example (with_polymorphic="*"); it
                    # raises on select() and is only reachable from a pinned replay
                    wp = "*" if cfg["croot"] == "abstract_doc" else ("*", pj)
                    reg.map_imperatively(pyclasses[0], pj, polymorphic_on=pj.c.type, with_polymorphic=wp)
                    continue
                if c["poly"]:
                    pj = b.pjoins[0]
                    kw.update(with_polymorphic=("*", pj), polymorphic_on=pj.c.type)
                kw["polymorphic_identity"] = ident(cfg, 0)
                reg.map_imperatively(pyclasses[0], b.tables[0], **kw)
                continue
            if c["poly"]:
                pj = b.pjoins[i]
                kw.update(with_polymorphic=("*", pj), polymorphic_on=pj.c.type)
            reg.map_imperatively(
                pyclasses[i], b.tables[i], inherits=pyclasses[c["parent"]], concrete=True, polymorphic_identity=ident(cfg, i), **kw
            )
        b.classes = pyclasses
    else:
        Base = reg.generate_base()
        if cfg["ref"]:
            b.ref_cls = type(
                "Ref",
                (Base,),
                {"__tablename__": "ref", "id": mapped_column(Integer, primary_key=True), "items": relationship("C0", order_by="C0.id")},
            )
        for i, c in enumerate(cl):
            ns = {}
            margs = {}
            if i == 0:
                ns["__tablename__"] = "t0"
                ns["id"] = mapped_column(Integer, primary_key=True)
                ns["b0"] = mapped_column(Integer)
                if cfg["ref"]:
                    ns["ref_id"] = mapped_column(ForeignKey("ref.id"), nullable=True)
                # a second base-table column carrying the polymorphic identity, *not* the mapper's polymorphic_on:
                # candidate for with_polymorphic(..., polymorphic_on=<explicit column>)
                ns["dtwin"] = mapped_column(disc_t, nullable=True)
                if cfg["on"] == "expr":
                    code = mapped_column(disc_t)
                    ns["code"] = code
                    margs["polymorphic_on"] = case(*[(code == rawcode(cfg, k), ident(cfg, k)) for k in range(n) if not cl[k]["abstract"]] or [(code == rawcode(cfg, 0), ident(cfg, 0))])
                else:
                    tcol = mapped_column(disc_t)
                    ns["type"] = tcol
                    margs["polymorphic_on"] = tcol if cfg["on"] == "col" else "type"
                for name in c["cols"]:
                    ns[name] = mapped_column(ctype(name), nullable=True)
                if cfg["wpm"]:
                    margs["with_polymorphic"] = "*"
                bases = (Base,)
            else:
                if c["table"]:
                    ns["__tablename__"] = f"t{i}"
                    ns["id"] = mapped_column(ForeignKey(f"t{sh['home'][c['parent']]}.id"), primary_key=True)
                    for name in c["cols"]:
                        ns[name] = mapped_column(ctype(name), nullable=True)
                else:
                    for name in c["cols"]:
                        ns[name] = mapped_column(ctype(name), nullable=True, use_existing_column=True)
                if c["load"]:
                    margs["polymorphic_load"] = c["load"]
                bases = (b.classes[c["parent"]],)
            if c["abstract"]:
                margs["polymorphic_abstract"] = True
            else:
                margs["polymorphic_identity"] = ident(cfg, i)
            ns["__mapper_args__"] = margs
            b.classes.append(type(f"C{i}", bases, ns))
        for i, c in enumerate(cl):
            if c["table"]:
                b.tables[i] = b.classes[i].__table__
        if b.ref_cls is not None:
            b.ref_table = b.ref_cls.__table__
    reg.configure()
    return b


_CACHE: "OrderedDict[str, Built]" = OrderedDict()
CACHE_SIZE = 12


def get_built(cfg) -> Built:
    key = canon(cfg)
    b = _CACHE.get(key)
    if b is not None:
        _CACHE.move_to_end(key)
        return b
    with warnings.catch_warnings(record=True) as w:
        warnings.simplefilter("always")
        b = _build(cfg)
    b.warnings = [f"{x.category.__name__}: {x.message}" for x in w]
    _CACHE[key] = b
    while len(_CACHE) > CACHE_SIZE:
        _, old = _CACHE.popitem(last=False)
        old.registry.dispose()
    return b


# ----------------------------------------------------------------- data
def attr_names(cfg, sh, i):
    """column attribute names an instance of class i is expected to carry"""
    names = ["id", "b0"]
    if cfg["kind"] != "concrete":
        names.append("code" if cfg["on"] == "expr" else "type")
        names.append("dtwin")
        if cfg["ref"]:
            names.append("ref_id")
    for j in sh["path"][i]:
        names.extend(cfg["classes"][j]["cols"])
    return names


def all_col_names(cfg):
    s = set()
    for c in cfg["classes"]:
        s.update(c["cols"])
    return s


def insert_rows(conn, b: Built, rows, nrefs):
    """raw Core inserts of the generated rows (never through the ORM)"""
    cfg, sh = b.cfg, b.shape
    cl = cfg["classes"]
    if b.ref_table is not None:
        for r in range(nrefs):
            conn.execute(b.ref_table.insert(), {"id": r + 1})
    for row in rows:
        i = row["cls"]
        vals = row["vals"]
        if cfg["kind"] == "concrete":
            d = {"id": row["id"], "b0": row["b0"]}
            for j in sh["path"][i]:
                for name in cl[j]["cols"]:
                    d[name] = vals[name]
            conn.execute(b.tables[i].insert(), d)
            continue
        per_table = {}
        for j in sh["path"][i]:
            t = sh["home"][j]
            d = per_table.setdefault(t, {"id": row["id"]})
            for name in cl[j]["cols"]:
                d[name] = vals[name]
        root = per_table[0]
        root["b0"] = row["b0"]
        root["dtwin"] = ident(cfg, i)
        if cfg["on"] == "expr":
            root["code"] = rawcode(cfg, i)
        else:
            root["type"] = ident(cfg, i)
        if cfg["ref"]:
            root["ref_id"] = row["ref"]
        for t in sorted(per_table):
            conn.execute(b.tables[t].insert(), per_table[t])
