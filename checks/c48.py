"""C48 - pending changes survive the application dropping its references.

The harness plays the application: it holds objects only in ``run.held`` and
every operation runs inside a helper whose locals die on return.  Histories
interleave modifications with "drop these references", ``gc.collect()``,
queries whose results are thrown away, flush and commit.

Oracle
  * the rows after every flush (through the session's connection) and commit
    (through an independent connection) equal a plain-data model computed from
    the operations alone - references play no part in it;
  * after ``gc.collect()``: every pending / deleted / net-modified object is
    still alive and still in the session although nobody else references it;
    every object that was never touched since the last flush and is not
    reachable from a held or touched object is dead and its key is gone from
    ``session.identity_map`` (weak referencing).
"""
from __future__ import annotations

import gc
import weakref

from hypothesis import strategies as st

from vf.api import Generated, Violation

from . import _orm_sess as F

PROPERTY = "C48"
LEVEL = "exploration"
RULE = (
    "initial rows (1-3 parents, 0-4 children, 0-2 tags + links); history of 3-25 ops: hold(obj), add Parent/Child, set scalar, delete, re-parent via "
    "many-to-one or via the collection, toggle a many-to-many link, drop a drawn subset of / all harness references, gc.collect(), throw-away query, "
    "flush[, gc first], commit[, gc first], and 'fault': an attribute set while no transaction is begun that fails in the middle of the change event (autobegin=False -> documented "
    "InvalidRequestError; else a raising after_transaction_create listener), followed by begin() and the repeated assignment; autoflush x expire_on_commit x autobegin drawn. Non-trivial: at a gc point at least one object with pending state "
    "(new / deleted / net-modified) is referenced by nobody but the session (not held and not reachable from a held object); distinct = canonical JSON of the program"
)
ASSUMPTIONS = [
    "CPython reference counting + an explicit gc.collect() make collection deterministic; the harness keeps objects only in one dict and uses short-lived helper frames (no exceptions are raised on the paths that touch objects)",
    "with autoflush enabled every ORM SELECT the harness issues is modelled as a flush point; the harness looks objects up through session.identity_map / session.new first so that it knows when a SELECT is issued",
    "'touched' (any attribute event since the last flush, including both ends of a relationship change) is the conservative set the session may legitimately keep alive; only never-touched, unreachable objects are required to be released",
    "scalar columns, one-to-many / many-to-one / many-to-many collections; no mutable column types (C49), no rollback",
    "a child that was re-parented since the last flush is not deleted in that flush (the unit of work cancels the delete in favour of the new parent's collection change: cascade semantics); "
    "known finding excluded by construction: deleting an object that has pending attribute changes (pinned replay in findings/C48)",
    "trusted: raw sqlite3 observer connection; the plain-data model in checks/c48.py",
]

NAMES = ["a", "b", "c"]
RELS = {"parent": ("children", "tags", "owner"), "child": ("parent", "grandchildren"), "tag": ()}


class _ListenerFault(Exception):
    """raised by the harness' own after_transaction_create listener (a fault in the middle of an attribute change event)"""


def _try_set(obj, attr, val):
    """obj.attr = val; returns None or (exception class name, message) - nothing of the exception survives this frame"""
    try:
        setattr(obj, attr, val)
    except Exception as e:  # noqa: BLE001 - classified by the caller
        return (type(e).__name__, str(e))
    return None


class _Run:
    def __init__(self, ctx, fam, case):
        from sqlalchemy.orm import Session

        self.fam = fam
        self.case = case
        self.autoflush = case["cfg"]["autoflush"]
        self.eng = F.new_db(ctx, fam)
        self.rc = F.raw(self.eng)
        n_p = len(case["parents"])
        self.parent = {i + 1: [NAMES[p[0] % 3], p[1], p[2], None] for i, p in enumerate(case["parents"])}
        self.child = {i + 1: [None if c[0] is None else c[0] % n_p + 1, NAMES[c[1] % 3], c[2]] for i, c in enumerate(case["children"])}
        self.tag = {i + 1: [NAMES[i % 3]] for i in range(case["n_t"])}
        self.links = {(l[0] % n_p + 1, l[1] % case["n_t"] + 1) for l in case["links"]} if case["n_t"] else set()
        F.raw_insert(self.rc, "parent", [dict(id=k, name=v[0], x=v[1], y=v[2]) for k, v in self.parent.items()])
        F.raw_insert(self.rc, "child", [dict(id=k, parent_id=v[0], name=v[1], x=v[2]) for k, v in self.child.items()])
        F.raw_insert(self.rc, "tag", [dict(id=k, name=v[0]) for k, v in self.tag.items()])
        F.raw_insert(self.rc, "parent_tag", [dict(parent_id=a, tag_id=b) for a, b in sorted(self.links)])
        self.autobegin = case["cfg"].get("autobegin", True)
        self.sess = Session(self.eng, autoflush=self.autoflush, expire_on_commit=case["cfg"]["eoc"], autobegin=self.autobegin)
        self.need_begin = not self.autobegin  # autobegin=False: the application begins every transaction itself
        self.armed = False
        if self.autobegin:
            from sqlalchemy import event

            def _after_transaction_create(session, transaction, _run=self):
                if _run.armed:
                    _run.armed = False
                    raise _ListenerFault()

            event.listen(self.sess, "after_transaction_create", _after_transaction_create)
        self.held = {}  # ident -> object: THE ONLY place where the harness keeps mapped objects
        self.wr = {}  # ident -> [weakref, ...] every incarnation the harness ever saw
        self.new = set()
        self.deleted = set()
        self.touched = set()
        self.next_id = {"parent": len(self.parent) + 1, "child": len(self.child) + 1}
        self.classes = set()
        self.nontrivial = False
        self.excluded = []
        self.leak_trigger = False
        self.stale_parent = set()  # children whose in-memory parent was deleted and which have not been expired since
        self._mark_flushed()

    # ------------------------------------------------------------ model
    def table(self, kind):
        return getattr(self, kind)

    def _mark_flushed(self):
        self.flushed = {"parent": {k: list(v) for k, v in self.parent.items()}, "child": {k: list(v) for k, v in self.child.items()},
                        "tag": {k: list(v) for k, v in self.tag.items()}, "links": set(self.links)}
        # what the session's own objects say (direct changes only; the FK nullification that a parent delete
        # performs inside flush is *not* a pending change on the child object before the flush)
        self.direct = {"parent": {k: list(v) for k, v in self.parent.items()}, "child": {k: list(v) for k, v in self.child.items()}}
        self.new.clear()
        self.deleted.clear()
        self.touched.clear()

    def model_snapshot(self):
        return {
            "parent": sorted((k, v[0], v[1], v[2], v[3]) for k, v in self.parent.items()),
            "child": sorted(((k, v[0], v[1], v[2]) for k, v in self.child.items()), key=lambda r: r[0]),
            "tag": sorted((k, v[0]) for k, v in self.tag.items()),
            "parent_tag": sorted(self.links),
        }

    def netmod(self):
        out = set()
        for kind in ("parent", "child"):
            for k, v in self.direct[kind].items():
                if (kind, k) not in self.new and (kind, k) not in self.deleted and self.flushed[kind].get(k) != v:
                    out.add((kind, k))
        for pid in self.parent:
            if {l for l in self.links if l[0] == pid} != {l for l in self.flushed["links"] if l[0] == pid} and ("parent", pid) not in self.new:
                out.add(("parent", pid))
        return out

    def live(self, kind):
        return sorted(k for k in self.table(kind) if (kind, k) not in self.deleted)

    def sql_issued(self):
        """the harness is about to run an ORM SELECT: an autoflush point"""
        if self.autoflush and (self.new or self.deleted or self.touched):
            self.classes.add("autoflush-point")
            self._apply_deletes()
            self._mark_flushed()

    def _apply_deletes(self):
        for kind, k in sorted(self.deleted):
            self.table(kind).pop(k, None)

    # ------------------------------------------------------------ object access (never retains)
    def cls(self, kind):
        return self.fam.classes[kind]

    def _register(self, ident, obj):
        lst = self.wr.setdefault(ident, [])
        if not any(w() is obj for w in lst):
            lst.append(weakref.ref(obj))

    def obtain(self, ident):
        from sqlalchemy import select
        from sqlalchemy.orm.util import identity_key

        kind, k = ident
        if ident in self.held:
            return self.held[ident]
        if ident in self.new:
            for o in self.sess.new:
                if type(o) is self.cls(kind) and o.__dict__.get("id") == k:
                    return o
            raise Violation("C48/pending-object-lost", f"pending {kind}#{k} is not in session.new any more (harness references: none)")
        o = self.sess.identity_map.get(identity_key(self.cls(kind), k))
        if o is None:
            self.sql_issued()
            cls = self.cls(kind)
            o = self.sess.scalars(select(cls).where(cls.id == k)).one_or_none()
            if o is None:
                raise Violation("C48/row-missing-on-reload", f"{kind}#{k} is neither in the identity map nor in the database (model has the row)")
        self._register(ident, o)
        return o

    def alive(self, ident):
        return any(w() is not None for w in self.wr.get(ident, ()))

    def _ident_of(self, o):
        from sqlalchemy import inspect

        kind = type(o).__name__.lower()
        insp = inspect(o)
        return (kind, insp.identity[0] if insp.identity else o.__dict__.get("id"))

    def closure(self, roots):
        """identities reachable from the given identities through attributes that are loaded right now (or their pending history)"""
        from sqlalchemy import inspect

        seen = set()
        stack = []
        for ident in roots:
            if ident in self.held:
                stack.append(self.held[ident])
            else:
                for w in self.wr.get(ident, ()):
                    o = w()
                    if o is not None:
                        stack.append(o)
                o = None
        while stack:
            o = stack.pop()
            kind = type(o).__name__.lower()
            if kind not in RELS:
                continue
            ident = self._ident_of(o)
            if ident in seen:
                continue
            seen.add(ident)
            insp = inspect(o)
            for rel in RELS[kind]:
                v = o.__dict__.get(rel)
                if isinstance(v, list):
                    stack.extend(v)
                elif v is not None:
                    stack.append(v)
                # a pending relationship change keeps the replaced / removed objects in the attribute history (no SQL: passive)
                h = insp.attrs[rel].history
                for part in (h.added, h.unchanged, h.deleted):
                    for x in part or ():
                        if x is not None:
                            stack.append(x)
            v = h = insp = None
        o = None
        return seen | set(roots)

    # ------------------------------------------------------------ checks
    def check_liveness(self, where):
        from sqlalchemy.orm.util import identity_key

        gc.collect()
        pending = set(self.new) | set(self.deleted) | self.netmod()
        held_reach = self.closure(list(self.held))
        orphaned = sorted(i for i in pending if i not in held_reach)
        if orphaned:
            self.nontrivial = True
            self.classes.add("pending-unreferenced-at-gc")
        for ident in sorted(pending):
            kind, k = ident
            state = "pending" if ident in self.new else ("deleted" if ident in self.deleted else "modified")
            if ident in self.wr and not self.alive(ident):
                raise Violation(f"C48/strong-ref/{state}-object-collected", f"{where}: {state} {kind}#{k} was garbage collected before the flush (held by harness: {ident in self.held})")
            if ident not in self.new:
                if identity_key(self.cls(kind), k) not in self.sess.identity_map:
                    raise Violation(f"C48/strong-ref/{state}-object-left-identity-map", f"{where}: {state} {kind}#{k} is not in session.identity_map")
        keep = self.closure(list(self.held) + sorted(self.touched | pending))
        released = 0
        for ident in sorted(self.wr):
            if ident in keep:
                continue
            kind, k = ident
            if self.alive(ident):
                if self.leak_trigger:
                    raise Violation("C48/weak-ref/kept-alive-through-deleted-object-strong-ref",
                                    f"{where}: {kind}#{k} is unmodified and unreferenced, but stays alive after gc.collect(): an object that had pending changes when it was "
                                    f"deleted keeps InstanceState._strong_obj after the flush (expire_on_commit={self.case['cfg']['eoc']}) and is reachable from the "
                                    f"identity map through the parent tracking of its former children")
                raise Violation("C48/weak-ref/unreferenced-clean-object-kept-alive", f"{where}: {kind}#{k} is unmodified, unreferenced and unreachable from any held/touched object, yet still alive after gc.collect()")
            if identity_key(self.cls(kind), k) in self.sess.identity_map:
                raise Violation("C48/weak-ref/dead-object-key-in-identity-map", f"{where}: {kind}#{k} was collected but its key is still in session.identity_map")
            released += 1
        if released:
            self.classes.add("clean-object-released")
        n_im = len(self.sess.identity_map)
        persistent_keep = [i for i in keep if i not in self.new]
        if n_im > len(persistent_keep):
            raise Violation("C48/weak-ref/identity-map-larger-than-referenced", f"{where}: len(identity_map)={n_im} > {len(persistent_keep)} identities that are referenced or dirty")

    def check_db(self, snap, where):
        exp = self.model_snapshot()
        got = {t: [tuple(r) for r in snap[t]] for t in exp}
        for t in exp:
            if sorted(got[t]) != sorted(exp[t]):
                lost = "lost-change" if self.classes & {"pending-unreferenced-at-gc"} else "db-mismatch"
                raise Violation(f"C48/{where}/{t}/{lost}", f"{where}: table {t} is {sorted(got[t])}, model {sorted(exp[t])}", observed=sorted(got[t]), expected=sorted(exp[t]))

    # ------------------------------------------------------------ operations
    def op_hold(self, kind, idx):
        ids = self.live(kind)
        if not ids:
            return
        ident = (kind, ids[idx % len(ids)])
        self.held[ident] = self.obtain(ident)
        self.classes.add("hold")

    def op_add(self, kind, a, b, c):
        k = self.next_id[kind]
        self.next_id[kind] += 1
        ident = (kind, k)
        if kind == "parent":
            o = self.fam.Parent(id=k, name=NAMES[a % 3], x=b, y=c)
            self.parent[k] = [NAMES[a % 3], b, c, None]
            self.direct["parent"][k] = list(self.parent[k])
        else:
            o = self.fam.Child(id=k, name=NAMES[a % 3], x=b)
            self.child[k] = [None, NAMES[a % 3], b]
            self.direct["child"][k] = list(self.child[k])
        self.sess.add(o)
        self._register(ident, o)
        self.new.add(ident)
        self.touched.add(ident)
        if kind == "child" and c is not None:
            pids = self.live("parent")
            pid = pids[c % len(pids)] if pids else None
            if pid is not None:
                o.parent = self.obtain(("parent", pid))
                self.child[k][0] = pid
                self.direct["child"].setdefault(k, [None, NAMES[a % 3], b])[0] = pid
                self.touched.add(("parent", pid))
        if a % 2:
            self.held[ident] = o
        self.classes.add("add")

    def op_set(self, kind, idx, attr_i, v):
        ids = self.live(kind)
        if not ids:
            return
        k = ids[idx % len(ids)]
        attr, col = ([("name", 0), ("x", 1), ("y", 2)] if kind == "parent" else [("name", 1), ("x", 2), ("x", 2)])[attr_i % 3]
        val = NAMES[v % 3] if attr == "name" else v
        setattr(self.obtain((kind, k)), attr, val)
        self.table(kind)[k][col] = val
        self.direct[kind].setdefault(k, list(self.table(kind)[k]))[col] = val
        self.touched.add((kind, k))
        self.classes.add("set")

    def op_del(self, kind, idx):
        ids = [k for k in self.live(kind) if (kind, k) not in self.new]
        if not ids:
            return
        k = ids[idx % len(ids)]
        if kind == "parent" and any(row[0] == k and self.flushed["child"].get(ck, [None])[0] != k for ck, row in self.child.items()):
            # a child was attached to this parent since the last flush: what the delete does to that child's
            # foreign key is a cascade question (C39), not a referencing one
            self.classes.add("skip-delete-of-parent-with-new-children")
            return
        if kind == "child" and self.direct["child"][k][0] != self.flushed["child"].get(k, [None])[0]:
            # re-parented since the last flush: the new parent's pending collection change re-registers the child and cancels
            # the delete (unit of work 'cancel_delete'); which instruction wins is a cascade question, not a referencing one
            self.classes.add("skip-delete-of-reparented-child")
            return
        if (kind, k) in self.touched:
            if not self.case.get("pinned"):
                # known finding: an object that has pending changes when it is deleted keeps its strong self-reference after the
                # flush (expire_on_commit=False), which keeps its former children alive through their parent tracking
                self.excluded.append("delete of an object that has pending attribute changes (known finding: strong reference survives the flush)")
                return
            self.leak_trigger = True
        self.sess.delete(self.obtain((kind, k)))
        self.deleted.add((kind, k))
        self.touched.add((kind, k))
        if kind == "parent":
            for ck, row in self.child.items():
                if row[0] == k:
                    row[0] = None
                    self.touched.add(("child", ck))
                    self.stale_parent.add(ck)  # in memory the child keeps pointing at the deleted parent until it is expired
            self.links = {l for l in self.links if l[0] != k}
        self.classes.add("delete")

    def op_move(self, cidx, pidx, via_collection):
        cids, pids = self.live("child"), self.live("parent")
        if not cids:
            return
        ck = cids[cidx % len(cids)]
        pk = None if pidx is None or not pids else pids[pidx % len(pids)]
        old = self.child[ck][0]
        if ck in self.stale_parent:
            if not self.case.get("pinned"):
                # same known finding from the other side: the backref event lands on the already deleted parent, which becomes
                # strongly self-referenced again and is never released while it stays attached (expire_on_commit=False)
                self.excluded.append("relationship change on a child whose in-memory parent was deleted (known finding: strong reference on the deleted object)")
                return
            self.leak_trigger = True
        if via_collection and pk is not None:
            p = self.obtain(("parent", pk))
            if "children" not in p.__dict__ and ("parent", pk) not in self.new:
                self.sql_issued()  # lazy load of the collection
            coll = p.children
            c = self.obtain(("child", ck))
            if c not in coll:
                coll.append(c)
            elif old != pk:
                # the collection was just loaded from rows that do not show the child's own pending many-to-one change yet
                # (autoflush off): state the intent on the child
                c.parent = p
            self.classes.add("reparent-collection")
        else:
            c = self.obtain(("child", ck))
            # setting a many-to-one does not load the old value (no active_history): no SELECT here
            c.parent = None if pk is None else self.obtain(("parent", pk))
            self.classes.add("reparent-m2o")
        self.child[ck][0] = pk
        self.direct["child"].setdefault(ck, list(self.child[ck]))[0] = pk
        self.touched.add(("child", ck))
        for x in (old, pk):
            if x is not None:
                self.touched.add(("parent", x))

    def op_tag(self, pidx, tidx):
        pids, tids = self.live("parent"), sorted(self.tag)
        if not pids or not tids:
            return
        pk, tk = pids[pidx % len(pids)], tids[tidx % len(tids)]
        p = self.obtain(("parent", pk))
        if "tags" not in p.__dict__ and ("parent", pk) not in self.new:
            self.sql_issued()
        coll = p.tags
        t = self.obtain(("tag", tk))
        if (pk, tk) in self.links:
            if t in coll:
                coll.remove(t)
                self.links.discard((pk, tk))
        else:
            if t not in coll:
                coll.append(t)
                self.links.add((pk, tk))
        self.touched.add(("parent", pk))
        self.touched.add(("tag", tk))
        self.classes.add("m2m-toggle")

    def op_drop(self, mask):
        keys = sorted(self.held)
        for i, ident in enumerate(keys):
            if mask is None or mask >> (i % 8) & 1:
                del self.held[ident]
        self.classes.add("drop")

    def op_query(self, kind_i):
        from sqlalchemy import select

        kind = ["parent", "child", "tag"][kind_i % 3]
        cls = self.cls(kind)
        self.sql_issued()
        got = []
        for o in self.sess.scalars(select(cls).order_by(cls.id)).all():
            self._register((kind, o.id), o)
            got.append(o.id)
        o = None
        exp = sorted(self.table(kind)) if self.autoflush else sorted(self.flushed[kind])
        if got != exp:
            raise Violation("C48/query/ids", f"throw-away query on {kind} returned ids {got}, expected {exp} (autoflush={self.autoflush})", observed=got, expected=exp)
        self.classes.add("query")

    def ensure_begun(self):
        if self.need_begin:
            self.sess.begin()
            self.need_begin = False

    def op_fault(self, kind, idx, attr_i, v):
        """attribute change while no transaction is begun, with a fault in the middle of the change event: autobegin=False ->
        the documented InvalidRequestError; otherwise a raising after_transaction_create listener.  The application then begins
        (if needed) and repeats the assignment, which must be tracked like any other pending change."""
        from sqlalchemy.orm.util import identity_key

        ids = [k for k in self.live(kind) if (kind, k) not in self.new]
        no_txn = self.need_begin if not self.autobegin else not self.sess.in_transaction()
        cand = [k for k in ids if (kind, k) in self.held or self.sess.identity_map.get(identity_key(self.cls(kind), k)) is not None]
        if not no_txn or not cand or self.netmod() or self.new or self.deleted:
            self.classes.add("fault-not-applicable")
            self.ensure_begun()
            return self.op_set(kind, idx, attr_i, v)
        k = cand[idx % len(cand)]
        attr, col = ([("name", 0), ("x", 1), ("y", 2)] if kind == "parent" else [("name", 1), ("x", 2), ("x", 2)])[attr_i % 3]
        cur = self.table(kind)[k][col]
        val = NAMES[(NAMES.index(cur) + 1 + v % 2) % 3] if attr == "name" else (cur or 0) + 1 + v  # a net change
        if self.autobegin:
            self.armed = True
        err = _try_set(self.obtain((kind, k)), attr, val)
        self.armed = False
        if not self.autobegin:
            if err is None or err[0] != "InvalidRequestError" or "Autobegin is disabled" not in err[1]:
                raise Violation("C48/fault/set-without-transaction-did-not-raise", f"autobegin=False, no transaction: {kind}#{k}.{attr} = {val!r} gave {err}", observed=err, expected="InvalidRequestError: Autobegin is disabled")
            self.sess.begin()
            self.need_begin = False
            self.classes.add("fault-autobegin-disabled")
        else:
            if err is None or err[0] != "_ListenerFault":
                raise Violation("C48/fault/listener-not-reached", f"attribute set without a transaction did not run after_transaction_create: {err}", observed=err)
            self.classes.add("fault-listener-raises")
        err = _try_set(self.obtain((kind, k)), attr, val)
        if err is not None:
            raise Violation("C48/fault/repeated-set-failed", f"repeating {kind}#{k}.{attr} = {val!r} after the fault raised {err}", observed=err)
        self.table(kind)[k][col] = val
        self.direct[kind].setdefault(k, list(self.table(kind)[k]))[col] = val
        self.touched.add((kind, k))
        self.classes.add("fault-during-change-event")

    def op_flush(self, with_gc, commit):
        self.ensure_begun()
        if with_gc:
            self.check_liveness("gc before " + ("commit" if commit else "flush"))
        if commit:
            self.sess.commit()
            self.need_begin = not self.autobegin
            if self.case["cfg"]["eoc"]:
                self.stale_parent.clear()
        else:
            self.sess.flush()
        self._apply_deletes()
        self._mark_flushed()
        if commit:
            self.check_db(F.raw_snapshot(self.rc), "commit")
        else:
            self.check_db(F.session_snapshot(self.sess), "flush")
        self.classes.add("commit" if commit else "flush")
        if with_gc:
            self.check_liveness("gc after " + ("commit" if commit else "flush"))

    def go(self):
        for op in self.case["ops"]:
            k = op[0]
            if k not in ("fault", "drop", "gc"):
                self.ensure_begun()
            if k == "fault":
                self.op_fault(["parent", "child"][op[1] % 2], op[2], op[3], op[4])
            elif k == "hold":
                self.op_hold(["parent", "child", "tag"][op[1] % 3], op[2])
            elif k == "add":
                self.op_add(["parent", "child"][op[1] % 2], op[2], op[3], op[4])
            elif k == "set":
                self.op_set(["parent", "child"][op[1] % 2], op[2], op[3], op[4])
            elif k == "del":
                self.op_del(["parent", "child"][op[1] % 2], op[2])
            elif k == "move":
                self.op_move(op[1], op[2], bool(op[3]))
            elif k == "tag":
                self.op_tag(op[1], op[2])
            elif k == "drop":
                self.op_drop(op[1])
            elif k == "gc":
                self.check_liveness("gc")
                self.classes.add("gc")
            elif k == "q":
                self.op_query(op[1])
            elif k == "flush":
                self.op_flush(bool(op[1]), False)
            elif k == "commit":
                self.op_flush(bool(op[1]), True)
            else:
                raise AssertionError(op)
        # the application lets go of everything, collects, commits
        self.op_drop(None)
        self.op_flush(True, True)

    def close(self):
        self.held.clear()
        self.sess.close()
        self.rc.close()
        F.drop_db(self.eng)


def check(case, ctx):
    fam = F.family()
    run = _Run(ctx, fam, case)
    try:
        try:
            run.go()
        finally:
            for r in run.excluded:
                ctx.exclude(r)
            ctx.note(case, run.nontrivial, classes=run.classes)
    finally:
        run.close()


_v = st.integers(0, 3)
_i = st.integers(0, 5)
_opt = st.one_of(st.none(), st.integers(0, 3))


@st.composite
def _programs(draw):
    n_p = draw(st.integers(1, 3))
    case = {
        "cfg": {"autoflush": draw(st.booleans()), "eoc": draw(st.booleans()), "autobegin": draw(st.sampled_from([True, False, True, False, True]))},
        "parents": [[draw(st.integers(0, 2)), draw(_v), draw(_v)] for _ in range(n_p)],
        "children": [[draw(_opt), draw(st.integers(0, 2)), draw(_v)] for _ in range(draw(st.integers(0, 4)))],
        "n_t": draw(st.integers(0, 2)),
        "links": [[draw(st.integers(0, 2)), draw(st.integers(0, 1))] for _ in range(draw(st.integers(0, 2)))],
    }
    ops = []
    for _ in range(draw(st.integers(3, 25))):
        k = draw(st.sampled_from(["hold", "hold", "add", "add", "set", "set", "set", "set", "del", "move", "move", "tag", "drop", "drop", "dropall", "gc", "gc", "q", "flush", "commit", "fault", "FM", "FM"]))
        if k == "FM":
            # motif: keep an object, end the transaction, change it while no transaction is begun (fault + retry), let go of it, collect
            kind, idx = draw(st.integers(0, 1)), draw(_i)
            ops.append(["hold", kind, idx])
            ops.append(["commit", draw(st.integers(0, 1))])
            ops.append(["fault", kind, idx, draw(st.integers(0, 2)), draw(_v)])
            ops.append(["drop", None])
            if draw(st.booleans()):
                ops.append(["gc"])
        elif k == "fault":
            ops.append([k, draw(st.integers(0, 1)), draw(_i), draw(st.integers(0, 2)), draw(_v)])
        elif k == "hold":
            ops.append([k, draw(st.integers(0, 2)), draw(_i)])
        elif k == "add":
            ops.append([k, draw(st.integers(0, 1)), draw(st.integers(0, 5)), draw(_v), draw(_opt)])
        elif k == "set":
            ops.append([k, draw(st.integers(0, 1)), draw(_i), draw(st.integers(0, 2)), draw(_v)])
        elif k == "del":
            ops.append([k, draw(st.integers(0, 1)), draw(_i)])
        elif k == "move":
            ops.append([k, draw(_i), draw(_opt), draw(st.integers(0, 1))])
        elif k == "tag":
            ops.append([k, draw(_i), draw(st.integers(0, 1))])
        elif k == "drop":
            ops.append([k, draw(st.integers(1, 255))])
        elif k == "dropall":
            ops.append(["drop", None])
        elif k == "gc":
            ops.append([k])
        elif k == "q":
            ops.append([k, draw(st.integers(0, 2))])
        else:
            ops.append([k, draw(st.integers(0, 1))])
    case["ops"] = ops
    return case


def subs(tier):
    return [Generated("histories", check, strategy=_programs(), quick=1000, thorough=60000)]
