"""C39 - cascades follow their configured rules.

The cascade setting of the four forward relationships of the shared family
(Parent.children, Child.grandchildren, Parent.tags [many-to-many], Parent.owner
[many-to-one]) is part of the drawn configuration (any subset of the six
options; reverse sides keep the default "save-update, merge").  Histories are
split in epochs: each epoch starts from a fully loaded graph that equals the
database, applies operations (create, add, attach through either side, detach,
re-parent, delete, expunge; expire / refresh while nothing is pending) and ends
with flush + commit, after which everything is reloaded.

Oracle: a reachability model over the in-memory graph restricted to the edges
whose cascade contains the option in question:
  * session membership (absent / pending / persistent / marked deleted) of every
    object after every operation: add() and attaching through the *owning* side
    pull in the save-update closure (2.x: never from the backref side); delete()
    marks the delete closure; expunge() removes the expunge closure; a pending
    object removed from a delete-orphan relationship leaves the session;
  * expire()/refresh() expire exactly the refresh-expire closure;
  * after flush: exactly the expected rows exist (pending inserted, marked and
    orphaned rows and their delete closure gone), foreign keys / association
    rows follow the in-memory graph, children of a deleted parent without delete
    cascade are set to NULL;
  * raw-SQL invariant for relationships with delete + delete-orphan: no child
    row whose parent row is absent or whose foreign key is NULL.
"""
from __future__ import annotations

import warnings

from hypothesis import strategies as st

from vf.api import Generated, Violation

from . import _orm_sess as F

PROPERTY = "C39"
LEVEL = "exploration"
RULE = (
    "configuration = one cascade subset (of save-update, merge, expunge, delete, delete-orphan, refresh-expire) per forward relationship (children, grandchildren, tags, owner; "
    "half of the cases use one subset for all four); initial rows 0-1 owner, 1-2 parents, 0-3 children, 0-2 grandchildren, 0-2 tags; history of 1-3 epochs x 1-9 ops "
    "(new object, add, attach via either side of any of the 7 relationships, detach, delete, expunge, expire/refresh when nothing is pending) each ended by flush+commit+reload. "
    "Non-trivial: some relationship's configuration includes delete-orphan or lacks save-update, and within one epoch an object is re-parented or detached and re-attached before the flush; "
    "distinct = canonical JSON of the case"
)
ASSUMPTIONS = [
    "every relationship attribute of every object in the session is loaded at the start of an epoch, and the in-memory graph equals the database (commit + expire_all + reload after each flush); so cascades that only follow loaded attributes see the whole graph",
    "2.x semantics: save-update cascades only through the relationship that initiated the attribute event, never through its backref; add() does not traverse through objects that already are in the session; "
    "items removed from a collection since the last flush still take part in the save-update cascade of the ex-parent (documented in cascades.rst)",
    "single_parent relationships (tags / owner with delete-orphan) never get an object that the model knows to have another parent (would raise by design)",
    "delete() is only applied to persistent objects none of whose delete closure has unflushed relationship changes; nothing is attached to an object marked deleted",
    "foreign keys / association rows that point to or from an object outside the session are not judged (the unit of work warns and the outcome is unspecified)",
    "merge cascade is covered by C45 (cascade on/off); the raw orphan invariant is applied to relationships configured with both delete and delete-orphan (delete-orphan alone draws a configuration warning)",
    "known finding excluded by construction: a *pending* object moved in one step from one delete-orphan parent to another is expunged and not inserted (see findings/C39); such moves are generated as detach + attach",
]

OPTS = F.ALL_OPTS
KINDS = ["owner", "parent", "child", "grandchild", "tag", "note", "badge"]
RELS = {
    # name: (source kind, target kind, uselist, reverse name, foreign key: (table holding it, column) or None for m2m)
    "children": ("parent", "child", True, "parent"),
    "parent": ("child", "parent", False, "children"),
    "grandchildren": ("child", "grandchild", True, "child"),
    "child": ("grandchild", "child", False, "grandchildren"),
    "tags": ("parent", "tag", True, None),
    "owner": ("parent", "owner", False, "parents"),
    "parents": ("owner", "parent", True, "owner"),
    "notes": ("parent", "note", True, None),  # unidirectional one-to-many: the child has no relationship back
    "badges": ("owner", "badge", True, None),  # unidirectional one-to-many below the target of the many-to-one Parent.owner
}
UNI = {"notes": ("note", "parent", "parent_id"), "badges": ("badge", "owner", "owner_id")}  # rel -> (child kind, holder kind, fk column)
REL_NAMES = list(RELS)
BY_SRC = {k: [r for r, d in RELS.items() if d[0] == k] for k in KINDS}
IN_SESSION = ("P", "S", "D")


class Model:
    """reference model: states + symmetric in-memory graph + parent flags"""

    def __init__(self, cascades):
        self.casc = {r: set(cascades.get(r, ["save-update", "merge"])) for r in RELS}
        self.state = {}  # key -> T transient | P pending | S persistent in session | D marked deleted | X detached (row exists, not in session)
        self.rel = {}  # (key, relname) -> list of keys | key | None
        self.committed = {}
        self.hasparent = {}  # (key, relname) -> bool   (relname = the relationship through which the key is a member)
        self.orphaned_outside = set()
        self.removed_by = {}  # (item, relname) -> the object it was last removed from
        self.touched = set()  # objects that received a column change or any relationship event since the last flush (dirty)
        self.dirty = False  # any op since the epoch started

    def kind(self, key):
        return key[0]

    def new_object(self, key):
        self.state[key] = "T"
        for r in BY_SRC[key[0]]:
            self.rel[(key, r)] = [] if RELS[r][2] else None

    def insession(self, key):
        return self.state[key] in IN_SESSION

    def has(self, r, opt):
        return opt in self.casc[r]

    def members(self, key, r):
        v = self.rel[(key, r)]
        return list(v) if RELS[r][2] else ([v] if v is not None else [])

    def all_pending(self, key, r):
        """current members plus members removed since the last flush (history.deleted)"""
        cur = self.members(key, r)
        old = self.committed.get((key, r))
        if old is not None:
            old = list(old) if RELS[r][2] else [old]
            cur += [o for o in old if o not in cur and o in self.state]
        return cur

    # ---------------------------------------------------------------- orphans
    def is_orphan(self, x):
        optimistic = self.state[x] in ("S", "D", "X")
        for r, d in RELS.items():
            if d[1] == x[0] and self.has(r, "delete-orphan"):
                if self.hasparent.get((x, r), optimistic) is False:
                    return True
        return False

    # ---------------------------------------------------------------- closures
    def closure(self, start, opt, pending_too=False, halt_in_session=False):
        seen, out, stack = {start}, [], [start]
        while stack:
            k = stack.pop()
            for r in BY_SRC[k[0]]:
                if not self.has(r, opt):
                    continue
                items = self.all_pending(k, r) if pending_too else self.members(k, r)
                for it in items:
                    if it in seen:
                        continue
                    if halt_in_session and self.insession(it):
                        continue
                    if opt == "refresh-expire" and not self.has(r, "delete-orphan") and self.state[it] in ("T", "P"):
                        continue
                    seen.add(it)
                    out.append(it)
                    stack.append(it)
        return out

    def save_or_update(self, head):
        self.orphaned_outside.discard(head)
        self._attach(head)
        for k in self.closure(head, "save-update", pending_too=True, halt_in_session=True):
            self._attach(k)

    def _attach(self, k):
        s = self.state[k]
        if s == "T":
            self.state[k] = "P"
        elif s == "X":
            self.state[k] = "S"

    def expunge(self, head):
        for k in [head] + self.closure(head, "expunge"):
            s = self.state[k]
            if s == "P":
                self.state[k] = "T"
            elif s in ("S", "D"):
                self.state[k] = "X"

    def mark_deleted(self, head):
        for k in [head] + self.closure(head, "delete"):
            if self.state[k] in ("S", "X"):
                self.state[k] = "D"

    # ---------------------------------------------------------------- attribute events
    def _list_removed(self, owner, r, item):
        """collection remove event on owner.r for item (direct, or through the backref of a re-parenting)"""
        self.hasparent[(item, r)] = False
        self.removed_by[(item, r)] = owner
        if self.has(r, "delete-orphan") and self.is_orphan(item):
            if self.insession(owner) and self.state[item] == "P":
                self.expunge(item)  # pending orphan: leaves the session (with its expunge cascade)
            else:
                self.orphaned_outside.add(item)

    def _scalar_replaced(self, owner, r, old):
        """owner.r no longer refers to old (set event with an old value)"""
        if old is None:
            return
        self.hasparent[(old, r)] = False
        self.removed_by[(old, r)] = owner
        if self.insession(owner) and self.has(r, "delete-orphan") and self.state[old] == "P" and self.is_orphan(old):
            self.expunge(old)

    def link(self, r, src, dst):
        """src.r.append(dst) / src.r = dst, initiated on relationship r (only r itself cascades save-update; its backref does not)"""
        srck, dstk, uselist, rev = RELS[r]
        self.dirty = True
        self.touched |= {src, dst}  # attribute events make them dirty even when the net change is nil
        if rev is not None:
            o_ = self.rel[(dst, rev)] if uselist else self.rel[(src, r)]
            if o_ is not None:
                self.touched.add(o_)
        if uselist:
            if self.insession(src) and self.has(r, "save-update") and not self.insession(dst):
                self.save_or_update(dst)
            if rev is not None:
                old = self.rel[(dst, rev)]
                if old is not None and old != src:
                    self._scalar_replaced(dst, rev, old)
                    # re-parenting: dst leaves old.r and joins src.r in one step - it stays associated through r, so it is not
                    # an orphan at any point ("deleted at flush unless it has been re-associated")
                    self.rel[(old, r)].remove(dst)
                self.rel[(dst, rev)] = src
                self.hasparent[(src, rev)] = True
            self.rel[(src, r)].append(dst)
            self.hasparent[(dst, r)] = True
        else:
            old = self.rel[(src, r)]
            if self.insession(src) and self.has(r, "save-update") and not self.insession(dst):
                self.save_or_update(dst)
            self._scalar_replaced(src, r, old)
            if rev is not None:
                if old is not None:
                    # src moves from old.rev to dst.rev in one step: still associated through rev, never an orphan
                    self.rel[(old, rev)].remove(src)
                self.rel[(dst, rev)].append(src)
                self.hasparent[(src, rev)] = True
            self.rel[(src, r)] = dst
            self.hasparent[(dst, r)] = True

    def unlink(self, r, src, item):
        srck, dstk, uselist, rev = RELS[r]
        self.dirty = True
        self.touched |= {src, item}
        if uselist:
            self.rel[(src, r)].remove(item)
            self._list_removed(src, r, item)
            if rev is not None:
                self._scalar_replaced(item, rev, src)
                self.rel[(item, rev)] = None
        else:
            old = self.rel[(src, r)]
            self._scalar_replaced(src, r, old)
            if rev is not None:
                self.rel[(old, rev)].remove(src)
                self._list_removed(old, rev, src)
            self.rel[(src, r)] = None

    # ---------------------------------------------------------------- flush
    def flush(self):
        """returns (rows: kind -> {id: {fk col: value | '?'}}, links: set | None-marked) expected after the flush"""
        # pending orphans that were orphaned while their parent had no session are expunged; other pending objects are inserted
        for k, s in list(self.state.items()):
            if s == "P" and self.is_orphan(k) and k in self.orphaned_outside:
                self.state[k] = "T"
        doomed = set()
        marked = {k for k, s in self.state.items() if s == "D"}
        work = [k for k, s in self.state.items() if s == "D"]
        late = set()  # turned into a delete while the flush is already pre-processing (delete-orphan target of a deleted referrer)
        first = set()
        # persistent orphans: removed from a delete-orphan relationship and not re-attached
        for k, s in list(self.state.items()):
            if s == "S" and self.is_orphan(k):
                # an object with a reverse relationship is itself dirty and examined by the flush; a tag (no relationship back) is
                # only examined through the parent it was removed from, which must be part of the flush
                seen_by_flush = False
                for r, d in RELS.items():
                    if d[1] == k[0] and self.has(r, "delete-orphan") and self.hasparent.get((k, r), True) is False:
                        if d[3] is not None:
                            seen_by_flush = True  # its own reverse attribute changed: it is dirty and examined by the flush
                        else:
                            by = self.removed_by.get((k, r))
                            # one-to-many without reverse side: also the *deleted* ex-parent's flush examines what was removed from it
                            okst = ("S", "P", "D") if r in UNI else ("S", "P")
                            # ... and only sees what was in the collection at the last flush (attached and removed again since: no net history)
                            seen_by_flush = seen_by_flush or any(
                                x[0] == d[0] and sx in okst and k in (self.committed.get((x, r)) or []) and k not in self.members(x, r) for x, sx in self.state.items()
                            )
                if seen_by_flush:
                    work.append(k)
                    first.add(k)
        while work:
            k = work.pop()
            if k in doomed:
                continue
            doomed.add(k)
            # whatever is deleted takes its delete closure with it (persistent members that are part of the session)
            for c in self.closure(k, "delete"):
                if self.state[c] in ("S", "D") and c not in doomed:
                    work.append(c)
            # a many-to-one with delete-orphan: the referenced object loses its (single) parent when the referrer is deleted
            for r in BY_SRC[k[0]]:
                if not RELS[r][2] and self.has(r, "delete-orphan"):
                    for t in self.all_pending(k, r):
                        if self.state[t] in ("S", "D") and t not in doomed:
                            work.append(t)
                            late.add(t)
        nulled = set()  # (key, relname of the scalar side) foreign keys set to NULL because the parent row goes away
        for k in doomed:
            for r in BY_SRC[k[0]]:
                srck, dstk, uselist, rev = RELS[r]
                if uselist and (rev is not None or r in UNI) and not self.has(r, "delete"):
                    was_dirty = k in self.touched or any(self.rel[(k, q)] != self.committed.get((k, q), [] if RELS[q][2] else None) for q in BY_SRC[k[0]])
                    if k not in marked and ((k in late and k not in first and was_dirty) or self.rel[(k, r)] != (self.committed.get((k, r)) or [])):
                        # the owner is turned into a delete while the flush is under way (delete-orphan target of a deleted referrer,
                        # or an orphan whose collection has unflushed changes) after it was already pre-processed as a save because it was
                        # dirty: the de-association of its remaining members is not performed - unspecified corner (only reachable with
                        # delete-orphan configured without delete), foreign keys not judged
                        continue
                    for m in self.members(k, r):
                        # members attached since the last flush are not de-associated by the delete (unit of work looks at
                        # unchanged / removed members only): their foreign key is not judged
                        if m not in doomed and self.insession(m) and m in (self.committed.get((k, r)) or []):
                            nulled.add((m, rev if rev is not None else r))
        for k in self.state:
            if self.state[k] == "P":
                self.state[k] = "S"
        for k in doomed:
            self.state[k] = "gone"
        return doomed, nulled


def _key(o):
    return (type(o).__name__.lower(), o.__dict__.get("id") if "id" in o.__dict__ else None)


class _Run:
    def __init__(self, ctx, case):
        from sqlalchemy.orm import Session

        self.ctx = ctx
        self.case = case
        cfg = case["cfg"]
        self.cascades = {r: [OPTS[i] for i in range(6) if cfg.get(r, 3) >> i & 1] for r in ("children", "grandchildren", "tags", "owner", "notes", "badges")}
        with warnings.catch_warnings():
            warnings.simplefilter("ignore")
            self.fam = F.family(**self.cascades)
        self.m = Model(self.cascades)
        self.eng = F.new_db(ctx, self.fam)
        self.rc = F.raw(self.eng)
        self.classes = set()
        self.flags = {"reparent": False, "reattach": False}
        self.detached_this_epoch = set()
        self.excluded = []
        self.stop = False
        init = case["init"]
        n_o, n_p = init["n_o"], init["n_p"]
        owners = [dict(id=i + 1) for i in range(n_o)]
        parents = [dict(id=i + 1, owner_id=(None if p is None or not n_o else p % n_o + 1)) for i, p in enumerate(init["parents"])]
        # single_parent relationships: at most one parent per owner / tag
        if "delete-orphan" in self.cascades["owner"]:
            seen = set()
            for p in parents:
                if p["owner_id"] in seen:
                    p["owner_id"] = None
                seen.add(p["owner_id"])
        orphan_c = "delete-orphan" in self.cascades["children"]
        orphan_g = "delete-orphan" in self.cascades["grandchildren"]
        children = [dict(id=i + 1, parent_id=((c or 0) % n_p + 1 if (c is not None or orphan_c) else None)) for i, c in enumerate(init["children"])]
        n_c = len(children)
        if n_c:
            grands = [dict(id=i + 1, child_id=((g or 0) % n_c + 1 if (g is not None or orphan_g) else None)) for i, g in enumerate(init["grands"])]
        else:
            grands = [] if orphan_g else [dict(id=i + 1, child_id=None) for i, g in enumerate(init["grands"])]
        n_t = init["n_t"]
        links = sorted({(l[0] % n_p + 1, l[1] % n_t + 1) for l in init["links"]}) if n_t else []
        if "delete-orphan" in self.cascades["tags"]:
            seen, keep = set(), []
            for a, b in links:
                if b not in seen:
                    keep.append((a, b))
                    seen.add(b)
            links = keep
            # a tag without any parent would be a row the orphan invariant cannot account for
            n_t = len({b for a, b in links})
            remap = {b: i + 1 for i, b in enumerate(sorted({b for a, b in links}))}
            links = [(a, remap[b]) for a, b in links]
        if "delete-orphan" in self.cascades["owner"]:
            used = sorted({p["owner_id"] for p in parents if p["owner_id"] is not None})
            remap = {b: i + 1 for i, b in enumerate(used)}
            for p in parents:
                if p["owner_id"] is not None:
                    p["owner_id"] = remap[p["owner_id"]]
            owners = [dict(id=i + 1) for i in range(len(used))]
        tags = [dict(id=i + 1) for i in range(n_t)]
        orphan_n = "delete-orphan" in self.cascades["notes"]
        notes = [dict(id=i + 1, parent_id=((x or 0) % n_p + 1 if (x is not None or orphan_n) else None)) for i, x in enumerate(init.get("notes", []))]
        F.raw_insert(self.rc, "note", notes)
        orphan_b = "delete-orphan" in self.cascades["badges"]
        badges = [dict(id=i + 1, owner_id=((x or 0) % len(owners) + 1 if (x is not None or orphan_b) else None)) for i, x in enumerate(init.get("badges", []))] if owners else (
            [] if orphan_b else [dict(id=i + 1, owner_id=None) for i, x in enumerate(init.get("badges", []))])
        F.raw_insert(self.rc, "badge", badges)
        F.raw_insert(self.rc, "owner", owners)
        F.raw_insert(self.rc, "parent", parents)
        F.raw_insert(self.rc, "child", children)
        F.raw_insert(self.rc, "grandchild", grands)
        F.raw_insert(self.rc, "tag", tags)
        F.raw_insert(self.rc, "parent_tag", [dict(parent_id=a, tag_id=b) for a, b in links])
        self.next_id = {"owner": len(owners) + 1, "parent": n_p + 1, "child": n_c + 1, "grandchild": len(grands) + 1, "tag": n_t + 1, "note": len(notes) + 1, "badge": len(badges) + 1}
        self.sess = Session(self.eng, autoflush=False, expire_on_commit=True)
        self.objs = {}  # key -> live object the harness works with
        self.reload()

    def close(self):
        self.sess.close()
        self.rc.close()
        F.drop_db(self.eng)

    # ---------------------------------------------------------------- epoch boundary
    def reload(self):
        """fresh graph: everything in the database loaded into the session, every relationship loaded; model reset to it"""
        from sqlalchemy import select

        s, fam, m = self.sess, self.fam, self.m
        s.expire_all()
        self.objs = {}
        for kind in KINDS:
            cls = fam.classes[kind]
            for o in s.scalars(select(cls).order_by(cls.id)):
                self.objs[(kind, o.id)] = o
        m.state = {k: "S" for k in self.objs}
        m.rel, m.hasparent, m.orphaned_outside, m.dirty, m.removed_by, m.touched = {}, {}, set(), False, {}, set()
        for k, o in self.objs.items():
            for r in BY_SRC[k[0]]:
                v = getattr(o, r)
                if RELS[r][2]:
                    m.rel[(k, r)] = [_key(x) for x in v]
                else:
                    m.rel[(k, r)] = None if v is None else _key(v)
        m.committed = {kr: (list(v) if isinstance(v, list) else v) for kr, v in m.rel.items()}
        self.detached_this_epoch = set()
        self.order = sorted(self.objs)

    # ---------------------------------------------------------------- observation
    def observe(self, where):
        from sqlalchemy import inspect

        m = self.m
        for k, o in self.objs.items():
            insp = inspect(o)
            if insp.pending:
                got = "P"
            elif insp.persistent:
                got = "D" if o in self.sess.deleted else "S"
            elif insp.transient:
                got = "T"
            elif insp.detached:
                got = "X"
            else:
                got = "deleted"
            if got != m.state[k]:
                self.fail_membership(where, k, got, m.state[k])

    def fail_membership(self, where, k, got, want):
        names = {"T": "transient (not in session)", "P": "pending", "S": "persistent", "D": "marked deleted", "X": "detached (not in session)"}
        op = where.split()[0]
        raise Violation(f"C39/membership/{op}/{names.get(want, want).split()[0]}-expected-{names.get(got, got).split()[0]}-observed",
                        f"after {where}: {k[0]}#{k[1]} is {names.get(got, got)}, the cascade model says {names.get(want, want)}; cascades {self.cascades}",
                        observed=got, expected=want)

    # ---------------------------------------------------------------- helpers
    def pick(self, idx, pred):
        cand = [k for k in self.order if k in self.objs and pred(k)]
        return cand[idx % len(cand)] if cand else None

    def single_parent_conflict(self, r, src, dst):
        """would a single_parent validator raise?  (model: dst currently has another parent through r)"""
        if (r in ("tags", "owner") and "delete-orphan" in self.cascades[r]) or r in UNI:  # the child row has one foreign key: one holder at a time
            for k in self.m.state:
                if k[0] == RELS[r][0] and k != src and k in self.objs and dst in self.m.members(k, r):
                    return True
        return False

    # ---------------------------------------------------------------- operations
    def op_new(self, kind_i):
        kind = KINDS[kind_i % len(KINDS)]
        key = (kind, self.next_id[kind])
        self.next_id[kind] += 1
        self.objs[key] = self.fam.classes[kind](id=key[1])
        self.order.append(key)
        self.m.new_object(key)
        self.classes.add("new")
        return f"new {key}"

    def op_add(self, idx):
        m = self.m
        k = self.pick(idx, lambda k: m.state[k] in ("T", "P", "S", "X"))
        if k is None:
            return None
        self.sess.add(self.objs[k])
        m.save_or_update(k)
        m.dirty = True
        self.classes.add("add")
        return f"add {k}"

    def op_link(self, ri, si, di, pinned):
        m = self.m
        r = REL_NAMES[ri % len(REL_NAMES)]
        srck, dstk, uselist, rev = RELS[r]
        src = self.pick(si, lambda k: k[0] == srck and m.state[k] != "D")
        dst = self.pick(di, lambda k: k[0] == dstk and m.state[k] != "D")
        if src is None or dst is None:
            return None
        return self._link_keys(r, src, dst, pinned)

    def op_linknew(self, ri, oi, pinned):
        """attach the most recently created object through relationship ri (it is the target of a list side or the source of a scalar side)"""
        m = self.m
        r = REL_NAMES[ri % len(REL_NAMES)]
        srck, dstk, uselist, rev = RELS[r]
        new = self.order[-1]
        if m.state.get(new) != "T":
            return None
        if uselist and new[0] == dstk:
            src = self.pick(oi, lambda k: k[0] == srck and m.state[k] != "D")
            return None if src is None else self._link_keys(r, src, new, pinned)
        if not uselist and new[0] == srck:
            dst = self.pick(oi, lambda k: k[0] == dstk and m.state[k] != "D")
            return None if dst is None else self._link_keys(r, new, dst, pinned)
        return None

    def op_move(self, li, ii, ni, side, pinned):
        """re-parent: an object that has a parent through a one-to-many goes to another parent, through either side"""
        m = self.m
        L = ["children", "grandchildren", "parents", "children"][li % 4]
        srck, dstk, _u, rev = RELS[L]
        item = self.pick(ii, lambda k: k[0] == dstk and m.state[k] != "D" and m.rel[(k, rev)] is not None)
        if item is None:
            return self.op_link(li, ii, ni, pinned)
        newp = self.pick(ni, lambda k: k[0] == srck and m.state[k] != "D" and k != m.rel[(item, rev)])
        if newp is None:
            return None
        return self._link_keys(L, newp, item, pinned) if side % 2 == 0 else self._link_keys(rev, item, newp, pinned)

    def op_bounce(self, li, pi, ii, side, same):
        """detach an object and attach it again (to the same or another parent) before the flush"""
        m = self.m
        L = ["children", "grandchildren", "tags", "parents", "children", "notes", "badges"][li % 7]
        srck, dstk, _u, rev = RELS[L]
        par = self.pick(pi, lambda k: k[0] == srck and m.state[k] != "D" and any(m.state[x] != "D" for x in m.members(k, L)))
        if par is None:
            return None
        mem = [x for x in m.members(par, L) if m.state[x] != "D"]
        item = mem[ii % len(mem)]
        self.do_unlink(L, par, item)
        self.observe(f"unlink {par}.{L} -= {item} (first half of a detach/re-attach)")
        newp = par if same % 2 == 0 else (self.pick(same, lambda k: k[0] == srck and m.state[k] != "D") or par)
        self.classes.add("detach")
        if rev is not None and side % 2:
            return self._link_keys(rev, item, newp, False)
        return self._link_keys(L, newp, item, False)

    def _link_keys(self, r, src, dst, pinned):
        m = self.m
        srck, dstk, uselist, rev = RELS[r]
        if dst in m.members(src, r):
            return None
        if self.single_parent_conflict(r, src, dst) or (rev and self.single_parent_conflict(rev, dst, src)):
            self.classes.add("skip-single-parent")
            return None
        # the object that changes parent, its old parent and the relationship it is a member of
        if uselist:
            moved, oldp, via = dst, (m.rel[(dst, rev)] if rev else None), r
        else:
            moved, oldp, via = src, None, rev
            if rev is not None:
                oldp_list = [k for k in m.state if k[0] == dstk and (k, rev) in m.rel and src in m.members(k, rev)]
                oldp = oldp_list[0] if oldp_list else None
        replaced = None if uselist else m.rel[(src, r)]
        trigger = False
        if oldp is not None and via is not None:
            self.flags["reparent"] = True
            self.classes.add("reparent")
            # a not-yet-persistent object changing parents in one step through a delete-orphan relationship (it may also become pending
            # and its old parent may be pulled back into the session by this very operation's save-update cascade)
            trigger = m.state[moved] in ("P", "T") and m.has(via, "delete-orphan")
            if trigger and not pinned:
                # known finding: one-step move of a pending object between delete-orphan parents; generate it as detach + attach
                self.excluded.append("one-step re-parenting of a pending object between delete-orphan parents (known finding)")
                if uselist:
                    self.do_unlink(r, oldp, moved)
                else:
                    self.do_unlink(r, src, replaced)
                trigger = False
        if (moved, via) in self.detached_this_epoch or (not uselist and (dst, r) in self.detached_this_epoch):
            self.flags["reattach"] = True
            self.classes.add("detach-then-reattach")
        o_src, o_dst = self.objs[src], self.objs[dst]
        with warnings.catch_warnings():
            warnings.simplefilter("ignore")
            if uselist:
                getattr(o_src, r).append(o_dst)
            else:
                setattr(o_src, r, o_dst)
        if m.rel[(src, r)] is not None and not uselist and m.rel[(src, r)] != dst:
            self.detached_this_epoch.add((m.rel[(src, r)], r))
        m.link(r, src, dst)
        if trigger and m.insession(moved) and self.objs[moved] not in self.sess:
            raise Violation("C39/delete-orphan/pending-object-expunged-while-being-reparented",
                            f"{moved} was pending and attached to {oldp} through {via} (delete-orphan); moving it to another parent in one step "
                            f"({src}.{r} {'+=' if uselist else '='} {dst}) removed it from the session although it is associated with its new parent; "
                            f"it will not be inserted (cascades {self.cascades})", observed="not in session", expected="pending")
        self.classes.add("attach-" + ("owning-side" if r in ("children", "grandchildren", "tags", "owner", "notes", "badges") else "backref-side"))
        return f"link {src}.{r} += {dst}"

    def do_unlink(self, r, src, item):
        uselist = RELS[r][2]
        with warnings.catch_warnings():
            warnings.simplefilter("ignore")
            if uselist:
                getattr(self.objs[src], r).remove(self.objs[item])
            else:
                setattr(self.objs[src], r, None)
        self.m.unlink(r, src, item)
        rev = RELS[r][3]
        self.detached_this_epoch.add((item, r))
        if rev:
            self.detached_this_epoch.add((src, rev))

    def op_unlink(self, ri, si, ki):
        m = self.m
        r = REL_NAMES[ri % len(REL_NAMES)]
        srck = RELS[r][0]
        src = self.pick(si, lambda k: k[0] == srck and m.state[k] != "D" and m.members(k, r))
        if src is None:
            return None
        mem = m.members(src, r)
        item = mem[ki % len(mem)]
        if m.state[item] == "D":
            return None
        self.do_unlink(r, src, item)
        self.classes.add("detach")
        return f"unlink {src}.{r} -= {item}"

    def op_touch(self, idx):
        """plain column change on a persistent object: it becomes dirty, nothing else"""
        m = self.m
        k = self.pick(idx, lambda k: m.state[k] == "S" and k[0] in ("owner", "parent", "child", "tag"))
        if k is None:
            return None
        self.touch_count = getattr(self, "touch_count", 0) + 1
        self.objs[k].name = f"t{self.touch_count}"
        m.dirty = True
        m.touched.add(k)
        self.classes.add("touch-column")
        return f"touch {k}"

    def op_orphan_owner(self, pi, how, pinned):
        """the target of the many-to-one Parent.owner gets a plain column change and, in the same flush, loses its parent
        (set to None / replaced by a fresh one)"""
        m = self.m
        par = self.pick(pi, lambda k: k[0] == "parent" and m.state[k] == "S" and m.rel[(k, "owner")] is not None and m.state[m.rel[(k, "owner")]] == "S")
        if par is None:
            return None
        old = m.rel[(par, "owner")]
        self.touch_count = getattr(self, "touch_count", 0) + 1
        self.objs[old].name = f"t{self.touch_count}"
        m.dirty = True
        m.touched.add(old)
        self.classes.add("touch-column")
        self.observe(f"touch {old} (before it loses its parent)")
        if m.has("owner", "delete-orphan") and m.members(old, "badges") and m.has("badges", "delete"):
            self.classes.add("dirty-orphaned-m2o-target-with-delete-cascade-children")
        if how % 2 == 0:
            self.do_unlink("owner", par, old)
            what = f"unlink {par}.owner -= {old}"
        else:
            self.op_new(0)
            what = self._link_keys("owner", par, self.order[-1], pinned) or f"replace {par}.owner"
        self.classes.add("dirty-many-to-one-target-orphaned-in-same-flush")
        return what

    def op_rmdel(self, pi, ii):
        """remove a member from a parent's unidirectional collection (not re-associated) and delete that parent, in one flush"""
        m = self.m
        par = self.pick(pi, lambda k: k[0] == "parent" and m.state[k] == "S" and any(m.state[x] == "S" for x in m.members(k, "notes")))
        if par is None:
            return None
        mem = [x for x in m.members(par, "notes") if m.state[x] == "S"]
        item = mem[ii % len(mem)]
        self.do_unlink("notes", par, item)
        self.observe(f"unlink {par}.notes -= {item} (before deleting the parent)")
        what = self.op_delete(0, forced=par)
        if what is not None:
            self.classes.add("unidirectional-remove-then-delete-parent")
            if m.has("notes", "delete-orphan"):
                self.classes.add("unidirectional-orphan-and-parent-delete-in-one-flush")
        return what or f"unlink {par}.notes -= {item}"

    def op_delete(self, idx, forced=None):
        m = self.m

        def ok(k):
            if m.state[k] != "S":
                return False
            for c in [k] + m.closure(k, "delete"):
                for r in BY_SRC[c[0]]:
                    cur, old = m.rel[(c, r)], m.committed.get((c, r), [] if RELS[r][2] else None)
                    if c == k and r == "notes" and all(x in old for x in cur):
                        continue  # members were only removed from the unidirectional collection: orphan + parent delete in one flush
                    if cur != old:
                        return False
            # nor may anything in the closure have been attached somewhere else since the last flush (e.g. a tag just appended to Parent.tags)
            doomed = set([k] + m.closure(k, "delete"))
            for (x, r), cur in m.rel.items():
                if r == "tags" and x not in doomed and any(t in doomed for t in m.all_pending(x, r)):
                    return False  # a tag still linked from a surviving parent: its association rows would dangle (Tag has no relationship back)
                old = m.committed.get((x, r), [] if RELS[r][2] else None)
                new = set(cur if RELS[r][2] else ([cur] if cur else [])) - set(old if RELS[r][2] else ([old] if old else []))
                if new & doomed:
                    return False
            return True

        k = forced if forced is not None and ok(forced) else (None if forced is not None else self.pick(idx, ok))
        if k is None:
            return None
        self.sess.delete(self.objs[k])
        m.mark_deleted(k)
        m.dirty = True
        self.classes.add("delete")
        return f"delete {k}"

    def op_expunge(self, idx):
        m = self.m
        k = self.pick(idx, lambda k: m.state[k] in ("P", "S"))
        if k is None:
            return None
        self.sess.expunge(self.objs[k])
        m.expunge(k)
        m.dirty = True
        self.classes.add("expunge")
        return f"expunge {k}"

    def op_expire(self, idx, refresh):
        m = self.m
        if m.dirty:
            return None
        k = self.pick(idx, lambda k: m.state[k] == "S")
        if k is None:
            return None
        for o in self.objs.values():
            o.id  # everything loaded before
        if refresh:
            self.sess.refresh(self.objs[k])
        else:
            self.sess.expire(self.objs[k])
        want = set(m.closure(k, "refresh-expire"))
        if not refresh:
            want.add(k)
        got = {kk for kk, o in self.objs.items() if "id" not in o.__dict__}
        if got != want:
            raise Violation(f"C39/refresh-expire/{'refresh' if refresh else 'expire'}/wrong-closure",
                            f"{'refresh' if refresh else 'expire'}({k}) expired {sorted(got)}, the refresh-expire closure is {sorted(want)}; cascades {self.cascades}",
                            observed=sorted(got), expected=sorted(want))
        # restore the fully loaded graph (nothing was pending, so this is the same graph)
        for kk, o in self.objs.items():
            for r in BY_SRC[kk[0]]:
                getattr(o, r)
            o.id
        self.classes.add("refresh" if refresh else "expire")
        return f"{'refresh' if refresh else 'expire'} {k}"

    # ---------------------------------------------------------------- flush + database oracle
    def op_flush(self, where, pinned=False):
        m = self.m
        # --- situations that are not judged / known findings: detect them on the model before flushing
        pending_in_orphan_cascade = []
        for k, st_ in m.state.items():
            if st_ in ("S", "X") and m.is_orphan(k):
                clo = m.closure(k, "delete")
                if st_ == "X" and any(m.insession(c) for c in clo):
                    # an orphan that was expunged: it is outside the session, what happens to its delete cascade is unspecified
                    self.stop = True
                    self.classes.add("ended-early-orphan-outside-session")
                    return
                if st_ == "S" and clo:
                    # the orphan itself is always found (it is dirty), but its delete cascade is applied only by the flush of a surviving
                    # in-session ex-parent that still has it in its committed collection (OneToManyDP.presort_saves).  If the ex-parent is
                    # outside the session, marked deleted itself, or got and lost the object within this epoch, the cascade is not
                    # applied and the orphan's children are left behind: unspecified corner (reported as an observation), not judged
                    applied = False
                    for r, d in RELS.items():
                        if d[1] == k[0] and m.has(r, "delete-orphan") and m.hasparent.get((k, r), True) is False:
                            for x, sx in m.state.items():
                                if x[0] == d[0] and sx in ("S", "P"):
                                    old = m.committed.get((x, r))
                                    old = (list(old) if d[2] else [old]) if old is not None else []
                                    if k in old and k not in m.members(x, r):
                                        applied = True
                    if not applied:
                        self.stop = True
                        self.classes.add("ended-early-orphan-cascade-unspecified")
                        return
                if st_ == "S":
                    pending_in_orphan_cascade += [c for c in clo if m.state[c] == "P"]
        # the same for everything else the flush itself decides to delete (e.g. the delete-orphan target of a many-to-one whose
        # referrer is deleted): its delete cascade is registered at flush time and does not skip pending objects either
        saved = dict(m.state)
        doomed_preview, _n = m.flush()
        m.state = saved
        for k in sorted(doomed_preview):
            if saved[k] == "S":
                pending_in_orphan_cascade += [c for c in m.closure(k, "delete") if saved[c] == "P" and c not in pending_in_orphan_cascade]
        if pending_in_orphan_cascade and not pinned:
            self.excluded.append("delete cascade of an orphaned persistent object reaches a pending object (known finding: flush fails)")
            self.stop = True
            return
        before = dict(m.state)
        insess_before = {k for k, s in before.items() if s in IN_SESSION}
        rel_before = {kr: (list(v) if isinstance(v, list) else v) for kr, v in m.rel.items()}
        self.committed_before = dict(m.committed)
        with warnings.catch_warnings():
            warnings.simplefilter("ignore")
            try:
                self.sess.flush()
            except Exception as e:
                if pending_in_orphan_cascade:
                    raise Violation("C39/flush/orphan-delete-cascade-registers-pending-object-for-delete",
                                    f"{where}: flush raised {type(e).__name__} ({str(e)[:160]}): the delete cascade of an orphaned persistent object reached the pending "
                                    f"object(s) {pending_in_orphan_cascade}, which were scheduled for DELETE although they were never inserted; cascades {self.cascades}",
                                    observed=type(e).__name__, expected="flush succeeds (pending object discarded or inserted)")
                raise
        doomed, nulled = m.flush()
        # membership right after the flush
        from sqlalchemy import inspect

        for k, o in self.objs.items():
            want = m.state[k]
            insp = inspect(o)
            got = "gone" if (insp.deleted or (insp.detached and want == "gone")) else ("S" if insp.persistent else "T" if insp.transient else "X" if insp.detached else "P")
            if got != want:
                kind = "orphan-or-marked-row-not-deleted" if want == "gone" else "unexpected-delete" if got == "gone" else "pending-not-flushed" if got in ("P", "T") and want == "S" else "state"
                raise Violation(f"C39/flush/{kind}", f"{where}: after flush {k[0]}#{k[1]} is {got}, the cascade model says {want} (before the flush: {before[k]}); cascades {self.cascades}",
                                observed=got, expected=want)
        self.sess.commit()
        snap = F.raw_snapshot(self.rc)
        rows = {"owner": {r[0]: {} for r in snap["owner"]}, "parent": {r[0]: {"owner": r[4]} for r in snap["parent"]},
                "child": {r[0]: {"parent": r[1]} for r in snap["child"]}, "grandchild": {r[0]: {"child": r[1]} for r in snap["grandchild"]},
                "tag": {r[0]: {} for r in snap["tag"]}, "note": {r[0]: {"parent": r[1]} for r in snap["note"]}, "badge": {r[0]: {"parent": r[1]} for r in snap["badge"]}}
        links = {tuple(r) for r in snap["parent_tag"]}
        # 1. exactly the expected rows
        for kind in KINDS:
            want_ids = sorted(k[1] for k, s in m.state.items() if k[0] == kind and s in ("S", "X"))
            got_ids = sorted(rows[kind])
            if want_ids != got_ids:
                extra, missing = sorted(set(got_ids) - set(want_ids)), sorted(set(want_ids) - set(got_ids))
                raise Violation(f"C39/db/{kind}/{'row-survives' if extra else 'row-missing'}",
                                f"{where}: {kind} rows {got_ids}, expected {want_ids} (unexpected {extra}, missing {missing}); doomed by model: {sorted(doomed)}; cascades {self.cascades}",
                                observed=got_ids, expected=want_ids)
        # 2. foreign keys follow the in-memory graph (both ends in the session), NULL where the parent row went away without delete cascade
        for (kind, r) in (("child", "parent"), ("grandchild", "child"), ("parent", "owner")):
            for k, s in m.state.items():
                if k[0] != kind or s != "S" or k not in insess_before:
                    continue
                tgt = rel_before[(k, r)]
                if tgt is not None and tgt not in insess_before:
                    continue  # related object outside the session: not judged
                if tgt is not None and tgt in doomed:
                    rev = RELS[r][3]
                    if r == "owner":
                        continue  # many-to-one to a deleted row: the foreign key is not maintained from this side
                    want = None if (k, r) in nulled else "?"
                    if want == "?":
                        continue
                else:
                    want = None if tgt is None else tgt[1]
                got = rows[kind][k[1]][r]
                if got != want:
                    raise Violation(f"C39/db/{kind}.{r}_id", f"{where}: {k[0]}#{k[1]}.{r}_id is {got!r}, expected {want!r} (in-memory {r} = {tgt}); cascades {self.cascades}",
                                    observed=got, expected=want)
        for k, s in m.state.items():
            urel = {"note": "notes", "badge": "badges"}.get(k[0])
            if urel is None or s != "S" or k not in insess_before:
                continue
            holders = [p for p in before if p[0] == UNI[urel][1] and k in rel_before[(p, urel)]]
            if any(p not in insess_before for p in holders):
                continue  # held by an object outside the session: not judged
            if holders:
                p = holders[0]
                if p in doomed:
                    if (k, urel) not in nulled:
                        continue
                    want = None
                else:
                    want = p[1]
            elif any(k in (m_old or []) and x in insess_before for (x, r_), m_old in self.committed_before.items() if r_ == urel):
                want = None  # removed from its parent's collection in this flush and not deleted (no delete-orphan)
            else:
                continue
            got = rows[k[0]][k[1]]["parent"]
            if got != want:
                raise Violation(f"C39/db/{k[0]}.{UNI[urel][2]}", f"{where}: {k[0]}#{k[1]}.{UNI[urel][2]} is {got!r}, expected {want!r} (held by {holders}); cascades {self.cascades}", observed=got, expected=want)
        for k, s in m.state.items():
            if k[0] == "parent" and s == "S" and k in insess_before:
                tl = [t for t in rel_before[(k, "tags")]]
                if any(t not in insess_before for t in tl):
                    continue
                # association rows of a tag that is deleted from its own side are not maintained (Tag has no relationship back): not judged
                want = {(k[1], t[1]) for t in tl if t not in doomed}
                got = {l for l in links if l[0] == k[1] and ("tag", l[1]) not in doomed and ("tag", l[1]) in insess_before}
                if got != want:
                    raise Violation("C39/db/parent_tag", f"{where}: association rows of {k} are {sorted(got)}, expected {sorted(want)}", observed=sorted(got), expected=sorted(want))
        # 3. raw orphan invariant for delete + delete-orphan relationships (rows that existed before this flush: a pending orphan that
        #    the application add()s again explicitly is inserted by design, see "legacy_is_orphan" notes in the 0.8 migration guide)
        for r, child_t, fk, parent_t in (("children", "child", "parent_id", "parent"), ("grandchildren", "grandchild", "child_id", "child"), ("notes", "note", "parent_id", "parent"), ("badges", "badge", "owner_id", "owner")):
            if {"delete", "delete-orphan"} <= set(self.cascades[r]):
                bad = self.rc.execute(f"SELECT c.id FROM {child_t} c LEFT JOIN {parent_t} p ON c.{fk} = p.id WHERE p.id IS NULL").fetchall()
                rev = RELS[r][3]
                bad = [b[0] for b in bad if (child_t, b[0]) in before and before[(child_t, b[0])] in ("S", "D") and self._ever_parented((child_t, b[0]), r, rel_before)
                       and (rev is None or rel_before.get(((child_t, b[0]), rev)) is None or rel_before[((child_t, b[0]), rev)] in insess_before)
                       and (rev is not None or all(x in insess_before for (x, r_), mem in rel_before.items() if r_ == r and (child_t, b[0]) in mem))]
                if bad:
                    raise Violation(f"C39/invariant/{r}/orphan-row", f"{where}: {child_t} rows {bad} have no parent row although {r} is delete + delete-orphan", observed=bad, expected=[])
        self.classes.add("flush")
        # rows that reference a missing row (possible only through the situations that are not judged: objects outside the
        # session, a tag deleted from its own side): later epochs would start from a graph that is not the database -> stop here
        dangling = 0
        for q in ("SELECT count(*) FROM child c WHERE c.parent_id IS NOT NULL AND c.parent_id NOT IN (SELECT id FROM parent)",
                  "SELECT count(*) FROM grandchild g WHERE g.child_id IS NOT NULL AND g.child_id NOT IN (SELECT id FROM child)",
                  "SELECT count(*) FROM parent p WHERE p.owner_id IS NOT NULL AND p.owner_id NOT IN (SELECT id FROM owner)",
                  "SELECT count(*) FROM note n WHERE n.parent_id IS NOT NULL AND n.parent_id NOT IN (SELECT id FROM parent)",
                  "SELECT count(*) FROM badge b WHERE b.owner_id IS NOT NULL AND b.owner_id NOT IN (SELECT id FROM owner)",
                  "SELECT count(*) FROM parent_tag l WHERE l.parent_id NOT IN (SELECT id FROM parent) OR l.tag_id NOT IN (SELECT id FROM tag)"):
            dangling += self.rc.execute(q).fetchone()[0]
        if dangling:
            self.stop = True
            self.classes.add("ended-early-dangling-reference")
            return
        self.reload()

    def _ever_parented(self, k, r, rel_before):
        rev = RELS[r][3]
        if rev is None:
            return (k, r) in self.m.hasparent or any(r_ == r and k in (mem or []) for (x, r_), mem in list(self.committed_before.items()) + list(rel_before.items()))
        return self.m.committed.get((k, rev)) is not None or rel_before.get((k, rev)) is not None or (k, r) in self.m.hasparent


def check(case, ctx):
    run = _Run(ctx, case)
    pinned = bool(case.get("pinned"))
    casc = run.cascades
    interesting_cfg = any("delete-orphan" in c or "save-update" not in c for c in casc.values())
    try:
        try:
            for ei, ep in enumerate(case["epochs"]):
                for oi, op in enumerate(ep):
                    k = op[0]
                    if k == "new":
                        what = run.op_new(op[1])
                    elif k == "add":
                        what = run.op_add(op[1])
                    elif k == "link":
                        what = run.op_link(op[1], op[2], op[3], pinned)
                    elif k == "unlink":
                        what = run.op_unlink(op[1], op[2], op[3])
                    elif k == "linknew":
                        what = run.op_linknew(op[1], op[2], pinned)
                    elif k == "move":
                        what = run.op_move(op[1], op[2], op[3], op[4], pinned)
                    elif k == "bounce":
                        what = run.op_bounce(op[1], op[2], op[3], op[4], op[5])
                    elif k == "rmdel":
                        what = run.op_rmdel(op[1], op[2])
                    elif k == "touch":
                        what = run.op_touch(op[1])
                    elif k == "orphan_owner":
                        what = run.op_orphan_owner(op[1], op[2], pinned)
                    elif k == "delete":
                        what = run.op_delete(op[1])
                    elif k == "expunge":
                        what = run.op_expunge(op[1])
                    elif k in ("expire", "refresh"):
                        what = run.op_expire(op[1], k == "refresh")
                    else:
                        raise AssertionError(op)
                    if what is not None:
                        run.observe(f"{what} (epoch {ei} op {oi})")
                run.op_flush(f"epoch {ei}", pinned)
                if run.stop:
                    break
        finally:
            for c in casc.values():
                for o in ("delete-orphan", "delete", "expunge", "refresh-expire"):
                    if o in c:
                        run.classes.add("cfg-" + o)
                if "save-update" not in c:
                    run.classes.add("cfg-no-save-update")
            for r in run.excluded:
                ctx.exclude(r)
            ctx.note(case, interesting_cfg and (run.flags["reparent"] or run.flags["reattach"]), classes=run.classes)
    finally:
        run.close()


_i = st.integers(0, 7)
_subset = st.one_of(
    st.lists(st.booleans(), min_size=6, max_size=6).map(lambda bits: sum(1 << i for i, b in enumerate(bits) if b)),
    st.sampled_from([0b000011, 0b001111, 0b011111, 0b111111, 0b011011, 0b011001, 0b000010, 0b010011, 0b011010, 0b110111, 0b111001, 0b011111, 0b111111]),
)


@st.composite
def _cases(draw):
    if draw(st.booleans()):
        s = draw(_subset)
        cfg = {"children": s, "grandchildren": s, "tags": s, "owner": s, "notes": s, "badges": s}
    else:
        cfg = {r: draw(_subset) for r in ("children", "grandchildren", "tags", "owner", "notes", "badges")}
    init = {
        "n_o": draw(st.sampled_from([1, 0, 1])),
        "n_p": draw(st.integers(1, 2)),
        "children": draw(st.lists(st.one_of(st.none(), st.integers(0, 1)), min_size=1, max_size=3)),
        "grands": draw(st.lists(st.one_of(st.none(), st.integers(0, 2)), max_size=2)),
        "n_t": draw(st.integers(0, 2)),
        "links": [[draw(st.integers(0, 1)), draw(st.integers(0, 1))] for _ in range(draw(st.integers(0, 2)))],
    }
    init["parents"] = [draw(st.one_of(st.none(), st.integers(0, 1))) for _ in range(init["n_p"])]
    init["notes"] = draw(st.lists(st.one_of(st.none(), st.integers(0, 1)), max_size=2))
    init["badges"] = draw(st.lists(st.one_of(st.none(), st.integers(0, 1)), max_size=2))
    epochs = []
    for _ in range(draw(st.integers(1, 3))):
        ops = []
        for _ in range(draw(st.integers(2, 9))):
            k = draw(st.sampled_from(["new", "new", "add", "add", "link", "link", "move", "move", "move", "move", "bounce", "bounce", "bounce", "unlink", "unlink", "delete", "expunge", "expire", "refresh", "newlink", "newlink", "rmdel", "rmdel", "touch", "orphan_owner", "orphan_owner"]))
            if k == "new":
                ops.append([k, draw(st.integers(0, 6))])
            elif k == "newlink":
                # a fresh child / grandchild / tag / parent attached right away (pending objects are what the orphan rules are about)
                kind, rel = draw(st.sampled_from([[2, 0], [2, 1], [3, 2], [3, 3], [4, 4], [1, 6], [1, 5], [2, 0], [5, 7], [5, 7], [6, 8], [6, 8]]))
                ops.append(["new", kind])
                ops.append(["linknew", rel, draw(_i)])
            elif k in ("rmdel", "orphan_owner"):
                ops.append([k, draw(_i), draw(_i)])
            elif k == "move":
                ops.append([k, draw(st.integers(0, 3)), draw(_i), draw(_i), draw(st.integers(0, 1))])
            elif k == "bounce":
                ops.append([k, draw(st.integers(0, 6)), draw(_i), draw(_i), draw(st.integers(0, 1)), draw(st.integers(0, 3))])
            elif k == "link":
                ops.append([k, draw(st.integers(0, 8)), draw(_i), draw(_i)])
            elif k == "unlink":
                ops.append([k, draw(st.integers(0, 8)), draw(_i), draw(_i)])
            else:
                ops.append([k, draw(_i)])
        epochs.append(ops)
    if draw(st.sampled_from([False, False, True, False, False])):
        # many-to-one with delete-orphan whose target has delete-cascading children of its own: Parent.owner -> Owner.badges -> Badge
        cfg["owner"] = draw(st.sampled_from([0b111111, 0b011111, 0b011011, 0b010011]))
        cfg["badges"] = draw(st.sampled_from([0b111111, 0b001111, 0b011111, 0b001011]))
        init["n_o"] = 1
        init["parents"][0] = 0
        init["badges"] = [0] + init["badges"][:1]
        ep = epochs[draw(st.integers(0, len(epochs) - 1))]
        ep.insert(draw(st.integers(0, len(ep))), ["orphan_owner", 0, draw(st.integers(0, 1))])
    return {"cfg": cfg, "init": init, "epochs": epochs}


def subs(tier):
    return [Generated("histories", check, strategy=_cases(), quick=1200, thorough=60000)]
