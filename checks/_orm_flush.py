"""E-ORM: shared ORM engine for C30 / C31 / C32 / C33 (owner: the C30-C33 check author).

Three parts:

* a *universe* of mapping configurations selected by a JSON config record
  (``build_universe(cfg)``; built once per process and config in a throw-away
  ``registry()``):

    fam "pct"   Parent 1-* Child(+SubChild joined inheritance) *-* Tag
                 children collection list/set, backref / back_populates /
                 one-to-many only / many-to-one only, four cascade settings,
                 nullable or NOT NULL FK, natural mutable Parent PK with
                 ON UPDATE CASCADE (passive) or passive_updates=False (orm),
                 optional Parent.favorite many-to-one with post_update (cycle)
    fam "node"  adjacency-list Node tree (same relationship options)

* a pure-Python reference model (``Model``) of what the documented unit of
  work does to the graph, the session membership and the rows, including a
  stack of transaction snapshots;

* an interpreter (``Interp``) that applies a history program (JSON list of
  ``[code, a, b, c]`` ops, operands by index modulo the number of eligible
  objects) to a real Session and to the model and compares, after every flush
  / commit / rollback, the rows seen through a raw sqlite3 connection (the
  session's own DBAPI connection inside a transaction, an independent
  connection after commit/rollback) with the model's rows.

Every object carries a unique immutable ``uid`` column, so rows are compared as
a graph keyed by uid (foreign keys are translated to the uid of the referenced
row); autoincrement primary keys never enter the oracle.
"""
from __future__ import annotations

import copy
import warnings

from hypothesis import strategies as st

from vf import sautil
from vf.api import HarnessError, Violation, canon

# --------------------------------------------------------------------------- configs

CASCADES = {
    "default": "save-update, merge",
    "delete": "save-update, merge, delete",
    "all": "all",
    "all_orphan": "all, delete-orphan",
}


def norm_cfg(cfg):
    """make a drawn config record self-consistent (documented domain restrictions)"""
    c = dict(cfg)
    c.setdefault("fam", "pct")
    c.setdefault("coll", "list")
    c.setdefault("bidir", "backref")
    c.setdefault("cascade", "default")
    c.setdefault("fk_on", False)
    c.setdefault("autoflush", True)
    c.setdefault("eoc", True)
    if c["fam"] == "node":
        c["fk_nullable"] = True
        c["inh"] = False
        c["natpk"] = None
        c["fav"] = False
        c.pop("m2m_coll", None)
        c.pop("m2m_bidir", None)
    else:
        c.setdefault("fk_nullable", True)
        c.setdefault("inh", False)
        c.setdefault("natpk", None)
        c.setdefault("fav", False)
        c.setdefault("m2m_coll", "list")
        c.setdefault("m2m_bidir", "backref")
        if c["natpk"] == "passive":
            c["fk_on"] = True  # ON UPDATE CASCADE needs enforcement
        elif c["natpk"] == "orm":
            c["fk_on"] = False  # passive_updates=False is for backends without enforcement
        if not c["fk_nullable"]:
            # a NOT NULL FK is only coherent with "owned" children
            if c["bidir"] != "m2o_only":
                c["cascade"] = "all_orphan"
            c["autoflush"] = False
    if c["bidir"] == "m2o_only":
        c["cascade"] = "default"  # cascade lives on the one-to-many side
    return c


@st.composite
def cfg_strategy(draw, profile="c30"):
    fam = draw(st.sampled_from(["pct", "pct", "pct", "node"]))
    c = {
        "fam": fam,
        "coll": draw(st.sampled_from(["list", "set"])),
        "bidir": draw(st.sampled_from(["backref", "back_populates", "backref", "o2m_only", "m2o_only"])),
        "cascade": draw(st.sampled_from(["default", "delete", "all", "all_orphan", "all_orphan"])),
        "fk_on": draw(st.booleans()),
        "autoflush": draw(st.sampled_from([True, True, False])),
        "eoc": True,
    }
    if fam == "pct":
        c["fk_nullable"] = draw(st.sampled_from([True, True, True, False]))
        c["inh"] = draw(st.booleans())
        c["natpk"] = draw(st.sampled_from([None, None, "passive", "orm"]))
        c["fav"] = draw(st.sampled_from([False, False, True]))
        c["m2m_coll"] = draw(st.sampled_from(["list", "set"]))
        c["m2m_bidir"] = draw(st.sampled_from(["backref", "back_populates", "none"]))
        if c["natpk"] == "orm" and draw(st.booleans()):
            c["bidir"] = "m2o_only"  # key switches through _DetectKeySwitch need the many-to-one-only shape
    if profile == "c33":
        c["eoc"] = draw(st.booleans())
    if profile == "c31":
        c["fk_nullable"] = draw(st.booleans()) if fam == "pct" else True
        c["natpk"] = draw(st.sampled_from([None, None, "passive"])) if fam == "pct" else None
        c["fav"] = draw(st.booleans()) if fam == "pct" else False
    return norm_cfg(c)


class Universe:
    """one built mapping configuration"""

    def __init__(self, cfg):
        self.cfg = cfg
        self.fam = cfg["fam"]
        self._build()

    # ---- structure queries used by the model
    def root(self, kind):
        return "Child" if kind == "SubChild" else kind

    def childish(self, kind):
        return kind in ("Child", "SubChild", "Node")

    def parentish(self, kind):
        return kind in ("Parent", "Node")

    @property
    def has_o2m(self):
        return self.cfg["bidir"] != "m2o_only"

    @property
    def has_m2o(self):
        return self.cfg["bidir"] != "o2m_only"

    @property
    def is_bidir(self):
        return self.cfg["bidir"] in ("backref", "back_populates")

    @property
    def has_items(self):
        return self.fam == "pct" and self.cfg["m2m_bidir"] != "none"

    @property
    def casc_delete(self):
        return self.has_o2m and self.cfg["cascade"] in ("delete", "all", "all_orphan")

    @property
    def casc_orphan(self):
        return self.has_o2m and self.cfg["cascade"] == "all_orphan"

    @property
    def casc_expunge(self):
        return self.has_o2m and self.cfg["cascade"] in ("all", "all_orphan")

    def uniq(self, kind):
        """classes that carry the UNIQUE columns code and (ga, gb)"""
        return kind in ("Tag", "Node")

    def scalars(self, kind):
        return ["val", "extra"] if kind == "SubChild" else ["val"]

    def _build(self):
        from sqlalchemy import Column, ForeignKey, Integer, String, Table, UniqueConstraint
        from sqlalchemy.orm import backref, registry, relationship

        cfg = self.cfg
        reg = registry()
        Base = reg.generate_base()
        self.registry = reg
        self.metadata = Base.metadata
        cascade = CASCADES[cfg["cascade"]]
        cc = list if cfg["coll"] == "list" else set
        passive = cfg.get("natpk") != "orm"
        classes = {}

        if self.fam == "node":

            class Node(Base):
                __tablename__ = "node"
                id = Column(Integer, primary_key=True)
                uid = Column(Integer, nullable=False, unique=True)
                val = Column(Integer)
                parent_ref = Column(Integer, ForeignKey("node.id"))
                code = Column(Integer, unique=True)  # single-column UNIQUE
                ga = Column(Integer)
                gb = Column(Integer)
                __table_args__ = (UniqueConstraint("ga", "gb"),)  # composite UNIQUE

            kw = dict(cascade=cascade, collection_class=cc, order_by=Node.uid)
            if cfg["bidir"] == "backref":
                Node.children = relationship(Node, backref=backref("parent", remote_side=[Node.id]), **kw)
            elif cfg["bidir"] == "back_populates":
                Node.children = relationship(Node, back_populates="parent", **kw)
                Node.parent = relationship(Node, back_populates="children", remote_side=[Node.id])
            elif cfg["bidir"] == "o2m_only":
                Node.children = relationship(Node, **kw)
            else:
                Node.parent = relationship(Node, remote_side=[Node.id])
            classes["Node"] = Node
            self.kinds = ["Node"]
            self.tables = ["node"]
        else:
            natpk = cfg["natpk"]

            class Parent(Base):
                __tablename__ = "parent"
                if natpk:
                    name = Column(String(20), primary_key=True)
                else:
                    id = Column(Integer, primary_key=True)
                uid = Column(Integer, nullable=False, unique=True)
                val = Column(Integer)
                if cfg["fav"]:
                    fav_ref = Column(Integer, ForeignKey("child.id", use_alter=True, name="fk_fav"))

            if natpk:
                fkcol = lambda: Column(  # noqa: E731
                    String(20),
                    ForeignKey("parent.name", **({"onupdate": "CASCADE"} if natpk == "passive" else {})),
                    nullable=cfg["fk_nullable"],
                )
            else:
                fkcol = lambda: Column(Integer, ForeignKey("parent.id"), nullable=cfg["fk_nullable"])  # noqa: E731

            class Child(Base):
                __tablename__ = "child"
                id = Column(Integer, primary_key=True)
                uid = Column(Integer, nullable=False, unique=True)
                val = Column(Integer)
                parent_ref = fkcol()
                if cfg["inh"]:
                    kind = Column(String(10))
                    __mapper_args__ = {"polymorphic_on": kind, "polymorphic_identity": "child"}

            classes["Parent"] = Parent
            classes["Child"] = Child
            if cfg["inh"]:

                class SubChild(Child):
                    __tablename__ = "subchild"
                    id = Column(Integer, ForeignKey("child.id"), primary_key=True)
                    extra = Column(Integer)
                    __mapper_args__ = {"polymorphic_identity": "sub"}

                classes["SubChild"] = SubChild

            class Tag(Base):
                __tablename__ = "tag"
                id = Column(Integer, primary_key=True)
                uid = Column(Integer, nullable=False, unique=True)
                val = Column(Integer)
                code = Column(Integer, unique=True)  # single-column UNIQUE
                ga = Column(Integer)
                gb = Column(Integer)
                __table_args__ = (UniqueConstraint("ga", "gb"),)  # composite UNIQUE

            classes["Tag"] = Tag
            child_tag = Table(
                "child_tag",
                Base.metadata,
                Column("child_id", Integer, ForeignKey("child.id"), primary_key=True),
                Column("tag_id", Integer, ForeignKey("tag.id"), primary_key=True),
            )
            kw = dict(cascade=cascade, collection_class=cc, order_by=Child.uid, passive_updates=passive)
            fk = [Child.parent_ref]
            if cfg["bidir"] == "backref":
                Parent.children = relationship(Child, backref=backref("parent", passive_updates=passive), foreign_keys=fk, **kw)
            elif cfg["bidir"] == "back_populates":
                Parent.children = relationship(Child, back_populates="parent", foreign_keys=fk, **kw)
                Child.parent = relationship(Parent, back_populates="children", foreign_keys=fk, passive_updates=passive)
            elif cfg["bidir"] == "o2m_only":
                Parent.children = relationship(Child, foreign_keys=fk, **kw)
            else:
                Child.parent = relationship(Parent, foreign_keys=fk, passive_updates=passive)
            mcc = list if cfg["m2m_coll"] == "list" else set
            if cfg["m2m_bidir"] == "backref":
                Child.tags = relationship(Tag, secondary=child_tag, collection_class=mcc, order_by=Tag.uid,
                                          backref=backref("items", collection_class=mcc, order_by=Child.uid))
            elif cfg["m2m_bidir"] == "back_populates":
                Child.tags = relationship(Tag, secondary=child_tag, collection_class=mcc, order_by=Tag.uid, back_populates="items")
                Tag.items = relationship(Child, secondary=child_tag, collection_class=mcc, order_by=Child.uid, back_populates="tags")
            else:
                Child.tags = relationship(Tag, secondary=child_tag, collection_class=mcc, order_by=Tag.uid)
            if cfg["fav"]:
                Parent.favorite = relationship(Child, foreign_keys=[Parent.fav_ref], post_update=True)
            self.kinds = ["Parent", "Child", "Tag", "Child", "Parent"] + (["SubChild", "SubChild"] if cfg["inh"] else [])
            self.tables = ["parent", "child", "tag", "child_tag"] + (["subchild"] if cfg["inh"] else [])
        self.classes = classes
        reg.configure()


_UCACHE = {}


def build_universe(cfg):
    key = canon(cfg)
    u = _UCACHE.get(key)
    if u is None:
        if len(_UCACHE) > 400:
            _UCACHE.clear()  # registries are garbage; never clear_mappers()
        with warnings.catch_warnings():
            warnings.simplefilter("error")  # a mapping that warns is a harness bug
            u = Universe(cfg)
        _UCACHE[key] = u
    return u


# --------------------------------------------------------------------------- observation


def observe(dbapi_conn, U):
    """rows as a uid-keyed graph, read with plain DBAPI calls.
    returns (canonical, pk_of) ; canonical = {"rows": {root: {uid: row}}, "pairs": [[cuid, tuid], ...]}"""
    cur = dbapi_conn.cursor()
    try:
        rows = {}
        pk_of = {}
        if U.fam == "node":
            data = cur.execute("SELECT id, uid, val, parent_ref, code, ga, gb FROM node").fetchall()
            by_pk = {r[0]: r[1] for r in data}
            rows["Node"] = {}
            for pk, uid, val, pref, code, ga, gb in data:
                rows["Node"][uid] = {"cls": "Node", "val": val, "parent": _ref(by_pk, pref), "code": code, "ga": ga, "gb": gb}
                pk_of[("Node", uid)] = pk
            return {"rows": rows, "pairs": []}, pk_of
        cfg = U.cfg
        pkc = "name" if cfg["natpk"] else "id"
        favc = ", fav_ref" if cfg["fav"] else ""
        pdata = cur.execute(f"SELECT {pkc}, uid, val{favc} FROM parent").fetchall()
        kindc = ", kind" if cfg["inh"] else ""
        cdata = cur.execute(f"SELECT id, uid, val, parent_ref{kindc} FROM child").fetchall()
        sdata = dict(cur.execute("SELECT id, extra FROM subchild").fetchall()) if cfg["inh"] else {}
        tdata = cur.execute("SELECT id, uid, val, code, ga, gb FROM tag").fetchall()
        xdata = cur.execute("SELECT child_id, tag_id FROM child_tag").fetchall()
        p_by_pk = {r[0]: r[1] for r in pdata}
        c_by_pk = {r[0]: r[1] for r in cdata}
        t_by_pk = {r[0]: r[1] for r in tdata}
        rows["Parent"] = {}
        for r in pdata:
            row = {"cls": "Parent", "val": r[2]}
            if cfg["natpk"]:
                row["name"] = r[0]
            if cfg["fav"]:
                row["fav"] = _ref(c_by_pk, r[3])
            rows["Parent"][r[1]] = row
            pk_of[("Parent", r[1])] = r[0]
        rows["Child"] = {}
        seen_sub = set()
        for r in cdata:
            pk, uid, val, pref = r[:4]
            row = {"val": val, "parent": _ref(p_by_pk, pref)}
            if cfg["inh"]:
                row["cls"] = {"child": "Child", "sub": "SubChild"}.get(r[4], f"?{r[4]}")
                if pk in sdata:
                    row["extra"] = sdata[pk]
                    seen_sub.add(pk)
                else:
                    row["extra"] = "NOSUB"
            else:
                row["cls"] = "Child"
            rows["Child"][uid] = row
            pk_of[("Child", uid)] = pk
        stray = sorted(set(sdata) - seen_sub)
        if stray:
            rows["Child"]["stray_subchild_rows"] = stray
        rows["Tag"] = {}
        for pk, uid, val, code, ga, gb in tdata:
            rows["Tag"][uid] = {"cls": "Tag", "val": val, "code": code, "ga": ga, "gb": gb}
            pk_of[("Tag", uid)] = pk
        pairs = sorted([_ref(c_by_pk, a), _ref(t_by_pk, b)] for a, b in xdata)
        return {"rows": rows, "pairs": pairs}, pk_of
    finally:
        cur.close()


def _ref(by_pk, v):
    if v is None:
        return None
    if v in by_pk:
        return by_pk[v]
    return f"DANGLING:{v}"


def integrity_problems(canonical, U):
    """referential / NOT NULL problems of an observed state (shadow check with
    immediate-constraint semantics; used by the C31 statement monitor)"""
    out = []
    for root, rs in canonical["rows"].items():
        for uid, row in rs.items():
            if not isinstance(row, dict):
                out.append(f"{root}:{uid}={row}")
                continue
            for k in ("parent", "fav"):
                v = row.get(k)
                if isinstance(v, str) and v.startswith("DANGLING"):
                    out.append(f"{root}[{uid}].{k}={v}")
            if root == "Child" and not U.cfg.get("fk_nullable", True) and row.get("parent") is None:
                out.append(f"Child[{uid}].parent IS NULL (NOT NULL column)")
    for a, b in canonical["pairs"]:
        if isinstance(a, str) or isinstance(b, str):
            out.append(f"child_tag({a},{b})")
    return out


# --------------------------------------------------------------------------- model


class MObj:
    __slots__ = ("idx", "kind", "uid", "state", "dead", "vals", "parent", "tags", "fav", "stale", "real", "ghost_of", "flag_override")

    def __init__(self, idx, kind, uid):
        self.idx = idx
        self.kind = kind
        self.uid = uid
        self.state = "T"  # T transient, P pending, S persistent, D marked deleted / orphaned, G deleted+flushed, X detached
        self.dead = False  # discarded (expunged by a rollback / as a pending orphan); never an operand again
        self.vals = {}
        self.parent = None
        self.tags = []
        self.fav = None
        self.stale = False  # in-memory relationship attributes may still name a deleted object
        self.real = None
        self.ghost_of = None  # parent whose loaded collection may still hold this deleted object
        self.flag_override = None

    def __repr__(self):
        return f"<{self.kind}#{self.idx} uid={self.uid} {self.state}{'!' if self.dead else ''}>"


class Model:
    def __init__(self, U):
        self.U = U
        self.objs = []
        self.rows = {}  # (root, uid) -> row dict (parent/fav as uid)
        self.pairs = set()  # (child uid, tag uid)
        self.stack = []  # snapshots; [0] is the enclosing (outer) transaction
        self.name_ctr = 0
        self.keyswitched = set()  # idx of objects whose primary key change was flushed in the open outer transaction
        self.keyswitch_log = []  # idx, one entry per flushed key switch (consumed by the interpreter)
        self.dirty = False  # unflushed changes may exist
        self.push()

    # ---- helpers
    def insess(self, o):
        return o.state in "PSD"

    def live(self, o):
        return not o.dead and o.state in "TPSX"

    def by_uid(self, root, uid):
        for o in self.objs:
            if o.uid == uid and self.U.root(o.kind) == root:
                return o
        return None

    def children_of(self, p):
        return [o for o in self.objs if o.parent is p and not o.dead and o.state in "TPSX"]

    def items_of(self, t):
        return [o for o in self.objs if t in o.tags and not o.dead and o.state in "TPSX"]

    def descendants(self, p):
        out, todo = [], [p]
        while todo:
            x = todo.pop()
            for c in self.children_of(x):
                if c not in out:
                    out.append(c)
                    todo.append(c)
        return out

    def neighbors(self, x):
        """objects reachable over loaded relationship attributes of an out-of-session object"""
        U = self.U
        out = []
        if U.childish(x.kind):
            if U.has_m2o and x.parent is not None:
                out.append(x.parent)
            if U.fam == "pct":
                out.extend(x.tags)
        if U.parentish(x.kind):
            if U.has_o2m:
                out.extend(o for o in self.objs if o.parent is x and o.state in "TPSX")
            if x.fav is not None:
                out.append(x.fav)
        if x.kind == "Tag" and U.has_items:
            out.extend(o for o in self.objs if x in o.tags and o.state in "TPSX")
        return out

    def propagate_dead(self):
        """an out-of-session object that still references a discarded object is discarded with it
        (its save-update cascade would drag the discarded object back into the session)"""
        changed = True
        while changed:
            changed = False
            for o in self.objs:
                if not o.dead and o.state == "T" and any(n.dead for n in self.neighbors(o)):
                    o.dead = True
                    changed = True

    # ---- canonical rows
    def canonical(self, rows=None, pairs=None):
        rows = self.rows if rows is None else rows
        pairs = self.pairs if pairs is None else pairs
        out = {r: {} for r in (["Node"] if self.U.fam == "node" else ["Parent", "Child", "Tag"])}
        for (root, uid), row in rows.items():
            out[root][uid] = dict(row)
        return {"rows": out, "pairs": sorted([a, b] for a, b in pairs)}

    # ---- snapshots
    def push(self):
        self.stack.append(
            {"rows": copy.deepcopy(self.rows), "pairs": set(self.pairs), "states": {o.idx: o.state for o in self.objs}}
        )

    def committed(self):
        s = self.stack[0]
        return self.canonical(s["rows"], s["pairs"])

    # ---- operations
    def m_add(self, o):
        todo = [o]
        while todo:
            x = todo.pop()
            if x.dead or x.state not in "TX":
                continue
            x.state = "P" if x.state == "T" else "S"
            self.dirty = True
            todo.extend(self.neighbors(x))

    def m_setparent(self, c, p):
        """bidirectional semantics; returns 'orphan_expunged' if c left the session as a pending orphan"""
        old = c.parent
        c.parent = p
        c.stale = False
        self.dirty = True
        if p is None and old is not None and self.U.casc_orphan:
            if c.state == "P":
                c.state = "T"
                c.dead = True
                self.propagate_dead()
                return "orphan_expunged"
            if c.state == "S":
                self.m_delete(c)
                return "orphan_deleted"
            if c.state == "T":
                # de-associated outside of a session: an orphan by the same rule; the program drops it
                # (if it were add()ed alone it would be inserted and then deleted on its next change)
                c.dead = True
                self.propagate_dead()
                return "orphan_dropped"
        return None

    def m_delete(self, o):
        todo = [o]
        while todo:
            x = todo.pop()
            if x.state != "S":
                continue
            x.state = "D"
            self.dirty = True
            kids = self.children_of(x) if self.U.parentish(x.kind) else []
            for c in kids:
                c.parent = None
                c.stale = True
                if self.U.casc_delete:
                    todo.append(c)
            for q in self.objs:
                if q.fav is x and q is not x:
                    pass  # eligibility forbids deleting a referenced favourite
            if x.parent is not None and self.U.has_o2m:
                x.ghost_of = x.parent
            for t in x.tags:
                t.stale = True  # t.items (if mapped and loaded) keeps the deleted object until expired
            x.parent = None
            x.tags = []
            x.fav = None
            for c in self.objs:
                if x in c.tags:
                    c.tags = [t for t in c.tags if t is not x]
                    c.stale = True

    def _row_of(self, o, old):
        U = self.U
        row = {"cls": o.kind, "val": o.vals.get("val")}
        if U.uniq(o.kind):
            for k in ("code", "ga", "gb"):
                row[k] = o.vals.get(k)
        if o.kind == "Parent":
            if U.cfg["natpk"]:
                row["name"] = o.vals["name"]
            if U.cfg["fav"]:
                f = o.fav
                if f is None:
                    row["fav"] = None
                elif self.insess(f) and f.state != "D":
                    row["fav"] = f.uid
                else:
                    row["fav"] = old.get("fav") if old else None
        if U.childish(o.kind):
            p = o.parent
            if p is None:
                row["parent"] = None
            elif self.insess(p) and p.state != "D":
                row["parent"] = p.uid
            else:
                row["parent"] = old.get("parent") if old else None
            if U.fam == "pct" and U.cfg["inh"]:
                row["extra"] = o.vals.get("extra") if o.kind == "SubChild" else "NOSUB"
        return row

    def m_flush(self):
        U = self.U
        gone = [o for o in self.objs if o.state == "D"]
        for o in gone:
            key = (U.root(o.kind), o.uid)
            self.rows.pop(key, None)
            if U.childish(o.kind):
                self.pairs = {p for p in self.pairs if p[0] != o.uid or U.fam != "pct"}
            if o.kind == "Tag":
                self.pairs = {p for p in self.pairs if p[1] != o.uid}
            o.state = "G"
        for o in self.objs:
            if o.state in "PS" and not o.dead:
                key = (U.root(o.kind), o.uid)
                oldrow = self.rows.get(key)
                self.rows[key] = self._row_of(o, oldrow)
                if oldrow is not None and "name" in oldrow and oldrow["name"] != self.rows[key]["name"]:
                    self.keyswitched.add(o.idx)
                    self.keyswitch_log.append(o.idx)
        if U.fam == "pct":
            for c in self.objs:
                if c.state in "PS" and not c.dead and U.childish(c.kind):
                    keep = {p for p in self.pairs if p[0] == c.uid and not self._insess_uid("Tag", p[1])}
                    want = {(c.uid, t.uid) for t in c.tags if t.state in "PS" and not t.dead}
                    self.pairs = {p for p in self.pairs if p[0] != c.uid} | keep | want
        for o in self.objs:
            if o.state == "P" and not o.dead:
                o.state = "S"
        self.dirty = False

    def _insess_uid(self, root, uid):
        o = self.by_uid(root, uid)
        return o is not None and o.state in "PS" and not o.dead

    def m_reload(self, o, really_expired=True):
        """in-memory view of a persistent object := what its row says (expire + later load)"""
        U = self.U
        row = self.rows.get((U.root(o.kind), o.uid))
        if really_expired:  # (a savepoint rollback leaves unmodified collections, and their ghosts, loaded)
            for g in self.objs:
                if g.ghost_of is o:
                    g.ghost_of = None
        if row is None:
            return
        o.vals["val"] = row["val"]
        for k in ("code", "ga", "gb"):
            if k in row:
                o.vals[k] = row[k]
        if "name" in row:
            o.vals["name"] = row["name"]
        if o.kind == "SubChild":
            o.vals["extra"] = row.get("extra")
        if U.childish(o.kind):
            if o.parent is not None and o.parent.state == "T" and not o.parent.dead and row["parent"] is None:
                pass  # still a member of a transient parent's collection (nothing of that parent expires)
            else:
                o.parent = self.by_uid("Node" if U.fam == "node" else "Parent", row["parent"]) if row["parent"] is not None else None
            if U.fam == "pct":
                o.tags = [self.by_uid("Tag", t) for (c, t) in sorted(self.pairs) if c == o.uid]
                o.tags = [t for t in o.tags if t is not None]
        if o.kind == "Parent" and U.cfg["fav"]:
            o.fav = self.by_uid("Child", row["fav"]) if row.get("fav") is not None else None
        if really_expired:
            o.stale = False

    def m_commit(self):
        self.m_flush()
        del self.stack[:]
        self.push()
        self.keyswitched = set()
        if self.U.cfg["eoc"]:
            for o in self.objs:
                if o.state == "S" and not o.dead:
                    self.m_reload(o)

    def m_rollback_to(self, depth):
        """restore snapshot number ``depth`` (0 = outer transaction)"""
        snap = self.stack[depth]
        self.rows = copy.deepcopy(snap["rows"])
        self.pairs = set(snap["pairs"])
        for o in self.objs:
            was = snap["states"].get(o.idx, "T")
            if o.dead:
                if o.state in "PSDG":
                    o.state = "T"
                continue
            if o.state in "PSDG":
                if was in "TP":  # new in the rolled-back scope
                    o.state = "T"
                    o.dead = True
                elif was == "G":  # deleted before the scope began
                    o.state = "G"
                else:  # S, or X re-attached in scope: persistent again
                    o.state = "S"
            elif o.state == "X" and was in "TP":
                # inserted in the rolled-back scope, then expunged by the program: the rollback still
                # sends it back to transient
                o.state = "T"
                o.dead = True
            # other T and X objects are not touched by a rollback
        for o in self.objs:
            if o.state == "S" and not o.dead:
                self.m_reload(o, really_expired=(depth == 0))
        self.propagate_dead()
        del self.stack[max(depth, 1) :]  # the rolled-back savepoint is gone as well
        if depth == 0:
            del self.stack[:]
            self.push()
            self.keyswitched = set()
        self.dirty = False

    def m_release(self):
        self.m_flush()
        self.stack.pop()


# --------------------------------------------------------------------------- interpreter

OPS_ALL = [
    "new", "new", "new", "add", "set", "set", "append", "append", "remove", "replace", "clear",
    "setparent", "setparent", "clearparent", "tagadd", "tagadd", "tagremove", "pk", "fav",
    "delete", "delete", "expunge", "merge", "flush", "flush", "commit", "rollback", "nested", "release",
    "nrollback", "expire", "read", "close",
]

VALS = [None, 0, 1, 2, 3, -1]


def ops_strategy(codes, max_size=40, setup_codes=None, mid=("commit",)):
    """history = a few creations, a setup phase, a commit (so that later operations meet persistent,
    expired objects), then the main phase.  <= max_size ops in total"""
    small = st.integers(0, 15)
    op = st.tuples(st.sampled_from(codes), small, small, small).map(list)
    sop = st.tuples(st.sampled_from(setup_codes or SETUP_CODES), small, small, small).map(list)
    newop = st.tuples(st.just("new"), small, small, st.integers(0, 3)).map(list)
    midop = st.tuples(st.sampled_from(list(mid)), small, small, small).map(list)
    return st.builds(
        lambda pre, setup, m, body: (pre + setup + [m] + body)[:max_size],
        st.lists(newop, min_size=3, max_size=6),
        st.lists(sop, min_size=2, max_size=8),
        midop,
        st.lists(op, min_size=8, max_size=max_size - 15),
    )


SETUP_CODES = ["new", "add", "append", "append", "setparent", "setparent", "tagadd", "tagadd", "fav", "set", "replace", "flush", "ucode"]


class Interp:
    """runs a history program against a real Session and the model"""

    MAX_OBJS = 8

    def __init__(self, U, ctx, prop="C30", check_memory=True, check_reload=True, check_tx=False,
                 engine=None, stop_before_final_flush=False, pinned=False, listeners=None):
        from sqlalchemy import event
        from sqlalchemy.orm import Session

        self.U = U
        self.ctx = ctx
        self.prop = prop
        self.check_memory = check_memory
        self.check_reload = check_reload
        self.check_tx = check_tx
        self.pinned = pinned
        self.model = Model(U)
        self.engine = engine or make_engine(U, ctx)
        self.session = Session(self.engine, autoflush=U.cfg["autoflush"], expire_on_commit=U.cfg["eoc"])
        self.flush_count = 0
        self.nested = []  # real SessionTransaction objects of open savepoints
        self.pk_of = {}
        self.classes = set()
        self.flush_kinds = set()  # operation kinds since the last flush (non-trivial rule)
        self.flush_mappers = set()
        self.max_mix = 0
        self.counters = {"flush_checks": 0, "tx_checks": 0, "ops": 0, "skipped": 0}
        self.warnings = []
        self.trace = []
        self.ks_depth = {}  # idx -> savepoint depth at which its (latest) key switch was flushed
        self.ks_released = {}  # idx -> depth the key switch belongs to after its savepoint was released
        self._ks_consumed = 0
        self.scope_modified = []  # per open savepoint: objects whose attributes the program changed inside it
        self.scope_loaded = []  # per open savepoint: {idx: attribute keys loaded when it began}
        self.scope_children = []  # per open savepoint: children whose collection membership changed (one-directional o2m)
        self.scope_kinds = []  # per open savepoint: generic kinds of operations done inside it
        self.rich_rollback = False  # a savepoint at depth>=2 holding add+delete+modify was rolled back
        self.integrity_is_violation = True  # an IntegrityError from a flush of a model-valid state is the violation itself
        self.on_flush = None  # callback(kinds, mappers) at every flush (C31 statistics)
        self.op_no = 0
        self.boundary_at = 0  # index of the first op of the open transaction (C32 re-runs from here)
        self.nobjs_at_boundary = 0
        self.name_ctr_at_boundary = 0
        self.reuse_slots = None  # C32 re-run: slots of objects discarded by the rollback, re-created in order
        self.triggers = []  # known-finding triggers deliberately executed (pinned replays only)
        self.orphan_of = {}  # idx of an orphan-deleted object -> former parent
        event.listen(self.session, "after_flush_postexec", self._on_flush)
        self._observer = None

    # ---- plumbing
    def _on_flush(self, session, flush_context):
        self.flush_count += 1

    def observer(self):
        if self._observer is None:
            self._observer = sautil.raw_connect(self.engine._vf_path)
        return self._observer

    def close(self):
        try:
            self.session.close()
        finally:
            if self._observer is not None:
                self._observer.close()
            sautil.remove_db(self.engine)

    def viol(self, sig, msg, observed=None, expected=None):
        if self.triggers and sig.split("/")[0] in ("rows", "memory", "state", "reload", "order"):
            sig = self.triggers[0]
        raise Violation(f"{self.prop}/{sig}", msg + f"  [cfg={canon(self.U.cfg)} trace={self.trace[-12:]}]", observed=observed, expected=expected)

    def do(self, fn, label=None):
        """run one real action; if it autoflushed, the model flushes first (the
        flush precedes the mutation in every operation used here)"""
        before = self.flush_count
        r = self.guard(fn)
        if self.flush_count != before:
            self.model.m_flush()
            self._note_flush()
            self.pending_check = True
        return r

    def guard(self, fn):
        """run real code that may flush; classify the one exception with a known root cause"""
        from sqlalchemy.exc import CircularDependencyError

        try:
            return fn()
        except Violation:
            raise
        except Exception as e:
            from sqlalchemy.exc import IntegrityError

            if isinstance(e, IntegrityError) and self.integrity_is_violation and not self.triggers:
                self.viol("order/integrity-error-on-constraint-valid-final-state",
                          f"flush raised IntegrityError although the pending state is constraint-valid: {str(e)[:300]}")
            if self.triggers and not isinstance(e, (HarnessError, CircularDependencyError)):
                self.viol(self.triggers[0], f"{type(e).__name__}: {str(e)[:300]}")
            if not isinstance(e, CircularDependencyError):
                raise
            if self.U.fam == "node":
                self.viol("flush/spurious-circular-dependency-on-tree-rearrangement",
                          "flush raised CircularDependencyError although the final adjacency list is a tree and "
                          f"only UPDATEs are needed: {str(e)[:200]}")
            raise

    def _note_flush(self, depth=None):
        depth = len(self.nested) if depth is None else depth
        log = self.model.keyswitch_log
        for idx in log[self._ks_consumed:]:
            self.ks_depth[idx] = depth
            if self.U.cfg.get("natpk") == "passive":
                # ON UPDATE CASCADE changed the children's rows; the unit of work refreshes the foreign-key attribute only of
                # children in a *loaded* collection (documented for passive_updates=True): the program expires the rest
                holder = self.model.objs[idx]
                for ch in self.model.children_of(holder):
                    d = ch.real.__dict__ if ch.state == "S" else {}
                    if "parent_ref" in d and d["parent_ref"] != holder.vals["name"]:
                        self.session.expire(ch.real, ["parent_ref"])
                        self.ctx.info("stale FK attribute after ON UPDATE CASCADE expired by the program")
            if depth >= 1:
                self.classes.add("pk-switch-flushed-inside-savepoint")
        self._ks_consumed = len(log)
        if self.on_flush is not None:
            self.on_flush(set(self.flush_kinds), set(self.flush_mappers))
        self.orphan_of = {}
        mix = len(self.flush_kinds)
        if mix >= 2 and len(self.flush_mappers) >= 2:
            self.classes.add("mixed-flush")
        if "pk" in self.flush_kinds:
            self.classes.add("pk-change-flush")
        if "replace" in self.flush_kinds:
            self.classes.add("replace-flush")
        self.max_mix = max(self.max_mix, mix)
        self.flush_kinds = set()
        self.flush_mappers = set()

    def touch(self, kind, *objs):
        self.flush_kinds.add(kind)
        gen = "add" if kind == "add" else "delete" if kind == "delete" else "modify"
        for sc in self.scope_kinds:
            sc.add(gen)
        if gen == "modify":
            for sc in self.scope_modified:
                sc.update(o.idx for o in objs if o is not None)
        if kind in ("append", "reparent", "remove", "clear", "replace", "clearparent") and self.U.has_o2m and not self.U.is_bidir:
            for sc in self.scope_children:
                sc.update(o.idx for o in objs if o is not None and self.U.childish(o.kind))
                # delete-marked members that the loaded collection still holds receive the same remove events
                sc.update(g.idx for g in self.model.objs if g.ghost_of is not None and any(g.ghost_of is o for o in objs))
        for o in objs:
            if o is not None:
                self.flush_mappers.add(self.U.root(o.kind))
        self.model.dirty = True

    # ---- operand pools
    def pool(self, pred):
        return [o for o in self.model.objs if self.model.live(o) and pred(o)]

    def pick(self, lst, i):
        return lst[i % len(lst)] if lst else None

    def linkable(self, o):
        # detached objects do not take part in relationship operations (unloaded
        # attributes of a detached object cannot load)
        return o.state in "TPS"

    # ---- program
    def run(self, ops, until=None):
        with warnings.catch_warnings(record=True) as w:
            warnings.simplefilter("always")
            try:
                for n, op in enumerate(ops):
                    if until is not None and n >= until:
                        break
                    self.op_no = n
                    self.step(op)
            finally:
                self.warnings.extend(str(x.message)[:60] for x in w)

    def step(self, op):
        code, a, b, c = op
        self.pending_check = False
        self.counters["ops"] += 1
        self.trace.append(op)
        done = getattr(self, "op_" + code)(a, b, c)
        if done is False:
            self.counters["skipped"] += 1
        if self.pending_check:
            self.check_flush_point("autoflush")

    # ---- object creation / session membership
    def mark_boundary(self):
        self.boundary_at = self.op_no + 1
        self.nobjs_at_boundary = len(self.model.objs)
        self.name_ctr_at_boundary = self.model.name_ctr

    CODES = [1, 2, 3, 4, 5]
    PAIRS = [(1, 1), (1, 2), (2, 1), (2, 2)]

    def room(self):
        return len(self.model.objs) - len(self.reuse_slots or ()) < self.MAX_OBJS

    def _create(self, kind, b, c, add, name=None, uniq=None):
        m = self.model
        idx = self.reuse_slots.pop(0) if self.reuse_slots else len(m.objs)
        o = MObj(idx, kind, 100 + idx)
        o.vals["val"] = VALS[b % len(VALS)]
        kw = {"uid": o.uid, "val": o.vals["val"]}
        if kind == "SubChild":
            o.vals["extra"] = VALS[(b + c) % len(VALS)]
            kw["extra"] = o.vals["extra"]
        if kind == "Parent" and self.U.cfg["natpk"]:
            if name is None:
                m.name_ctr += 1
                name = f"k{m.name_ctr}"
            o.vals["name"] = name
            kw["name"] = name
        if self.U.uniq(kind):
            o.vals.update(code=None, ga=None, gb=None)
            o.state = "P" if add else "T"  # (for the eligibility rule below; m_add sets it for real)
            vals = dict(uniq or {})
            if add and uniq is None:
                # objects that go straight into the session start with unique values where some are free
                cv = next((v for v in self.CODES[b % 5:] + self.CODES[: b % 5] if self._uniq_ok(o, "code", v)), None)
                pv = next((v for v in self.PAIRS[c % 4:] + self.PAIRS[: c % 4] if self._uniq_ok(o, "pair", v)), None)
                if cv is not None and b % 3:
                    vals["code"] = cv
                if pv is not None and c % 3 == 0:
                    vals["ga"], vals["gb"] = pv
            o.state = "T"
            o.vals.update(vals)
            kw.update(vals)
        o.real = self.U.classes[kind](**kw)
        if idx < len(m.objs):
            m.objs[idx] = o
        else:
            m.objs.append(o)
        if add:
            self._add(o)
        return o

    def op_new(self, a, b, c):
        if not self.room():
            return False
        self._create(self.U.kinds[a % len(self.U.kinds)], b, c, c % 2 == 0)
        return True

    # ---- UNIQUE columns: code, (ga, gb); and the natural primary key
    def _uval(self, vals, attr):
        if attr == "pair":
            return None if vals.get("ga") is None or vals.get("gb") is None else (vals["ga"], vals["gb"])
        return vals.get(attr)

    def _uniq_ok(self, x, attr, value):
        """may x (same table as the other holders) take ``value`` for the unique key ``attr`` ("code", "pair", "name") so that
        the next flush is valid *in the order the unit of work documents*: per table UPDATEs, then INSERTs, DELETEs last.
        => nobody else holds it in memory; if a row still holds it in the database, that row belongs to a persistent,
        not-deleted object that has given it up in memory (UPDATE first) and x is pending (INSERT afterwards)."""
        if value is None:
            return True
        m, root = self.model, self.U.root(x.kind)
        for z in m.objs:
            if z is x or z.dead or self.U.root(z.kind) != root or z.state not in "TPSDX":
                continue
            if self._uval(z.vals, attr) == value:
                return False
        for (r, uid), row in m.rows.items():
            if r != root or uid == x.uid or self._uval(row, attr) != value:
                continue
            y = m.by_uid(root, uid)
            if y is None or y.dead or y.state != "S" or x.state != "P":
                return False
            if self.U.fam == "node":
                # a self-referential mapper is flushed state by state in dependency order; UPDATE-before-INSERT is
                # only what the unit of work does inside one per-mapper save batch: not generated here
                return False
            return "handover"
        return True

    def _set_uniq(self, o, attr, value):
        if attr == "pair":
            ga, gb = value if value is not None else (None, None)
            self.do(lambda: (setattr(o.real, "ga", ga), setattr(o.real, "gb", gb)))
            o.vals.update(ga=ga, gb=gb)
        else:
            self.do(lambda: setattr(o.real, attr, value))
            o.vals[attr] = value
        self.touch("set", o)

    def op_ucode(self, a, b, c):
        """assign a UNIQUE value (single column or composite pair) to an in-session object"""
        o = self.pick(self.pool(lambda o: self.U.uniq(o.kind) and o.state in "PS"), a)
        if o is None:
            return self.op_set(a, b, c)
        attr = "pair" if c % 2 else "code"
        value = None if b % 6 == 0 else (self.PAIRS[b % 4] if attr == "pair" else self.CODES[b % 5])
        ok = self._uniq_ok(o, attr, value)
        if not ok:
            return False
        if ok == "handover":
            self.classes.add("unique-handover-" + ("composite" if attr == "pair" else "single"))
        self._set_uniq(o, attr, value)

    def op_hand(self, a, b, c):
        """hand-over inside one flush: a persistent row gives up a primary-key / UNIQUE value and a brand-new object of the
        same class takes exactly that value (UPDATE before INSERT is what the unit of work does within a table)"""
        m, U = self.model, self.U
        if U.fam == "node":
            return self.op_ucode(a, b, c)
        modes = ["code", "pair"] + (["name"] if U.fam == "pct" and U.cfg["natpk"] else [])
        for attr in modes[c % len(modes):] + modes[: c % len(modes)]:
            if attr == "name":
                holders = self.pool(lambda o: o.kind == "Parent" and o.state == "S" and m.rows.get(("Parent", o.uid), {}).get("name") == o.vals.get("name"))
            else:
                holders = self.pool(lambda o: U.uniq(o.kind) and o.state == "S" and self._uval(o.vals, attr) is not None
                                    and self._uval(m.rows.get((U.root(o.kind), o.uid), {}), attr) == self._uval(o.vals, attr))
            y = self.pick(holders, a)
            if y is None or not self.room():
                continue
            value = self._uval(y.vals, attr) if attr != "name" else y.vals["name"]
            if attr == "name":
                if y.idx in self.ks_depth and self.ks_depth[y.idx] < len(self.nested):
                    continue  # (known finding: second key switch in a deeper savepoint)
                if m.stack[0]["states"].get(y.idx, "T") in "TP":
                    continue  # (known finding: key switch of a row inserted in this transaction)
                if U.cfg["natpk"] == "passive" and (m.children_of(y) or any(r.get("parent") == y.uid for k, r in m.rows.items() if k[0] == "Child")):
                    # ON UPDATE CASCADE would move the children's rows to the new name while a child re-parented to the
                    # taker keeps the (textually unchanged) old name in memory: only childless rows hand their key over
                    continue
                if U.has_o2m and not U.cfg["autoflush"] and "children" not in y.real.__dict__:
                    self.do(lambda: y.real.children)
                m.name_ctr += 1
                fresh = f"k{m.name_ctr}"
                self.do(lambda: setattr(y.real, "name", fresh))
                y.vals["name"] = fresh
                self.touch("pk", y)
                self._create("Parent", b, c, True, name=value)
                self.classes.add("unique-handover-pk")
            else:
                # the old holder switches to None or to another free value
                repl = None
                if b % 2:
                    cands = self.PAIRS if attr == "pair" else self.CODES
                    repl = next((v for v in cands if v != value and self._uniq_ok(y, attr, v) is True), None)
                self._set_uniq(y, attr, repl)
                uq = {"ga": value[0], "gb": value[1]} if attr == "pair" else {"code": value}
                self._create(y.kind, b, c, True, uniq=uq)
                self.classes.add("unique-handover-" + ("composite" if attr == "pair" else "single"))
            return True
        return False

    def _add(self, o):
        self.do(lambda: self.session.add(o.real))
        self.model.m_add(o)
        self.touch("add", o)

    def op_add(self, a, b, c):
        # (re-adding a persistent object is a no-op except for its cascade, which raises on the deleted
        # objects that loaded collections are documented to keep until expired: not generated)
        o = self.pick(self.pool(lambda o: o.state in "TX"), a)
        if o is None:
            return False
        self._add(o)

    def op_set(self, a, b, c):
        o = self.pick(self.pool(lambda o: True), a)
        if o is None:
            return False
        attrs = self.U.scalars(o.kind)
        attr = attrs[c % len(attrs)]
        val = o.vals.get(attr) if b % 7 == 6 else VALS[b % len(VALS)]  # b%7==6: re-assign the same value
        self.do(lambda: setattr(o.real, attr, val))
        o.vals[attr] = val
        self.touch("set", o)

    # ---- one-to-many / many-to-one
    def _cycle(self, c, p):
        return self.U.fam == "node" and (c is p or p in self.model.descendants(c))

    def _union_cycle_hazard(self, c, p):
        """node family: would (edges already flushed) + (in-memory edges incl. c->p) contain a cycle?
        The unit of work sorts on old and new edges together and then raises CircularDependencyError
        although the final graph is a tree (known finding); programs flush first instead."""
        if self.U.fam != "node":
            return False
        m = self.model
        edges = {}
        for o in m.objs:
            if o.dead or o.state not in "PS":
                continue
            ps = set()
            if o.parent is not None:
                ps.add(o.parent.idx)
            row = m.rows.get(("Node", o.uid))
            if row is not None and row.get("parent") is not None:
                q = m.by_uid("Node", row["parent"])
                if q is not None:
                    ps.add(q.idx)
            edges[o.idx] = ps
        edges.setdefault(c.idx, set()).add(p.idx)
        # cycle reachable from c?
        seen, todo = set(), [p.idx]
        while todo:
            x = todo.pop()
            if x == c.idx:
                return True
            if x in seen:
                continue
            seen.add(x)
            todo.extend(edges.get(x, ()))
        return False

    def _split_flush_for_tree_move(self, c, p):
        if self._union_cycle_hazard(c, p) and not self.pinned:
            self.ctx.exclude("adjacency list: old + new parent edges of one flush form a cycle -> CircularDependencyError (known finding); flushed first")
            self._explicit_flush("pre-flush")
            return True
        return False

    def _preload_parent(self, c):
        """read c.parent first when the old parent's collection is loaded but c.parent is not, so
        that the backref can maintain the old collection (otherwise it is documented to stay stale)"""
        # (many-to-one only: without the old value the unit of work cannot order the deletes of the old
        # parent and of this row either)
        if self.U.has_m2o and c.state == "S" and c.parent is not None and "parent" not in c.real.__dict__:
            self.do(lambda: c.real.parent)

    def _ensure_session_for_link(self, initiator, target):
        # a backref-only association of an out-of-session object with an in-session one does not
        # cascade (2.0); programs add the initiating object first, as an application would
        m = self.model
        if target is not None and not m.insess(initiator) and m.insess(target):
            self._add(initiator)

    def _orphan_move_hazard(self, c, newp, newp_in_session=None):
        """pending child moved to another parent in one step under delete-orphan (known finding)"""
        if not (self.U.casc_orphan and self.U.is_bidir and c.parent is not None and newp is not None and newp is not c.parent):
            return False
        # the child is (or becomes, through the cascade of this very operation) pending
        if newp_in_session is None:
            newp_in_session = self.model.insess(newp)
        return c.state == "P" or (c.state == "T" and newp_in_session)

    def _can_unparent(self, c):
        # pending orphan expunge cascades over 'children' under cascade=all: keep it to leaves
        if self.U.casc_orphan and c.state == "P" and self.U.casc_expunge and self.model.children_of(c):
            return False
        if self.U.casc_orphan and c.state in "TP" and any(q.fav is c and not q.dead for q in self.model.objs):
            # the pending child would be expunged while a holder still names it as favourite: the holder would then
            # reference an object outside the session (its row keeps the old value): the application clears it first
            return False
        if self.U.casc_orphan and c.state == "S" and c.parent is not None:
            # orphaning is generated for flushed associations only (append + remove inside one
            # flush has no net history; whether the row is then an orphan is not specified)
            row = self.model.rows.get((self.U.root(c.kind), c.uid))
            if row is None or row.get("parent") != c.parent.uid:
                return False
            return self._can_delete(c) and self._orphan_cascade_ok(c)
        return True

    def _coll_add(self, coll, x):
        (coll.append if isinstance(coll, list) else coll.add)(x)

    def _link_via_collection(self, p, c):
        m = self.model
        old = c.parent
        if old is p:
            return False
        if self._cycle(c, p):
            return False
        if self._orphan_move_hazard(c, p):
            if not self.pinned:
                self.ctx.exclude("delete-orphan: pending child moved to another parent in one step (known finding)")
                return False
            self.triggers.append("delete-orphan/pending-child-moved-to-other-parent-is-expunged")
        split_done = self._split_flush_for_tree_move(c, p)  # before any step of the move
        if split_done and (c.parent is not old or not self.linkable(c) or not self.linkable(p)):
            return False
        if old is not None and not self.U.is_bidir:
            # no backref: the application removes the child from the old collection itself
            if not m.insess(old) and m.insess(c):
                self._add(old)
            if m.insess(c) and not m.insess(p):
                self._add(p)  # the target joins the session first, so that the moved child cannot drop out of it half-way
            if not self._can_unparent_for_move(c):
                return False
            # load both collections first: a lazy load would autoflush between the two steps of the move (and, under
            # delete-orphan, delete the momentarily parentless row; appending the deleted object is then rejected
            # with the documented "has been deleted" error).  An autoflush can turn a pending target into a
            # persistent one with an unloaded collection, hence the loop.
            for _ in range(3):
                pend = [x for x in (old, p) if x.state == "S" and "children" not in x.real.__dict__]
                if not pend:
                    break
                for x in pend:
                    self.do(lambda: x.real.children)
            if c.parent is not old or not (self.linkable(c) and self.linkable(p) and self.linkable(old)) or not self._can_unparent_for_move(c):
                return False
            self.do(lambda: old.real.children.remove(c.real))
            moved_state = c.state
            c.parent = None
            if self.U.casc_orphan and moved_state == "P":
                c.state = "T"  # documented: pending orphan is expunged, re-attached by the append below
        self._preload_parent(c)
        self._ensure_session_for_link(p, c)
        self.do(lambda: self._coll_add(p.real.children, c.real))
        if m.insess(p):
            m.m_add(c)
        c.parent = p
        c.stale = False
        self.touch("reparent" if old is not None else "append", p, c)
        return True

    def _can_unparent_for_move(self, c):
        if self.U.casc_orphan and c.state in "TP" and any(q.fav is c and not q.dead for q in self.model.objs):
            return False  # would leave the session (pending orphan) while a holder still names it as favourite
        return not (self.U.casc_orphan and c.state == "P" and self.U.casc_expunge and self.model.children_of(c))

    def op_append(self, a, b, c):
        if not self.U.has_o2m:
            return self.op_setparent(b, a, c)
        p = self.pick(self.pool(lambda o: self.U.parentish(o.kind) and self.linkable(o)), a)
        ch = self.pick(self.pool(lambda o: self.U.childish(o.kind) and self.linkable(o) and o is not p), b)
        if p is None or ch is None:
            return False
        return self._link_via_collection(p, ch)

    def _unparent_model(self, ch):
        self._unparent_from = ch.parent
        had_kids = bool(self.model.children_of(ch))
        r = self.model.m_setparent(ch, None)
        if r == "orphan_deleted" and not had_kids:
            self._unparent_from = None  # nothing to cascade to: harmless
        if r == "orphan_expunged":
            self.classes.add("pending-orphan-expunged")
        elif r == "orphan_deleted":
            self.classes.add("orphan-delete")
            self.flush_kinds.add("delete")
            self.orphan_of[ch.idx] = self._unparent_from

    def _settle(self, p):
        """load p.children now, so that the autoflush of that load happens before eligibility is judged"""
        if p.state == "S" and "children" not in p.real.__dict__:
            self.do(lambda: p.real.children)

    def op_remove(self, a, b, c):
        if not self.U.has_o2m:
            return self.op_clearparent(a, b, c)
        p = self.pick(self.pool(lambda o: self.U.parentish(o.kind) and self.linkable(o) and self.model.children_of(o)), a)
        if p is None:
            return False
        self._settle(p)
        kids = [k for k in self.model.children_of(p) if self.linkable(k)]
        ch = self.pick(kids, b)
        if ch is None or not self._can_unparent(ch):
            return False
        self._preload_parent(ch)
        self.do(lambda: p.real.children.remove(ch.real))
        self._unparent_model(ch)
        self.touch("remove", p, ch)

    def op_clear(self, a, b, c):
        if not self.U.has_o2m:
            return False
        p = self.pick(self.pool(lambda o: self.U.parentish(o.kind) and self.linkable(o) and self.model.children_of(o)), a)
        if p is None:
            return False
        self._settle(p)
        kids = self.model.children_of(p)
        if not all(self.linkable(k) and self._can_unparent(k) for k in kids) or not self._can_unparent_all(kids):
            return False
        for k in kids:
            self._preload_parent(k)
        self.do(lambda: p.real.children.clear())
        for k in kids:
            self._unparent_model(k)
        self.touch("clear", p, *kids)

    def _can_unparent_all(self, kids):
        # orphan deletes are checked one by one by _can_delete; nothing more to check together
        return True

    def op_replace(self, a, b, c):
        if not self.U.has_o2m:
            return False
        m = self.model
        p = self.pick(self.pool(lambda o: self.U.parentish(o.kind) and self.linkable(o)), a)
        if p is None:
            return False
        self._settle(p)
        cands = self.pool(lambda o: self.U.childish(o.kind) and self.linkable(o) and o is not p)
        mask = (b << 4) | c
        chosen = [k for i, k in enumerate(cands) if mask >> i & 1]
        old = m.children_of(p)
        if not m.insess(p) and any(m.insess(k) for k in chosen if k not in old):
            # the owner joins the session first (its cascade may pull its transient subtree in): everything below is
            # judged on the resulting states
            self._add(p)
            cands2 = self.pool(lambda o: self.U.childish(o.kind) and self.linkable(o) and o is not p)
            chosen = [k for k in chosen if k in cands2]
            old = m.children_of(p)
        removed = [k for k in old if k not in chosen]
        added = [k for k in chosen if k not in old]
        if not all(self.linkable(k) and self._can_unparent(k) for k in removed):
            return False
        for k in added:
            if self._cycle(k, p):
                return False
            if k.parent is not None and not self.U.is_bidir:
                return False  # without a backref a move needs an explicit removal first
            if self._orphan_move_hazard(k, p, m.insess(p) or any(m.insess(x) for x in added)):
                if not self.pinned:
                    self.ctx.exclude("delete-orphan: pending child moved to another parent in one step (known finding)")
                    return False
                self.triggers.append("delete-orphan/pending-child-moved-to-other-parent-is-expunged")
        if any(self._union_cycle_hazard(k, p) for k in added) and not self.pinned:
            self.ctx.exclude("adjacency list: old + new parent edges of one flush form a cycle -> CircularDependencyError (known finding); flushed first")
            self._explicit_flush("pre-flush")
        if added and not m.insess(p) and any(m.insess(k) for k in added):
            self._add(p)
        for k in added + removed:
            self._preload_parent(k)
        new = [k.real for k in chosen]
        if c % 2:
            new.reverse()
        value = new if self.U.cfg["coll"] == "list" else set(new)
        self.do(lambda: setattr(p.real, "children", value))
        for k in added:  # first: a child moved here from a removed one must not be cascade-deleted with it
            if m.insess(p):
                m.m_add(k)
            k.parent = p
            k.stale = False
        for k in removed:
            self._unparent_model(k)
        self.touch("replace", p, *(added + removed))
        if not (added or removed):
            self.flush_kinds.discard("replace")

    def op_setparent(self, a, b, c):
        if not self.U.has_m2o:
            return self.op_append(b, a, c)
        m = self.model
        ch = self.pick(self.pool(lambda o: self.U.childish(o.kind) and self.linkable(o)), a)
        p = self.pick(self.pool(lambda o: self.U.parentish(o.kind) and self.linkable(o) and o is not ch), b)
        if ch is None or p is None or ch.parent is p or self._cycle(ch, p):
            return False
        if self._orphan_move_hazard(ch, p):
            if not self.pinned:
                self.ctx.exclude("delete-orphan: pending child moved to another parent in one step (known finding)")
                return False
            self.triggers.append("delete-orphan/pending-child-moved-to-other-parent-is-expunged")
        old = ch.parent
        self._split_flush_for_tree_move(ch, p)
        self._preload_parent(ch)
        self._ensure_session_for_link(ch, p)
        self.do(lambda: setattr(ch.real, "parent", p.real))
        if m.insess(ch):
            m.m_add(p)
        ch.parent = p
        ch.stale = False
        self.touch("reparent" if old is not None else "setparent", ch, p)

    def op_clearparent(self, a, b, c):
        if not self.U.has_m2o:
            return self.op_remove(a, b, c)
        ch = self.pick(self.pool(lambda o: self.U.childish(o.kind) and self.linkable(o) and o.parent is not None), a)
        if ch is None:
            ch = self.pick(self.pool(lambda o: self.U.childish(o.kind) and self.linkable(o)), a)
            if ch is None:
                return False
        if not self.U.cfg["fk_nullable"] and not self.U.casc_orphan:
            return False
        self._preload_parent(ch)
        if ch.parent is not None and not self._can_unparent(ch):
            return False
        self.do(lambda: setattr(ch.real, "parent", None))
        if ch.parent is not None:
            p = ch.parent
            self._unparent_model(ch)
            self.touch("clearparent", ch, p)
        else:
            ch.stale = False
            self.touch("set", ch)

    # ---- many-to-many
    def op_tagadd(self, a, b, c):
        if self.U.fam != "pct":
            return self.op_append(a, b, c)
        m = self.model
        ch = self.pick(self.pool(lambda o: self.U.childish(o.kind) and self.linkable(o)), a)
        t = self.pick(self.pool(lambda o: o.kind == "Tag" and self.linkable(o)), b)
        if ch is None or t is None or t in ch.tags:
            return False
        if c % 3 == 0 and self.U.has_items:
            self._ensure_session_for_link(t, ch)
            self.do(lambda: self._coll_add(t.real.items, ch.real))
            if m.insess(t):
                m.m_add(ch)
        else:
            self._ensure_session_for_link(ch, t)
            self.do(lambda: self._coll_add(ch.real.tags, t.real))
            if m.insess(ch):
                m.m_add(t)
        ch.tags.append(t)
        self.touch("tagadd", ch, t)

    def op_tagremove(self, a, b, c):
        if self.U.fam != "pct":
            return self.op_remove(a, b, c)
        ch = self.pick(self.pool(lambda o: self.U.childish(o.kind) and self.linkable(o) and [t for t in o.tags if self.linkable(t)]), a)
        if ch is None:
            return False
        t = self.pick([t for t in ch.tags if self.linkable(t)], b)
        if c % 3 == 0 and self.U.has_items:
            self.do(lambda: t.real.items.remove(ch.real))
        else:
            self.do(lambda: ch.real.tags.remove(t.real))
        ch.tags.remove(t)
        self.touch("tagremove", ch, t)

    # ---- favourite (post_update many-to-one Parent -> Child)
    def op_fav(self, a, b, c):
        if self.U.fam != "pct" or not self.U.cfg["fav"]:
            return self.op_set(a, b, c)
        m = self.model
        p = self.pick(self.pool(lambda o: o.kind == "Parent" and self.linkable(o)), a)
        if p is None:
            return False
        ch = None if c % 4 == 0 else self.pick(self.pool(lambda o: self.U.childish(o.kind) and self.linkable(o)), b)
        if c % 4 in (1, 2) and self.model.children_of(p):
            ch = self.pick([k for k in self.model.children_of(p) if self.linkable(k)], b) or ch  # the usual shape: favourite among one's own children
        if ch is p.fav:
            return False
        if ch is not None:
            self._ensure_session_for_link(p, ch)
        self.do(lambda: setattr(p.real, "favorite", ch.real if ch is not None else None))
        if ch is not None and m.insess(p):
            m.m_add(ch)
        p.fav = ch
        self.touch("fav", p, ch)

    # ---- primary key change
    def op_pk(self, a, b, c):
        if self.U.fam != "pct" or not self.U.cfg["natpk"]:
            return self.op_set(a, b, c)
        m = self.model
        p = self.pick(self.pool(lambda o: o.kind == "Parent" and o.state in "TPS"), a)
        if p is None:
            return False
        if p.state == "S" and self.U.has_o2m and not self.U.cfg["autoflush"] and "children" not in p.real.__dict__:
            # with autoflush off, an unloaded collection would later be loaded by the *new* key value
            # (and come back empty); an application in that mode loads it before switching the key
            self.do(lambda: p.real.children)
        if p.state == "S" and p.idx in self.ks_depth and self.ks_depth[p.idx] < len(self.nested):
            if not self.pinned:
                self.ctx.exclude("second key switch of a row inside a deeper savepoint than the first (known finding: release overwrites the original key)")
                return False
            self.triggers.append("nested/key-switch-chain-loses-original-key-on-release")
        if p.state == "S" and m.stack[0]["states"].get(p.idx, "T") in "TP":
            if not self.pinned:
                self.ctx.exclude("key switch of a row inserted in the same transaction: a rollback leaves the object detached, not transient (known finding)")
                return False
            self.triggers.append("state/inserted-and-key-switched-object-detached-after-rollback")
        m.name_ctr += 1
        name = f"k{m.name_ctr}"
        self.do(lambda: setattr(p.real, "name", name))
        p.vals["name"] = name
        self.touch("pk" if p.state == "S" else "set", p)

    # ---- delete / expunge / merge / expire
    def _can_delete(self, o, seen=None):
        """session.delete(o) is well-defined for the model: see the module docstring of c30"""
        m, U = self.model, self.U
        if o.state != "S":
            return False
        row0 = m.rows.get((U.root(o.kind), o.uid))
        if row0 is not None and U.uniq(o.kind):
            for attr in ("code", "pair"):
                v = self._uval(row0, attr)
                if v is not None and any(z is not o and not z.dead and U.root(z.kind) == U.root(o.kind) and z.state in "TPSX"
                                         and self._uval(z.vals, attr) == v for z in m.objs):
                    return False  # DELETEs come last: "delete the row holding v + insert a row with v" in one flush is a documented limitation
        if row0 is not None and "name" in row0 and row0["name"] != o.vals.get("name"):
            return False  # key switched but not flushed, then deleted: a void combination (see report: post_update uses the new key)
        seen = seen or set()
        seen.add(o.idx)
        if U.parentish(o.kind):
            kids = [k for k in self.model.objs if k.parent is o and not k.dead and k.state in "TPSX"]
            if kids and not U.has_o2m:
                return False  # many-to-one only: nothing would null or delete the referencing rows
            for k in kids:
                if k.state != "S":
                    return False
                row = m.rows.get((U.root(k.kind), k.uid))
                if row is None or row.get("parent") != o.uid:
                    return False  # link not flushed yet: deleting the new parent is an application error
                if not U.casc_delete and not U.cfg["fk_nullable"]:
                    return False
                if U.casc_delete and k.idx not in seen and not self._can_delete(k, seen):
                    return False
            # rows that still reference o but whose object moved away in memory are handled by flush order
        if U.childish(o.kind):
            if U.has_o2m and o.parent is not None:
                # an object appended to a one-to-many collection in the same flush has its delete
                # cancelled by design (UOWTransaction.register_object(cancel_delete=True))
                row = m.rows.get((U.root(o.kind), o.uid))
                if row is None or row.get("parent") != o.parent.uid:
                    return False
            if U.fam == "pct":
                for t in o.tags:
                    # association not flushed yet: the other side's save would insert it while this row is deleted
                    if (o.uid, t.uid) not in m.pairs or t.state != "S":
                        return False
            for q in m.objs:
                if q.fav is o and q.state != "G" and not q.dead and q.idx not in seen:
                    return False  # a favourite must be cleared by the application first (unless its holder goes too)
            for key, row in m.rows.items():
                if key[0] == "Parent" and row.get("fav") == o.uid:
                    holder = m.by_uid("Parent", key[1])
                    if holder is None:
                        return False
                    if holder.idx in seen:
                        continue  # deleted together with its holder
                    if holder.state == "S" and not holder.dead and holder.fav is not o:
                        continue  # re-pointed / cleared in memory: the same flush updates the holder row first (post_update)
                    return False
        if o.kind == "Tag":
            refs = [ch for ch in m.objs if o in ch.tags and not ch.dead]
            if not U.has_items and (refs or any(p[1] == o.uid for p in m.pairs)):
                return False
            for ch in refs:
                if (ch.uid, o.uid) not in m.pairs or ch.state != "S":
                    return False
        return True

    def _orphan_cascade_ok(self, o):
        """o (and its delete-cascade closure) is about to be deleted; false if that triggers the known
        finding 'delete cascade of an unflushed orphan is lost when its former parent is deleted too'"""
        closure = [o] + (self.model.descendants(o) if self.U.casc_delete else [])
        if any(par is not None and par in closure and self.model.objs[i].state == "D" for i, par in self.orphan_of.items()):
            if not self.pinned:
                self.ctx.exclude("delete-orphan: former parent of an unflushed orphan (with children) deleted in the same flush (known finding)")
                return False
            self.triggers.append("delete-orphan/delete-cascade-of-orphan-lost-when-former-parent-deleted")
        return True

    def op_delete(self, a, b, c):
        o = self.pick(self.pool(lambda o: o.state == "S"), a)
        if o is None or not self._can_delete(o):
            return False
        if not self._orphan_cascade_ok(o):
            return False
        if self.U.casc_delete:
            closure = [o] + self.model.descendants(o)
            # (a delete-marked member is harmless unless an autoflush in the middle of the cascade walk turns it
            # into a deleted one: only the self-referential family lazy-loads while walking)
            risky = "DG" if (self.U.fam == "node" and self.U.cfg["autoflush"]) else "G"
            if any(g.state in risky and g.ghost_of in closure for g in self.model.objs):
                if not self.pinned:
                    self.ctx.exclude("delete cascade over a loaded collection that still holds an object deleted earlier in the transaction (known finding: it is revived by a savepoint rollback)")
                    return False
                self.triggers.append("state/deleted-before-savepoint-revived-by-savepoint-rollback")
        if self.U.fam == "pct" and self.U.cfg["fav"]:
            clos = [o] + (self.model.descendants(o) if self.U.casc_delete else [])
            for h in clos:
                row = self.model.rows.get(("Parent", h.uid)) if h.kind == "Parent" else None
                if row is not None and row.get("fav") is not None and h.fav is None and any(
                        x.uid == row["fav"] and self.U.childish(x.kind) and (x in clos or x.state == "D") for x in self.model.objs):
                    if not self.pinned:
                        self.ctx.exclude("post_update reference cleared in memory, then holder and old target deleted in one flush (known finding: no NULL-out before the DELETE)")
                        return False
                    self.triggers.append("post_update/cleared-reference-then-delete-holder-and-target-skips-null-out")
        self.do(lambda: self.session.delete(o.real))
        mappers = [o] + (self.model.descendants(o) if self.U.casc_delete else [])
        if any(q.fav is not None and q.fav in mappers for q in mappers):
            self.classes.add("delete-favourite-with-its-holder")
        if self.U.fam == "pct" and self.U.cfg["fav"]:
            for x in mappers:
                for key, row in self.model.rows.items():
                    if key[0] == "Parent" and row.get("fav") == x.uid:
                        h = self.model.by_uid("Parent", key[1])
                        if h is not None and h not in mappers and h.fav is not x:
                            self.classes.add("repoint-favourite-and-delete-old-target" if h.fav is not None else "null-favourite-and-delete-old-target")
        self.model.m_delete(o)
        self.touch("delete", *mappers)

    def _isolated(self, o):
        m = self.model
        if o.stale or o.parent is not None or o.tags or o.fav is not None:
            return False
        if any(g.ghost_of is o for g in m.objs):
            return False  # its loaded collection may still hold deleted objects (documented until expiry); a later add() would cascade onto them
        if m.children_of(o) or m.items_of(o) or any(q.fav is o for q in m.objs):
            return False
        key = (self.U.root(o.kind), o.uid)
        row = m.rows.get(key)
        if row is not None and (row.get("parent") is not None or row.get("fav") is not None):
            return False
        if any(p[0] == o.uid or p[1] == o.uid for p in m.pairs if (key[0] == "Child") == (p[0] == o.uid) or key[0] == "Tag"):
            if key[0] == "Child" and any(p[0] == o.uid for p in m.pairs):
                return False
            if key[0] == "Tag" and any(p[1] == o.uid for p in m.pairs):
                return False
        if key[0] in ("Parent", "Node") and any(r.get("parent") == o.uid for k, r in m.rows.items() if k[0] in ("Child", "Node")):
            return False
        return True

    def _flush_if_dirty(self):
        if self.model.dirty and self.model.stack is not None:
            self._explicit_flush("pre-flush")

    def op_expunge(self, a, b, c):
        o = self.pick(self.pool(lambda o: o.state in "PS" and self._isolated(o)), a)
        if o is None:
            return False
        if o.state == "P" and self.U.uniq(o.kind) and any(o.vals.get(k) is not None for k in ("code", "ga", "gb")):
            return False  # (out-of-session objects carry no UNIQUE values in this universe)
        if o.state == "P" and o.kind == "Parent" and "name" in o.vals and any(
                k[0] == "Parent" and k[1] != o.uid and r.get("name") == o.vals["name"] for snap in [self.model] + self.model.stack
                for k, r in (snap.rows if snap is self.model else snap["rows"]).items()):
            return False  # it took over a key that a row still holds (or held when the transaction began)
        if o.state == "S":
            self._flush_if_dirty()
            if not (o.state == "S" and self._isolated(o)):
                return False
            # a detached copy is not touched by a later rollback: only rows that the open transaction(s)
            # did not change are detached, so that the copy stays accurate whatever happens next
            key = (self.U.root(o.kind), o.uid)
            for snap in self.model.stack:
                if self.pinned:
                    break
                if snap["rows"].get(key) != self.model.rows.get(key) or any(o.uid in pr for pr in snap["pairs"]):
                    return False
                if any(r.get("parent") == o.uid or r.get("fav") == o.uid for r in snap["rows"].values()):
                    return False
        if o.idx in self.model.keyswitched:
            if not self.pinned:
                self.ctx.exclude("expunge of an object whose key switch was flushed in the open transaction: a rollback puts it back into the identity map (known finding)")
                return False
            self.triggers.append("rollback/expunged-key-switched-object-back-in-identity-map")
        self.do(lambda: self.session.expunge(o.real))
        o.state = "T" if o.state == "P" else "X"
        self.classes.add("expunge")

    def op_merge(self, a, b, c):
        o = self.pick(self.pool(lambda o: o.state in "SX" and (self.U.root(o.kind), o.uid) in self.pk_of
                                and (self.U.root(o.kind), o.uid) in self.model.rows), a)
        if o is None:
            return False
        if o.kind == "Parent" and self.U.cfg["natpk"]:
            row = self.model.rows[("Parent", o.uid)]
            if row["name"] != o.vals["name"]:
                return False  # unflushed key switch: the copy's key would be ambiguous
            pk = {"name": row["name"]}
        else:
            pk = {"id": self.pk_of[(self.U.root(o.kind), o.uid)]}
        attrs = self.U.scalars(o.kind)
        attr = attrs[c % len(attrs)]
        val = VALS[b % len(VALS)]
        cp = self.U.classes[o.kind](uid=o.uid, **pk, **{attr: val})
        merged = self.do(lambda: self.session.merge(cp))
        if o.state == "S" and merged is not o.real:
            self.viol("merge/not-the-session-instance", f"merge of a copy of persistent {o} returned a different object")
        o.real = merged
        if o.state == "X":
            # the row is loaded as a new instance: its state is what the database holds
            o.state = "S"
            self.model.m_reload(o)
        o.vals[attr] = val
        self.classes.add("merge")
        self.touch("merge", o)

    def op_expire(self, a, b, c):
        o = self.pick(self.pool(lambda o: o.state == "S"), a)
        if o is None:
            return False
        self._flush_if_dirty()
        if o.state != "S":
            return False
        self.do(lambda: self.session.expire(o.real))
        self.model.m_reload(o)
        if self.U.casc_expunge and self.U.parentish(o.kind):  # 'all' includes refresh-expire
            todo = [o]
            while todo:
                x = todo.pop()
                for k in self.model.children_of(x):
                    if k.state == "S":
                        # (the cascade only follows *loaded* collections: whether k was really expired is not known,
                        # so its stale / ghost bookkeeping is kept)
                        self.model.m_reload(k, really_expired=False)
                        todo.append(k)
        self.classes.add("expire")

    def op_read(self, a, b, c):
        o = self.pick(self.pool(lambda o: o.state in "PS"), a)
        if o is None:
            return False
        attrs = list(self.U.scalars(o.kind))
        if self.U.childish(o.kind) and self.U.has_m2o:
            attrs.append("parent")
        if self.U.parentish(o.kind) and self.U.has_o2m:
            attrs.append("children")
        if self.U.childish(o.kind) and self.U.fam == "pct":
            attrs.append("tags")
        attr = attrs[b % len(attrs)]
        got = self.do(lambda: getattr(o.real, attr))
        if attr in ("val", "extra"):
            exp = o.vals.get(attr)
            if got != exp:
                self.viol(f"read/{attr}", f"{o}.{attr} read {got!r}, model {exp!r}", observed=got, expected=exp)
        elif attr == "parent":
            if o.stale:
                return True
            exp = o.parent.real if o.parent is not None else None
            if got is not exp:
                self.viol("read/parent", f"{o}.parent read {self._name(got)}, model {o.parent}")
        else:
            if o.stale or any(k.stale for k in self.model.objs):
                return True
            exp = self.model.children_of(o) if attr == "children" else [t for t in o.tags]
            self._cmp_coll(o, attr, got, exp, "read")
        self.classes.add("read")

    def _name(self, real):
        if real is None:
            return "None"
        for o in self.model.objs:
            if o.real is real:
                return repr(o)
        return f"<unknown {type(real).__name__} uid={real.__dict__.get('uid')}>"

    def _cmp_coll(self, o, attr, got, exp, where):
        known = {id(x.real): x for x in self.model.objs}
        got_l = []
        for r in got:
            x = known.get(id(r))
            if x is None:
                got_l.append(f"unknown:{r.__dict__.get('uid')}")
            elif x.state in "DG" or x.dead:
                continue  # documented: deleted objects stay in loaded collections until expired
            else:
                got_l.append(x.idx)
        exp_l = [x.idx for x in exp]
        if sorted(map(str, got_l)) != sorted(map(str, exp_l)):
            self.viol(f"{where}/{attr}", f"{o}.{attr} holds {got_l}, model {exp_l}", observed=got_l, expected=exp_l)

    # ---- transaction control
    def _explicit_flush(self, why="flush"):
        self.pre_flush()
        before = self.flush_count
        self.guard(self.session.flush)
        self.model.m_flush()
        self._note_flush()
        self.pending_check = False
        self.check_flush_point(why)
        return self.flush_count != before

    def pre_flush(self):
        """make the pending state constraint-valid (NOT NULL FK configs): every in-session child
        gets a parent or is discarded, as an application with such a schema must do"""
        U, m = self.U, self.model
        if U.fam != "pct" or U.cfg["fk_nullable"]:
            return
        for o in list(m.objs):
            if U.childish(o.kind) and o.state in "PS" and not o.dead and o.parent is not None and o.parent.state == "T" and not o.parent.dead:
                self._add(o.parent)  # one-to-many only: the child was added without its (transient) parent
                self.classes.add("repair-add-parent")
            if not (U.childish(o.kind) and o.state in "PS" and not o.dead and (o.parent is None or not m.insess(o.parent))):
                continue
            if o.parent is not None:
                # parent is detached/discarded: take the child out of that collection first
                continue
            ps = self.pool(lambda q: q.kind == "Parent" and q.state in "PS")
            if ps and not (U.casc_orphan and o.state == "S"):
                p = ps[o.idx % len(ps)]
                if U.has_o2m:
                    self._link_via_collection(p, o)
                else:
                    self.do(lambda: setattr(o.real, "parent", p.real))
                    o.parent = p
                self.classes.add("repair-parent")
            elif o.state == "P" and self._isolated(o):
                self.do(lambda: self.session.expunge(o.real))
                o.state = "T"
                o.dead = True  # discarded
                self.classes.add("repair-expunge")
            elif o.state == "P":
                # still linked to tags: unlink then expunge
                for t in list(o.tags):
                    self.do(lambda: o.real.tags.remove(t.real))
                    o.tags.remove(t)
                for q in m.objs:
                    if q.fav is o:
                        self.do(lambda: setattr(q.real, "favorite", None))
                        q.fav = None
                self.do(lambda: self.session.expunge(o.real))
                o.state = "T"
                o.dead = True
                self.classes.add("repair-expunge")
            # persistent orphans under delete-orphan are already marked for deletion by the model

    def op_flush(self, a, b, c):
        self._explicit_flush("flush")
        self.classes.add("flush")

    def op_commit(self, a, b, c):
        self.pre_flush()
        depth = len(self.nested)
        self.guard(self.session.commit)
        del self.nested[:]
        del self.scope_kinds[:]
        del self.scope_children[:]
        del self.scope_modified[:]
        del self.scope_loaded[:]
        if self.rich_rollback:
            self.classes.add("commit-after-rich-rollback")
        self.model.m_commit()
        self._note_flush(depth=depth)
        self.ks_depth.clear()
        self.ks_released.clear()
        self.pending_check = False
        self.classes.add("commit" if not depth else "commit-through-savepoints")
        self.mark_boundary()
        self.check_commit_point()

    def op_rollback(self, a, b, c):
        depth = len(self.nested)
        if not self.session.in_transaction():
            self.session.rollback()  # nothing to roll back, nothing expires
            self.classes.add("rollback-without-transaction")
            self.mark_boundary()
            return True
        self.session.rollback()
        del self.nested[:]
        del self.scope_kinds[:]
        del self.scope_children[:]
        del self.scope_modified[:]
        del self.scope_loaded[:]
        self.rich_rollback = False
        if self.ks_released:
            self.classes.add("pk-switch-in-released-savepoint-then-outer-rollback")
        self.ks_depth.clear()
        self.ks_released.clear()
        self.model.m_rollback_to(0)
        self.flush_kinds = set()
        self.flush_mappers = set()
        self.orphan_of = {}
        self.pending_check = False
        self.classes.add("rollback" if not depth else "rollback-through-savepoints")
        self.mark_boundary()
        self.check_tx_point("rollback", outer=True)

    def op_nested(self, a, b, c):
        if len(self.nested) >= 3:
            return False
        self.pre_flush()
        before = self.flush_count
        self.nested.append(self.guard(self.session.begin_nested))
        self.model.m_flush()
        self._note_flush(depth=len(self.nested) - 1)
        self.model.push()
        self.scope_kinds.append(set())
        self.scope_children.append(set())
        self.scope_modified.append(set())
        self.scope_loaded.append({o.idx: dict(o.real.__dict__) for o in self.model.objs if o.state == "S" and not o.dead})
        self.pending_check = False
        self.check_flush_point("begin_nested")
        self.classes.add(f"savepoint-depth-{len(self.nested)}")

    def op_release(self, a, b, c):
        if not self.nested:
            return self.op_flush(a, b, c)
        self.pre_flush()
        self.guard(self.nested.pop().commit)
        self.scope_kinds.pop()
        self.scope_children.pop()
        self.scope_modified.pop()
        self.scope_loaded.pop()
        self.model.m_release()
        self._note_flush(depth=len(self.nested) + 1)
        d = len(self.nested) + 1
        for idx, dd in list(self.ks_depth.items()):
            if dd == d:
                self.ks_depth[idx] = d - 1
                self.ks_released[idx] = d - 1
        for idx, dd in list(self.ks_released.items()):
            if dd >= d:
                self.ks_released[idx] = d - 1
        self.pending_check = False
        self.classes.add("savepoint-release")
        self.check_tx_point("release", outer=False)

    def op_nrollback(self, a, b, c):
        if not self.nested:
            return False
        # b selects how far to roll back: innermost, or an enclosing savepoint
        k = len(self.nested) - 1 - (b % len(self.nested) if b % 3 == 0 else 0)
        tx = self.nested[k]
        depth_before = len(self.nested)
        rolled = set().union(*self.scope_kinds[k:])
        if k < len(self.nested) - 1 and not self.pinned:
            # known finding: SessionTransaction.rollback() of an enclosing savepoint closes the inner ones
            # without restoring their snapshots; programs unwind the inner savepoints themselves
            self.ctx.exclude("rollback of an enclosing savepoint while an inner one is open (known finding); unwound innermost-first instead")
            for inner in reversed(self.nested[k + 1:]):
                inner.rollback()
        elif k < len(self.nested) - 1:
            self.triggers.append("nested/rollback-of-enclosing-savepoint-skips-inner-scope-restore")
        tx.rollback()
        del self.nested[k:]
        del self.scope_kinds[k:]
        poisoned = set().union(*self.scope_children[k:])
        del self.scope_children[k:]
        loaded_at_start = self.scope_loaded[k]
        del self.scope_loaded[k:]
        modified_in_scope = set().union(*self.scope_modified[k:])
        del self.scope_modified[k:]
        if depth_before >= 2 and {"add", "delete", "modify"} <= rolled:
            self.rich_rollback = True
            self.classes.add("rich-savepoint-rollback")
        if any(dd >= k + 1 for dd in self.ks_released.values()):
            self.classes.add("pk-switch-in-released-savepoint-then-outer-rollback")
        for dct in (self.ks_depth, self.ks_released):
            for idx in [i for i, dd in dct.items() if dd >= k + 1]:
                del dct[idx]
        self.model.m_rollback_to(k + 1)
        # documented: a savepoint rollback expires only state that was *modified* since the savepoint; attributes
        # that were merely loaded inside it (possibly showing rows flushed inside it) are expired by the program
        for idx, keys in sorted(loaded_at_start.items()):
            o = self.model.objs[idx]
            if o.state == "S" and not o.dead and idx not in modified_in_scope:  # (modified objects must be expired by the rollback itself)
                fresh = sorted(k for k, v in o.real.__dict__.items() if k != "_sa_instance_state" and (k not in keys or keys[k] is not v))
                if fresh:
                    self.session.expire(o.real, fresh)
                    self.ctx.info("attributes first loaded inside a rolled-back savepoint, expired by the program", len(fresh))
        for idx in sorted(poisoned):
            o = self.model.objs[idx]
            if o.state == "S" and not o.dead:
                if self.pinned:
                    self.triggers.append("savepoint-rollback/hasparent-flags-not-restored-unidirectional-one-to-many")
                else:
                    # known finding: a savepoint rollback does not restore the child's has-parent bookkeeping when
                    # the child itself was not modified (one-directional one-to-many); expiring the child resets it
                    self.ctx.exclude("savepoint rollback after a collection change of a one-directional one-to-many (known finding); child expired by the program")
                    self.session.expire(o.real)
        self.flush_kinds = set()
        self.flush_mappers = set()
        self.orphan_of = {}
        self.pending_check = False
        self.classes.add("savepoint-rollback" if k == len(self.nested) else "savepoint-rollback-outer-of-several")
        self.check_tx_point("nrollback", outer=False)

    def op_close(self, a, b, c):
        m = self.model
        for o in m.objs:
            if o.state in "PDG" or o.dead:
                o.flag_override = "skip"  # close() expunges rather than restores: only membership is judged
            if o.state == "T" and not o.dead and any(n.state in "PSDG" for n in m.neighbors(o)):
                o.dead = True  # holds references to instances that are about to be replaced by re-loaded ones
                o.flag_override = "skip"
        m.propagate_dead()
        self.session.close()
        del self.nested[:]
        del self.scope_kinds[:]
        del self.scope_children[:]
        del self.scope_modified[:]
        del self.scope_loaded[:]
        self.rich_rollback = False
        self.ks_depth.clear()
        self.ks_released.clear()
        m.m_rollback_to(0)
        for o in m.objs:
            if o.state == "S" and not o.dead:
                key = (self.U.root(o.kind), o.uid)
                if key in m.rows and key in self.pk_of:
                    pk = m.rows[key]["name"] if "name" in m.rows[key] else self.pk_of[key]
                    o.real = self.session.get(self.U.classes[self.U.root(o.kind) if o.kind != "SubChild" else "Child"], pk)
                    if o.real is None:
                        self.viol("close/get-none", f"row of {o} not found by Session.get after close()")
                else:
                    o.dead = True
                    o.state = "X"
                    o.flag_override = "skip"
            elif o.dead:
                o.flag_override = "skip"
        self.flush_kinds = set()
        self.flush_mappers = set()
        self.classes.add("close")
        self.check_tx_point("close", outer=True)

    # ---- oracle points
    def _session_dbapi(self):
        return self.session.connection().connection.dbapi_connection

    def _compare(self, got, exp, where, via):
        if got != exp:
            diffs = _diff(got, exp)
            self.viol(f"rows/{_classify(diffs)}", f"after {where} ({via}) rows differ from the model: {diffs[:6]}", observed=got, expected=exp)

    def check_flush_point(self, why):
        got, pk_of = observe(self._session_dbapi(), self.U)
        self.pk_of.update(pk_of)
        self.counters["flush_checks"] += 1
        self._compare(got, self.model.canonical(), why, "session connection")
        if self.check_memory:
            self.check_mem(why)

    def check_commit_point(self):
        got, pk_of = observe(self.observer(), self.U)
        self.pk_of.update(pk_of)
        self.counters["flush_checks"] += 1
        self._compare(got, self.model.canonical(), "commit", "independent connection")
        if self.check_memory:
            self.check_mem("commit")
        if self.check_tx:
            self.check_states("commit", outer=True)
        if self.check_reload:
            self.check_fresh_session()

    def check_tx_point(self, why, outer):
        self.counters["tx_checks"] += 1
        got, pk_of = observe(self.observer(), self.U)
        self._compare(got, self.model.committed(), why, "independent connection")
        if not outer or self.session.in_transaction():
            if self.session.in_transaction():
                got2, pk2 = observe(self._session_dbapi(), self.U)
                self.pk_of.update(pk2)
                self._compare(got2, self.model.canonical(), why, "session connection")
        if self.check_memory:
            self.check_mem(why)
        if self.check_tx:
            self.check_states(why, outer)

    def check_mem(self, where):
        """loaded (``__dict__``) attribute values of in-session objects agree with the model"""
        U, m = self.U, self.model
        for o in m.objs:
            if o.dead or o.state not in "PS":
                continue
            d = o.real.__dict__
            for attr in U.scalars(o.kind) + (["code", "ga", "gb"] if U.uniq(o.kind) else []):
                if attr in d and d[attr] != o.vals.get(attr):
                    self.viol(f"memory/{attr}", f"after {where}: loaded {o}.{attr}={d[attr]!r}, model {o.vals.get(attr)!r}")
            if "name" in o.vals and "name" in d and d["name"] != o.vals["name"]:
                self.viol("memory/name", f"after {where}: loaded {o}.name={d['name']!r}, model {o.vals['name']!r}")
            if U.childish(o.kind) and "parent_ref" in d and not m.dirty and U.cfg.get("natpk") != "passive":
                p = o.parent
                if p is None or (m.insess(p) and p.state != "D"):
                    exp = None
                    if p is not None:
                        exp = p.vals["name"] if U.cfg.get("natpk") else self.pk_of.get((U.root(p.kind), p.uid), "?")
                    if d["parent_ref"] != exp:
                        self.viol("memory/fk-attribute", f"after {where}: loaded {o}.parent_ref={d['parent_ref']!r}, model parent {p} pk {exp!r}")
            if o.stale or m.dirty:
                continue
            if U.childish(o.kind) and U.has_m2o and "parent" in d:
                got = d["parent"]
                exp = o.parent.real if o.parent is not None else None
                if got is not exp:
                    gx = next((x for x in m.objs if x.real is got), None)
                    if not (gx is not None and (gx.state in "DG" or gx.dead)):
                        self.viol("memory/parent", f"after {where}: loaded {o}.parent is {self._name(got)}, model {o.parent}")
            if U.parentish(o.kind) and U.has_o2m and "children" in d:
                self._cmp_coll(o, "children", d["children"], [k for k in m.children_of(o)], f"memory")
            if U.childish(o.kind) and U.fam == "pct" and "tags" in d:
                self._cmp_coll(o, "tags", d["tags"], list(o.tags), "memory")

    def check_states(self, where, outer):
        """C33 (3): session membership and lifecycle state of every object the harness holds"""
        from sqlalchemy import inspect

        m = self.model
        for o in m.objs:
            r = o.real
            st_ = inspect(r)
            flags = "".join(ch for ch, f in (("T", st_.transient), ("P", st_.pending), ("S", st_.persistent), ("G", st_.deleted), ("X", st_.detached)) if f)
            exp = {"T": "T", "P": "P", "S": "S", "D": "S", "X": "X"}.get(o.state)
            if o.flag_override == "skip":
                flags = exp = None
            elif o.flag_override is not None:
                exp = o.flag_override
            elif o.state == "G":
                # deleted inside a still-open transaction: 'deleted'; after the outer commit: 'detached'
                exp = "X" if (outer and where == "commit") else "G"
                if outer and where == "commit":
                    o.flag_override = "X" if self.U.cfg["eoc"] else "skip"  # from now on: deleted and committed
                if outer and where == "commit" and not self.U.cfg["eoc"] and flags == "G":
                    if not self.pinned:
                        self.ctx.exclude("expire_on_commit=False: deleted object stays in 'deleted' state after commit (known finding)")
                        continue
                    self.viol("state/deleted-not-detached-after-commit-eoc-false",
                              f"after {where}: {o} deleted+committed is still in the 'deleted' state (expire_on_commit=False)", observed=flags, expected="X")
            if flags != exp:
                self.viol(f"state/{o.state}-is-{flags or 'none'}", f"after {where}: {o} expected state {exp}, inspect() says {flags!r}", observed=flags, expected=exp)
            in_s = r in self.session
            if in_s != (o.state in "PSD"):
                self.viol("state/membership", f"after {where}: ({o} in session) is {in_s}")
            if o.state in "SD" and not o.dead:
                key = (self.U.root(o.kind), o.uid)
                row = m.rows.get(key)
                if row is not None:
                    pk = row["name"] if "name" in row else self.pk_of.get(key)
                    if pk is not None and st_.key is not None and st_.key[1] != (pk,):
                        self.viol("state/identity-key", f"after {where}: {o} keyed {st_.key[1]!r}, row pk {pk!r}", observed=list(st_.key[1]), expected=[pk])
                    if pk is not None and self.session.identity_map.get(st_.key) is not r:
                        self.viol("state/identity-map", f"after {where}: identity map entry for {o} is not the object")

    def check_fresh_session(self):
        """a new Session loads everything; the loaded graph is isomorphic to the rows"""
        from sqlalchemy import select
        from sqlalchemy.orm import Session

        U, m = self.U, self.model
        exp = m.canonical()
        with Session(self.engine) as s2:
            got = {"rows": {r: {} for r in exp["rows"]}, "pairs": []}
            order_problems = []
            for root in exp["rows"]:
                for r in s2.execute(select(U.classes[root])).scalars().all():
                    row = {"cls": type(r).__name__, "val": r.val}
                    if U.uniq(root):
                        row.update(code=r.code, ga=r.ga, gb=r.gb)
                    if root == "Parent":
                        if U.cfg["natpk"]:
                            row["name"] = r.name
                        if U.cfg["fav"]:
                            row["fav"] = r.favorite.uid if r.favorite is not None else None
                    if U.childish(root):
                        if U.has_m2o:
                            row["parent"] = r.parent.uid if r.parent is not None else None
                        if U.fam == "pct":
                            if U.cfg["inh"]:
                                row["extra"] = r.extra if type(r).__name__ == "SubChild" else "NOSUB"
                            tags = [t.uid for t in r.tags]
                            if U.cfg["m2m_coll"] == "list" and tags != sorted(tags):
                                order_problems.append((r.uid, "tags", tags))
                            for t in tags:
                                got["pairs"].append([r.uid, t])
                    if U.parentish(root) and U.has_o2m:
                        kids = [k.uid for k in r.children]
                        if U.cfg["coll"] == "list" and kids != sorted(kids):
                            order_problems.append((r.uid, "children", kids))
                        row["_children"] = sorted(kids)
                    if root == "Tag" and U.has_items:
                        row["_items"] = sorted(k.uid for k in r.items)
                    got["rows"][root][r.uid] = row
            got["pairs"].sort()
        # expected graph from the rows
        for root, rs in exp["rows"].items():
            for uid, row in rs.items():
                if U.parentish(root) and U.has_o2m:
                    croot = "Node" if U.fam == "node" else "Child"
                    row["_children"] = sorted(u for u, r in exp["rows"][croot].items() if r.get("parent") == uid)
                if root == "Tag" and U.has_items:
                    row["_items"] = sorted(a for a, b in exp["pairs"] if b == uid)
        if not U.has_m2o:
            for root, rs in exp["rows"].items():
                if U.childish(root):
                    for row in rs.values():
                        row.pop("parent", None)
        if got != exp:
            diffs = _diff(got, exp)
            self.viol(f"reload/{_classify(diffs)}", f"graph loaded by a fresh Session differs from the rows: {diffs[:6]}", observed=got, expected=exp)
        if order_problems:
            self.viol("reload/order_by", f"collections not in order_by order: {order_problems[:4]}")
        self.counters["reloads"] = self.counters.get("reloads", 0) + 1


def _diff(got, exp):
    out = []
    for root in sorted(set(got["rows"]) | set(exp["rows"])):
        g, e = got["rows"].get(root, {}), exp["rows"].get(root, {})
        for uid in sorted(set(g) | set(e), key=str):
            if uid not in g:
                out.append(f"{root}[{uid}] missing (model {e[uid]})")
            elif uid not in e:
                out.append(f"{root}[{uid}] unexpected {g[uid]}")
            elif g[uid] != e[uid]:
                ks = [k for k in sorted(set(g[uid]) | set(e[uid])) if g[uid].get(k, "<absent>") != e[uid].get(k, "<absent>")]
                out.append(f"{root}[{uid}] " + ", ".join(f"{k}: db {g[uid].get(k, '<absent>')!r} model {e[uid].get(k, '<absent>')!r}" for k in ks))
    if got["pairs"] != exp["pairs"]:
        out.append(f"child_tag db {got['pairs']} model {exp['pairs']}")
    return out


def _classify(diffs):
    d = diffs[0] if diffs else ""
    if "missing" in d:
        return "row-missing"
    if "unexpected" in d:
        return "row-unexpected"
    if d.startswith("child_tag"):
        return "association-rows"
    for k in ("parent", "fav", "name", "extra", "val", "cls", "code", "ga", "gb", "_children", "_items"):
        if f" {k}: " in d or f", {k}: " in d:
            return f"column-{k}"
    return "other"


# --------------------------------------------------------------------------- engine


def make_engine(U, ctx, listeners=True):
    from sqlalchemy import event

    eng = sautil.file_engine(ctx)
    if U.cfg["fk_on"]:

        @event.listens_for(eng, "connect")
        def _fk(dbapi_conn, rec):
            ac = dbapi_conn.autocommit
            dbapi_conn.autocommit = True
            dbapi_conn.execute("PRAGMA foreign_keys=ON")
            dbapi_conn.autocommit = ac

    U.metadata.create_all(eng)
    return eng


def run_program(case, ctx, holder=None, **kw):
    """build, run, always finish with a commit; returns the interpreter (closed)"""
    U = build_universe(norm_cfg(case["cfg"]))
    it = Interp(U, ctx, pinned=bool(case.get("pinned")), **kw)
    if holder is not None:
        holder.append(it)
    try:
        it.run(case["ops"])
        with warnings.catch_warnings(record=True) as w:
            warnings.simplefilter("always")
            it.step(["commit", 0, 0, 0])
            it.warnings.extend(str(x.message)[:60] for x in w)
    finally:
        it.close()
    return it
