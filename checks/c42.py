"""C42 - polymorphic queries return each row as its most specific class.

A case is JSON data: a generated inheritance hierarchy (kind single / joined /
mixed / concrete, <=8 classes, depth<=3, width<=3, abstract classes, str/int
discriminator given as column, attribute name or CASE expression, per-class
extra columns with names shared between siblings/cousins, mapper-level
polymorphic_load), 0-12 rows distributed over the classes and inserted with raw
Core INSERTs, and a list of query variants.  Every class is queried with the
default ``select(Q)`` and the drawn variants (with_polymorphic '*' / subset,
flat / aliased, aliased(Q), selectin_polymorphic, Session.get, legacy Query,
join(...of_type(Q)), relationship lazy / selectinload / joinedload with
of_type(with_polymorphic), filters on a base column, ORDER BY pk LIMIT/OFFSET),
each in a fresh Session.

Oracle (computed from the generated data only): PKs returned == rows whose
generated class is Q or below; type(obj) is exactly the generated class; every
column attribute of that class equals the generated value after access;
attributes the documentation promises to be loaded by the option are loaded
(no lazy SQL needed); no attribute of a class outside the object's own path is
visible.
"""
from __future__ import annotations

from hypothesis import strategies as st

from checks import _poly as P
from vf.api import Generated, HarnessError, Violation

PROPERTY = "C42"
LEVEL = "exploration"
RULE = (
    "case = {hierarchy, rows, queries}: hierarchy kind in single/joined/mixed/concrete, 1-8 classes as a parent-index tree (depth<=3, "
    "width<=3), per-class abstract flag, extra columns drawn from a 6-name pool (unique along a root-to-class path, shared between "
    "siblings/cousins), polymorphic_load None/inline/selectin, optional Mapper.with_polymorphic='*' on the base, discriminator str/int via column / attribute name / CASE expression, "
    "concrete root table/abstract/plain and per-intermediate own polymorphic_union, optional referencing entity; 0-12 rows (drawn "
    "distinct PKs, class index modulo the instantiable classes, values incl. NULL) inserted by raw Core INSERT; every class is queried "
    "with select(Q) plus 0-10 drawn variants (with_polymorphic optionally with an explicit polymorphic_on= column / label / CASE over a second identity-carrying base-table column, combined with aliased / flat), each top-level variant in one of three execution modes: normal (fresh Session), populate_existing in a fresh Session, "
    "populate_existing in a Session that already holds every row of the subtree fully loaded (execution option / Query.populate_existing() / Session.get(populate_existing=True)). Non-trivial: hierarchy depth>=2, rows in >=3 distinct classes, and a query at a "
    "non-root non-leaf class whose expected result is non-empty; distinct = canonical JSON of the case"
)
ASSUMPTIONS = [
    "under populate_existing combined with selectin polymorphic loading (option or mapper polymorphic_load='selectin') loadedness is not asserted, only values after access "
    "(the secondary SELECT re-populates from a partial row and expires the deeper attributes)",
    "only SQLite (in-memory, pysqlite) executes the statements; SQL shape on other dialects is not exercised",
    "rows are well-formed: every discriminator value names a mapped non-abstract class, every joined/mixed row has its sub-table rows, primary keys are unique across the whole hierarchy (also across concrete tables)",
    "column names are unique along a root-to-class path; the same name may recur only on classes that are not ancestor/descendant of each other (single-table siblings share the column via use_existing_column as documented)",
    "concrete inheritance per inheritance.rst: a class without its own polymorphic_union queries non-polymorphically (only its own table, instances of that class); query-time with_polymorphic on concrete classes only re-uses the mapper-configured selectable ('*', optionally aliased, never flat); no relationships / of_type / selectin_polymorphic / polymorphic_load with concrete",
    "only the root of a concrete hierarchy may be abstract (mapped directly to the polymorphic_union)",
    "loadedness is asserted only where documented: columns of Q and its ancestors; classes covered by with_polymorphic (spec closed upwards, as Mapper._mappers_from_spec does); the class's own columns for selectin_polymorphic(Q, [.. C ..]) / polymorphic_load='selectin' on C; polymorphic_load='inline' on C when querying C's immediate parent; everything when the base has Mapper.with_polymorphic='*' and the base is queried",
    "relationship from the referencing entity targets the root class (the class owning the FK column), narrowed with of_type",
    "known finding excluded by construction: CASE-expression polymorphic_on + query at a non-root class mapped to a JOIN (joined/mixed) loads sub-subclass rows as the queried class",
]

TOP_VARIANTS = ["wp", "wp", "wp", "selectin", "selectin", "get", "legacy", "plain", "aliased"]
REF_VARIANTS = ["join_of_type", "join_of_type", "rel_lazy", "rel_selectin_of_type", "rel_joined_of_type", "rel_selectin_sip"]

SIG_EXPR = "C42/polymorphic_on-expression/joined-subclass-query-not-polymorphic"
SIG_LATE = "C42/declarative/late-single-sibling-column-mapped-below-joined-subclass"
SIG_DOC = "C42/docs/abstract-concrete-semi-classical-example-raises"


# ----------------------------------------------------------------- oracle helpers
def _expected_rows(cfg, sh, rows, q):
    if cfg["kind"] == "concrete" and not cfg["classes"][q]["poly"]:
        ok = {q}
    else:
        ok = set(sh["desc"][q])
    return [r for r in rows if r["cls"] in ok]


def _filt(rows, f):
    if not f:
        return rows
    op, k = f
    if op == "lt":
        return [r for r in rows if r["b0"] < k]
    if op == "ge":
        return [r for r in rows if r["b0"] >= k]
    return [r for r in rows if r["b0"] == k]


def _filt_clause(col, f):
    op, k = f
    if op == "lt":
        return col < k
    if op == "ge":
        return col >= k
    return col == k


def _declared_at(cfg, sh, c):
    """attribute name -> index of the class on path(c) that declares it"""
    d = {n: 0 for n in P.attr_names(cfg, sh, 0) if n not in cfg["classes"][0]["cols"]}
    for j in sh["path"][c]:
        for n in cfg["classes"][j]["cols"]:
            d[n] = j
    return d


def _expr_excluded(cfg, sh, q):
    """known finding: polymorphic_on expression does not propagate to mappers whose persist_selectable is a JOIN"""
    return cfg["on"] == "expr" and cfg["kind"] != "concrete" and any(cfg["classes"][j]["table"] for j in sh["path"][q][1:])


def _must_be_loaded(cfg, sh, q, c, eager):
    """set of classes whose declared attributes must be loaded on an object of
    class c returned from a query at q; eager = {'incl': set of class idx covered
    by with_polymorphic, 'sip': set given to selectin_polymorphic, 'mapper': bool}"""
    cl = cfg["classes"]
    must = set(sh["path"][q])
    must |= eager.get("incl", set()) & set(sh["path"][c])
    if c in eager.get("sip", ()):
        must.add(c)
    if cfg["wpm"] and q == 0 and eager.get("mapper") and not eager.get("explicit_wp"):
        must |= set(sh["path"][c])  # Mapper.with_polymorphic="*" on the base: all sub-tables are part of the default SELECT
    if eager.get("mapper") and c != q and c in sh["desc"][q]:
        if cl[c]["load"] == "selectin":
            must.add(c)
        if cl[c]["load"] == "inline" and cl[c]["parent"] == q and not eager.get("explicit_wp"):
            must.add(c)  # an explicit with_polymorphic() entity replaces the mapper-level default
    return must & set(sh["path"][c])


def _late_possible(cfg, sh):
    cl = cfg["classes"]
    anc = [list(reversed(sh["path"][i][:-1])) for i in range(sh["n"])]
    return cfg["kind"] == "mixed" and any(c["cols"] and P.late_sibling_trigger(cl, anc, sh["home"], i) for i, c in enumerate(cl))


def _check_obj(o, row, b, q, eager, where, exprx):
    from sqlalchemy import inspect

    cfg, sh = b.cfg, b.shape
    late = getattr(b, "_late", None)
    if late is None:
        late = b._late = _late_possible(cfg, sh)
    c = row["cls"]
    cls = b.classes[c]
    if type(o) is not cls:
        sig = f"C42/{cfg['kind']}/wrong-class"
        if exprx:
            sig = SIG_EXPR
        raise Violation(sig, f"{where}: pk {row['id']} generated as C{c} but loaded as {type(o).__name__}", observed=type(o).__name__, expected=f"C{c}")
    insp = inspect(o)
    if insp.mapper.class_ is not cls:
        raise Violation(f"C42/{cfg['kind']}/wrong-mapper", f"{where}: instance of C{c} has mapper {insp.mapper}")
    names = P.attr_names(cfg, sh, c)
    decl = _declared_at(cfg, sh, c)
    must = _must_be_loaded(cfg, sh, q, c, eager)
    unloaded = set(insp.unloaded)
    bad = sorted(n for n in names if decl[n] in must and n in unloaded)
    if eager.get("pe") and (eager.get("sip") or any(k["load"] == "selectin" for k in cfg["classes"])):
        # under populate_existing the secondary SELECT of a selectin-polymorphic load re-populates the object from a row
        # that covers only part of its class path and expires the rest; loadedness is not documented for that combination
        # (values are still compared after access below)
        bad = []
    if bad:
        raise Violation(
            f"C42/{cfg['kind']}/{eager.get('tag', 'default')}/not-loaded",
            f"{where}: attributes {bad} of C{c} (declared at {sorted({decl[n] for n in bad})}) are unloaded although the option covers them",
            observed=sorted(unloaded),
            expected=f"loaded: attributes of classes {sorted(must)}",
        )
    for n in names:
        if n == "id":
            exp = row["id"]
        elif n == "b0":
            exp = row["b0"]
        elif n == "type":
            exp = P.ident(cfg, c)
        elif n == "code":
            exp = P.rawcode(cfg, c)
        elif n == "dtwin":
            exp = P.ident(cfg, c)
        elif n == "ref_id":
            exp = row["ref"]
        else:
            exp = row["vals"][n]
        try:
            got = getattr(o, n)
        except AttributeError as e:
            raise Violation(f"C42/{cfg['kind']}/attribute-missing", f"{where}: C{c}.{n} raises AttributeError: {e}", expected=exp)
        if got != exp or type(got) is not type(exp):
            kindsig = "samename-column" if sum(n in k["cols"] for k in cfg["classes"]) > 1 else "attribute"
            raise Violation(
                f"C42/{cfg['kind']}/{kindsig}-value", f"{where}: C{c}(pk {row['id']}).{n} == {got!r}, generated {exp!r}", observed=got, expected=exp
            )
    foreign = P.all_col_names(cfg) - set(names)
    for n in sorted(foreign):
        if n in o.__dict__ or hasattr(o, n):
            raise Violation(
                SIG_LATE if late else f"C42/{cfg['kind']}/sibling-attribute-leak", f"{where}: instance of C{c} exposes attribute {n!r} of a class outside its path", observed=n
            )
    extra = set(o.__dict__) - set(names) - {"_sa_instance_state", "_sa_polymorphic_on"}
    if extra:
        raise Violation(f"C42/{cfg['kind']}/sibling-attribute-leak", f"{where}: instance of C{c} carries foreign state {sorted(extra)}", observed=sorted(extra))


def _check_result(objs, exp_rows, ordered, b, q, eager, where):
    cfg, sh = b.cfg, b.shape
    exprx = _expr_excluded(cfg, sh, q)
    by_pk = {r["id"]: r for r in exp_rows}
    got_pks = []
    for o in objs:
        if o is None:
            raise Violation(f"C42/{cfg['kind']}/none-in-result", f"{where}: None in result")
        got_pks.append(o.id)
    exp_pks = [r["id"] for r in exp_rows]
    if (got_pks != exp_pks) if ordered else (sorted(got_pks) != sorted(exp_pks)):
        sig = f"C42/{cfg['kind']}/{eager.get('tag', 'default')}/wrong-rows"
        raise Violation(sig, f"{where}: primary keys {got_pks}, expected {exp_pks}{'' if ordered else ' (any order)'}", observed=got_pks, expected=exp_pks)
    for o, pk in zip(objs, got_pks):
        _check_obj(o, by_pk[pk], b, q, eager, where, exprx)


# ----------------------------------------------------------------- running one variant
def _subset(sh, q, mask, proper=True):
    cand = [d for d in sh["desc"][q] if d != q or not proper]
    return [d for k, d in enumerate(cand) if mask >> k & 1]


def _upclosure(sh, q, spec):
    incl = set()
    for d in spec:
        incl.update(j for j in sh["path"][d] if j in sh["desc"][q])
    return incl


def _resolve(cfg, sh, q, v):
    """variant actually executed for this hierarchy / class (inapplicable ones fall back to the plain select)"""
    cl = cfg["classes"]
    concrete = cfg["kind"] == "concrete"
    name = v["v"]
    if name in REF_VARIANTS and not cfg["ref"]:
        name = "plain"
    if concrete and name in ("selectin", "aliased"):
        name = "plain"
    if concrete and name == "wp" and not cl[q]["poly"]:
        name = "wp_explicit" if len(sh["desc"][q]) > 1 else "plain"
    if name == "selectin" and len(sh["desc"][q]) == 1:
        name = "plain"
    return name


def _run_variant(b, eng, rows, nrefs, q, v):
    from sqlalchemy import select
    from sqlalchemy.orm import Session, aliased, joinedload, polymorphic_union, selectin_polymorphic, selectinload, with_polymorphic

    cfg, sh = b.cfg, b.shape
    concrete = cfg["kind"] == "concrete"
    Q = b.classes[q]
    name = _resolve(cfg, sh, q, v)
    f = v.get("filt")
    limit = v.get("limit")
    offset = v.get("offset") or 0
    exp = _filt(_expected_rows(cfg, sh, rows, q), f)
    if name == "wp_explicit":
        exp = _filt([r for r in rows if r["cls"] in sh["desc"][q]], f)
    where = f"[{cfg['kind']} on={cfg['on']}] {name} at C{q}"
    eager = {"mapper": True, "tag": name}

    mode = v.get("mode") or "normal"
    if name in REF_VARIANTS[2:]:
        mode = "normal"
    pe = mode != "normal"
    if pe:
        where += f" [{mode}]"
        eager["pe"] = True
    with Session(eng) as s:
        keep = []
        if mode == "pe_loaded":
            # the Session already holds every row of the queried subtree as a fully loaded object of its own class
            for r in _expected_rows(cfg, sh, rows, q):
                o = s.get(b.classes[r["cls"]], r["id"])
                if o is not None:
                    for n in P.attr_names(cfg, sh, r["cls"]):
                        getattr(o, n, None)
                    keep.append(o)
        if name in ("plain", "aliased", "wp", "wp_explicit", "selectin", "legacy", "join_of_type"):
            ent = Q
            opts = []
            if name == "aliased":
                ent = aliased(Q, flat=bool(v.get("flat")))
                where += f" aliased(C{q}, flat={bool(v.get('flat'))})"
            if name == "wp_explicit":
                # with_polymorphic() docstring: selectable= is required for concrete classes, polymorphic_on= for
                # mappings without default polymorphic loading
                pj = polymorphic_union({P.ident(cfg, k): b.tables[k] for k in sh["desc"][q]}, "type", "pjx")
                ent = with_polymorphic(Q, "*", selectable=pj, polymorphic_on=pj.c.type)
                eager["incl"] = set(sh["desc"][q])
                where += " with_polymorphic('*', selectable=polymorphic_union(subtree), polymorphic_on=<its type column>)"
            if name == "wp" or (name == "join_of_type" and v.get("wpj")):
                if concrete:
                    ent = with_polymorphic(Q, "*", aliased=bool(v.get("aliased")))
                    eager["incl"] = set(sh["desc"][q])
                    where += f" with_polymorphic('*', aliased={bool(v.get('aliased'))})"
                else:
                    star = v.get("star")
                    sub = _subset(sh, q, v.get("mask", 0), proper=False)
                    spec = "*" if star else [b.classes[d] for d in sub]
                    pkw = {}
                    pon = v.get("pon") or 0
                    if pon:
                        # explicit discriminator: a base-table column (or an expression over it) that is not the mapper's own
                        # polymorphic_on but carries the same identities
                        from sqlalchemy import case

                        col = b.tables[0].c.dtwin
                        if pon == 1:
                            pkw["polymorphic_on"] = col
                        elif pon == 2:
                            pkw["polymorphic_on"] = col.label("disc_twin")
                        else:
                            ids = [P.ident(cfg, k) for k in range(sh["n"])]
                            pkw["polymorphic_on"] = case(*[(col == i_, i_) for i_ in ids], else_=col)
                        where += f" polymorphic_on=<explicit {['', 'column', 'label', 'CASE'][pon]} over t0.dtwin>"
                    ent = with_polymorphic(Q, spec, flat=bool(v.get("flat")), aliased=bool(v.get("aliased")), **pkw)
                    eager["incl"] = set(sh["desc"][q]) if star else _upclosure(sh, q, sub)
                    eager["explicit_wp"] = True
                    eager["tag"] = ("wp-star" if star else "wp-subset") if name == "wp" else "join_of_type-wp"
                    where += f" with_polymorphic({'*' if star else ['C%d' % d for d in sub]}, flat={bool(v.get('flat'))}, aliased={bool(v.get('aliased'))})"
            elif name == "selectin":
                sub = _subset(sh, q, v.get("mask", 0)) or [sh["desc"][q][1]]
                opts.append(selectin_polymorphic(Q, [b.classes[d] for d in sub]))
                eager["sip"] = set(sub)
                where += f" selectin_polymorphic({['C%d' % d for d in sub]})"
            if name == "legacy":
                qq = s.query(Q)
                if f:
                    qq = qq.filter(_filt_clause(Q.b0, f))
                ordered = bool(limit) or bool(v.get("order"))
                if ordered:
                    qq = qq.order_by(Q.id)
                if limit:
                    qq = qq.limit(limit).offset(offset)
                    exp = sorted(exp, key=lambda r: r["id"])[offset : offset + limit]
                elif ordered:
                    exp = sorted(exp, key=lambda r: r["id"])
                if pe:
                    qq = qq.populate_existing()
                objs = qq.all()
            else:
                stmt = select(ent)
                if name == "join_of_type":
                    r = v.get("ref", 0) % nrefs + 1
                    Ref = b.ref_cls
                    stmt = stmt.select_from(Ref).join(Ref.items.of_type(ent)).where(Ref.id == r)
                    exp = [x for x in exp if x["ref"] == r]
                    where += f" select_from(Ref).join(Ref.items.of_type(C{q})) ref={r}"
                if opts:
                    stmt = stmt.options(*opts)
                if f:
                    stmt = stmt.where(_filt_clause(ent.b0, f))
                    where += f" where b0 {f[0]} {f[1]}"
                ordered = bool(limit) or bool(v.get("order"))
                if ordered:
                    stmt = stmt.order_by(ent.id)
                    exp = sorted(exp, key=lambda r: r["id"])
                if limit:
                    stmt = stmt.limit(limit).offset(offset)
                    exp = exp[offset : offset + limit]
                    where += f" order_by(id).limit({limit}).offset({offset})"
                if pe:
                    stmt = stmt.execution_options(populate_existing=True)
                objs = s.scalars(stmt).all()
            _check_result(objs, exp, ordered, b, q, eager, where)
        elif name == "get":
            exp_ids = {r["id"]: r for r in _expected_rows(cfg, sh, rows, q)}
            exprx = _expr_excluded(cfg, sh, q)
            probe = [r["id"] for r in rows] + [99]
            for pk in probe:
                o = s.get(Q, pk, populate_existing=True) if pe else s.get(Q, pk)
                w = f"{where} Session.get(C{q}, {pk})"
                if pk in exp_ids:
                    if o is None:
                        raise Violation(f"C42/{cfg['kind']}/get/missing", f"{w} returned None", expected=f"C{exp_ids[pk]['cls']}")
                    _check_obj(o, exp_ids[pk], b, q, {"mapper": True, "tag": "get", "pe": pe}, w, exprx)
                elif o is not None:
                    raise Violation(f"C42/{cfg['kind']}/get/foreign-row", f"{w} returned {type(o).__name__} for a row that is not a C{q}", observed=type(o).__name__, expected=None)
        else:
            Ref = b.ref_cls
            r = v.get("ref", 0) % nrefs + 1
            sub = _subset(sh, 0, v.get("mask", 0), proper=False)
            star = v.get("star")
            eager = {"mapper": False, "tag": name}
            stmt = select(Ref).where(Ref.id == r)
            if name in ("rel_selectin_of_type", "rel_joined_of_type"):
                wp = with_polymorphic(b.classes[0], "*" if star else [b.classes[d] for d in sub], flat=bool(v.get("flat")), aliased=bool(v.get("aliased")) or name == "rel_joined_of_type")
                ld = selectinload if name == "rel_selectin_of_type" else joinedload
                stmt = stmt.options(ld(Ref.items.of_type(wp)))
                eager["incl"] = set(range(sh["n"])) if star else _upclosure(sh, 0, sub)
                where += f" of_type(with_polymorphic(C0, {'*' if star else ['C%d' % d for d in sub]}))"
            elif name == "rel_selectin_sip":
                sub2 = [d for d in sub if d != 0]
                if sub2:
                    stmt = stmt.options(selectinload(Ref.items).selectin_polymorphic([b.classes[d] for d in sub2]))
                    eager["sip"] = set(sub2)
                    where += f" selectinload(Ref.items).selectin_polymorphic({['C%d' % d for d in sub2]})"
                else:
                    stmt = stmt.options(selectinload(Ref.items))
            refobj = s.scalars(stmt).unique().one()
            objs = list(refobj.items)
            exp = sorted([x for x in rows if x["ref"] == r], key=lambda x: x["id"])
            _check_result(objs, exp, True, b, 0, eager, where + f" Ref({r}).items")


# ----------------------------------------------------------------- the check
def _materialize_rows(cfg, sh, raw_rows):
    inst = [i for i, c in enumerate(cfg["classes"]) if not c["abstract"]]
    rows = []
    if not inst:
        return rows
    for k, r in enumerate(raw_rows):
        c = inst[r["cls"] % len(inst)]
        vals = {}
        pos = 0
        rv = r["vals"]
        for j in sh["path"][c]:
            for n in cfg["classes"][j]["cols"]:
                x = rv[pos % len(rv)] if rv else pos
                pos += 1
                if x is None:
                    vals[n] = None
                elif P.col_is_str(n):
                    vals[n] = f"{n}{x}_{r['id']}"
                else:
                    vals[n] = (P.COL_POOL.index(n) + 1) * 1000 + x * 100 + r["id"]
        rows.append({"cls": c, "id": r["id"], "b0": r["b0"], "ref": r.get("ref"), "vals": vals})
    return rows


def check_hier(case, ctx):
    from vf.sautil import mem_engine

    pinned = bool(case.get("pinned"))
    cfg = P.normalize(case["h"], pinned=pinned)
    b = P.get_built(cfg)
    sh = b.shape
    cl = cfg["classes"]
    nrefs = 2
    rows = _materialize_rows(cfg, sh, case["rows"])
    if not cfg["ref"]:
        for r in rows:
            r["ref"] = None
    else:
        for r in rows:
            r["ref"] = None if r["ref"] is None else r["ref"] % nrefs + 1
    for reason in cfg["excluded"]:
        ctx.exclude(f"{reason}: columns of a single-table class declared after a joined sibling subtree (known finding)")

    # classification
    maxdepth = max(sh["depth"])
    populated = {r["cls"] for r in rows}
    mids = [q for q in range(sh["n"]) if q != 0 and len(sh["desc"][q]) > 1]
    mid_nonempty = any(_expected_rows(cfg, sh, rows, q) for q in mids)
    nontrivial = maxdepth >= 2 and len(populated) >= 3 and mid_nonempty
    classes = {f"kind:{cfg['kind']}", f"disc:{cfg['disc']}", f"on:{cfg['on']}", f"depth:{maxdepth}", f"nclasses:{min(sh['n'], 8)}"}
    if any(c["abstract"] for c in cl):
        classes.add("has-abstract")
    if any(c["abstract"] and 0 < i and len(sh["desc"][i]) > 1 for i, c in enumerate(cl)):
        classes.add("abstract-intermediate")
    names = [n for c in cl for n in c["cols"]]
    if len(names) != len(set(names)):
        classes.add("samename-columns")
    if any(c["load"] for c in cl):
        classes.add("mapper-polymorphic_load")
    if cfg["kind"] == "concrete":
        classes.add(f"croot:{cfg['croot']}")
        if any(c["poly"] for c in cl[1:]):
            classes.add("concrete-intermediate-pjoin")
    if cfg["ref"]:
        classes.add("ref-entity")
    if cfg["wpm"]:
        classes.add("mapper-with_polymorphic-star")
    if b.warnings:
        ctx.info("build-warnings", 1)
        raise HarnessError(f"generated mapping emits warnings (domain must exclude it): {b.warnings[:3]} cfg={cfg}")

    queries = [{"q": q, "v": "plain"} for q in range(sh["n"])]
    for v in case["queries"]:
        v = dict(v)
        v["q"] = 0 if (v["v"] in REF_VARIANTS[2:] and cfg["ref"]) else v["at"] % sh["n"]
        queries.append(v)

    excluded = 0
    runnable = []
    for v in queries:
        q = v["q"]
        if _expr_excluded(cfg, sh, q) and not pinned:
            # would hit the known finding whenever a sub-subclass row exists: keep such queries out
            excluded += 1
            continue
        runnable.append(v)
        pos = "root" if q == 0 else ("leaf" if len(sh["desc"][q]) == 1 else "mid")
        classes.add(f"at:{pos}")
        rn = _resolve(cfg, sh, q, v)
        classes.add(f"v:{rn}")
        if rn == "join_of_type" and v.get("wpj"):
            classes.add("v:join_of_type-wp")
        if rn == "wp":
            classes.add("v:wp-star" if (v.get("star") or cfg["kind"] == "concrete") else "v:wp-subset")
            if v.get("flat") and cfg["kind"] != "concrete":
                classes.add("v:wp-flat")
            if v.get("aliased"):
                classes.add("v:wp-aliased")
            if v.get("pon") and cfg["kind"] != "concrete":
                classes.add("v:wp-explicit-polymorphic_on")
                if v.get("aliased") or v.get("flat"):
                    classes.add("v:wp-explicit-polymorphic_on:aliased-or-flat")
                    classes.add(f"v:wp-explicit-polymorphic_on:aliased-or-flat:at-{pos}")
        mode = v.get("mode") or "normal"
        if rn in REF_VARIANTS[2:]:
            mode = "normal"
        if mode != "normal":
            classes.add(f"mode:{mode}")
            # the SELECT of this variant does not cover every column of some returned row's most specific class
            full = rn == "wp_explicit" or (rn in ("wp", "join_of_type") and (v.get("star") or cfg["kind"] == "concrete") and (rn == "wp" or v.get("wpj")))
            partial = not full and any(
                r["cls"] != q and any(cl[j]["cols"] for j in sh["path"][r["cls"]] if j not in sh["path"][q]) for r in _expected_rows(cfg, sh, rows, q)
            )
            if partial:
                classes.add("populate_existing:select-misses-subclass-columns")
                classes.add(f"populate_existing:select-misses-subclass-columns:{mode}")
        if v.get("filt"):
            classes.add("q:filter")
        if v.get("limit"):
            classes.add("q:limit")
        if pos == "mid" and rn != "plain":
            classes.add("at:mid-with-option")
    if excluded:
        ctx.exclude("query at a joined-table subclass while polymorphic_on is a SQL expression (known finding)")
    ctx.note(case, nontrivial, classes=sorted(classes))

    eng = mem_engine()
    try:
        b.metadata.create_all(eng)
        with eng.begin() as conn:
            P.insert_rows(conn, b, rows, nrefs)
        if cfg["croot"] == "abstract_doc":
            # pinned only: the literal "semi-classical abstract" example of inheritance.rst (base mapped to the
            # polymorphic_union with with_polymorphic="*")
            from sqlalchemy import exc as sa_exc
            from sqlalchemy import select

            try:
                select(b.classes[0])
            except sa_exc.InvalidRequestError as e:
                if "requires 'selectable' argument when concrete-inheriting mappers are used" in str(e):
                    raise Violation(SIG_DOC, f"select() against the documented abstract concrete base raises: {e}", observed=str(e), expected="polymorphic SELECT from the pjoin")
                raise
        for v in runnable:
            _run_variant(b, eng, rows, nrefs, v["q"], v)
    finally:
        eng.dispose()


# ----------------------------------------------------------------- strategy
_colnames = st.lists(st.sampled_from(P.COL_POOL), max_size=3)


@st.composite
def _cases(draw):
    kind = draw(st.sampled_from(["single", "joined", "joined", "mixed", "mixed", "concrete"]))
    n = draw(st.sampled_from([1, 2, 3, 4, 5, 5, 6, 6, 6, 7, 7, 7, 8, 8, 8]))
    chainy = draw(st.integers(0, 3)) > 0
    classes = []
    for i in range(n):
        if chainy and i > 0 and draw(st.integers(0, 2)) > 0:
            p = draw(st.integers(max(0, i - 2), max(0, i - 1)))
        else:
            p = draw(st.integers(0, max(0, i - 1)))
        classes.append(
            {
                "p": p,
                "abs": draw(st.integers(0, 5)) == 0,
                "cols": draw(_colnames),
                "load": draw(st.sampled_from([None, None, None, "inline", "selectin"])),
                "own": draw(st.integers(0, 2)) == 0,
                "poly": draw(st.booleans()),
            }
        )
    h = {
        "kind": kind,
        "disc": draw(st.sampled_from(["str", "int"])),
        "on": draw(st.sampled_from(["col", "col", "name", "expr"])),
        "croot": draw(st.sampled_from(["table", "table", "abstract", "abstract", "plain"])),
        "ref": draw(st.booleans()),
        "wpm": draw(st.integers(0, 5)) == 0,
        "classes": classes,
    }
    size = draw(st.sampled_from([0, 1, 3, 5, 6, 8, 8, 10, 10, 12, 12, 12]))
    pks = draw(st.lists(st.integers(1, 40), unique=True, min_size=size, max_size=size))
    rows = []
    spread = draw(st.integers(0, 7))
    for k, pk in enumerate(pks):
        rows.append(
            {
                "id": pk,
                "cls": draw(st.integers(0, 7)) if draw(st.integers(0, 3)) == 0 else spread + k,
                "b0": draw(st.integers(0, 5)),
                "ref": draw(st.sampled_from([None, 0, 0, 1])),
                "vals": draw(st.lists(st.one_of(st.none(), st.integers(0, 9)), min_size=1, max_size=4)),
            }
        )
    queries = []
    for _ in range(draw(st.integers(0, 10))):
        name = draw(st.sampled_from(REF_VARIANTS if h["ref"] and kind != "concrete" and draw(st.booleans()) else TOP_VARIANTS))
        v = {"at": draw(st.integers(0, 7)), "v": name}
        if name not in REF_VARIANTS[2:]:
            v["mode"] = draw(st.sampled_from(["normal", "pe_loaded", "pe_fresh", "normal"]))
        if name == "join_of_type":
            v["wpj"] = draw(st.booleans())
        if name in ("wp", "aliased", "selectin", "join_of_type", "rel_selectin_of_type", "rel_joined_of_type", "rel_selectin_sip"):
            v["mask"] = draw(st.integers(0, 255))
            v["star"] = draw(st.booleans())
            v["flat"] = draw(st.booleans())
            v["aliased"] = draw(st.booleans())
        if name in ("wp", "join_of_type"):
            v["pon"] = draw(st.sampled_from([0, 1, 0, 2, 3, 1]))
        if name in REF_VARIANTS:
            v["ref"] = draw(st.integers(0, 1))
        if name not in ("get",) and name not in REF_VARIANTS[2:]:
            if draw(st.booleans()):
                v["filt"] = [draw(st.sampled_from(["lt", "ge", "eq"])), draw(st.integers(0, 5))]
            if draw(st.booleans()):
                v["order"] = True
                if draw(st.booleans()):
                    v["limit"] = draw(st.integers(1, 5))
                    v["offset"] = draw(st.integers(0, 2))
        queries.append(v)
    return {"h": h, "rows": rows, "queries": queries}


def subs(tier):
    return [Generated("hier", check_hier, strategy=_cases(), quick=2000, thorough=60000, budget_s_quick=30.0)]
