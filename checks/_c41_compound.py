"""C41 sub-check "compound": set operations / subqueries mapped back to entities, from_statement, GROUP BY.

(owner: ORM-query group; imported by checks/c41.py)
"""
from __future__ import annotations

from hypothesis import strategies as st

from vf.api import Violation
from checks import _orm_query as oq

KINDS = ["setop_alias", "setop_alias", "subq_alias", "subq_alias", "from_stmt_setop", "from_stmt_text", "group_entity", "group_entity", "group_col"]
SETOPS = ["union", "union_all", "intersect", "except_"]
ROOTS = ["Parent", "Child", "Node", "Tag", "Grandchild"]


def _only_basic(e):
    """strip relationship / subquery leaves (for SQL-text rendering)"""
    if e is None:
        return None
    if e[0] in ("and", "or"):
        a, b = _only_basic(e[1]), _only_basic(e[2])
        if a is None:
            return b
        if b is None:
            return a
        return [e[0], a, b]
    if e[0] == "not":
        a = _only_basic(e[1])
        return None if a is None else ["not", a]
    return e if e[0] in ("cmp", "isnull", "in", "like", "colcmp", "case") else None


def check_compound(case, ctx):
    import sqlalchemy as sa
    from sqlalchemy import func, select, text
    from sqlalchemy.orm import Session, aliased

    from checks import c41

    fam = oq.family()
    data = case["data"]
    model = oq.Model(data)
    kind = KINDS[case["kind"] % len(KINDS)]
    root = case["root"]
    Root = fam.classes[root]
    tbl = fam.tables[oq.CLS_TABLE[root]]
    nondef = c41.NONDEF[root]
    f1 = c41.norm_expr(case.get("f1"), [root], model)
    f2 = c41.norm_expr(case.get("f2"), [root], model)
    limit = case.get("limit")
    null_fk, dup = c41.data_flags(data)
    classes = {f"kind:{kind}", f"root:{root}"}
    interesting = True  # every kind uses a subquery / aliased entity / aggregate over a join
    eng = oq.load_engine(data)
    try:
        with Session(eng) as s:
            if kind in ("setop_alias", "from_stmt_setop", "subq_alias"):
                setop = SETOPS[case["setop"] % len(SETOPS)]
                classes.add(f"setop:{setop}" if kind != "subq_alias" else "subq")
                f3 = c41.norm_expr(case.get("f3"), [root], model)
                objs = c41.load_objs(s, [f1, f2, f3], [[root]] * 3, model)
                # ---- ORM
                so = c41.OrmSide([Root], [root], objs)
                s1 = select(Root)
                s2 = select(Root)
                if f1 is not None:
                    s1 = s1.where(so.expr(f1))
                if f2 is not None:
                    s2 = s2.where(so.expr(f2))
                # ---- Core twin
                a1, a2 = tbl.alias("c1"), tbl.alias("c2")
                t1 = select(*[a1.c[c] for c in nondef])
                t2 = select(*[a2.c[c] for c in nondef])
                if f1 is not None:
                    t1 = t1.where(c41.CoreSide([a1], [root], model).expr(f1))
                if f2 is not None:
                    t2 = t2.where(c41.CoreSide([a2], [root], model).expr(f2))
                if kind == "subq_alias":
                    il = case.get("inner_limit")
                    s1 = s1.order_by(Root.id.desc() if case.get("inner_desc") else Root.id)
                    t1 = t1.order_by(a1.c.id.desc() if case.get("inner_desc") else a1.c.id)
                    if il is not None:
                        s1, t1 = s1.limit(il), t1.limit(il)
                    osub, csub = s1.subquery(), t1.subquery("u")
                else:
                    osub_sel = getattr(sa, setop)(s1, s2)
                    csub_sel = getattr(sa, setop)(t1, t2)
                    if kind == "from_stmt_setop":
                        stmt = select(Root).from_statement(osub_sel)
                        got = sorted(c41.oq_canon(c41.canon_entity(o)) for o in s.scalars(stmt).all())
                        with eng.connect() as conn:
                            exp = sorted(c41.oq_canon([root, r[0], list(r)]) for r in conn.execute(csub_sel).fetchall())
                        classes.add("rows:0" if not exp else "rows:1+")
                        ctx.note(case, interesting and (null_fk or dup), classes=sorted(classes))
                        if got != exp:
                            raise Violation(f"C41/from_statement/{setop}", f"entities from from_statement({setop}) differ from Core twin (multiset); {c41._sql(osub_sel)}", observed=got, expected=exp)
                        return
                    osub, csub = osub_sel.subquery(), csub_sel.subquery("u")
                A = aliased(Root, osub)
                ents, ecls, froms = [A], [root], [csub]
                stmt = select(A)
                core_cols = [csub.c[c] for c in nondef]
                shape = [("e", root, len(nondef))]
                frm = csub
                j = case.get("join")
                if j is not None:
                    rels = sorted(oq.RELS[root])
                    rel = rels[j[0] % len(rels)]
                    tcls, uselist, rkind, lcol, rcol = oq.RELS[root][rel]
                    TA = aliased(fam.classes[tcls])
                    stmt = select(A, TA).join(getattr(A, rel).of_type(TA), isouter=bool(j[1]))
                    tt = fam.tables[oq.CLS_TABLE[tcls]].alias("jt")
                    if rkind == "o2m":
                        frm = frm.join(tt, tt.c[rcol] == csub.c.id, isouter=bool(j[1]))
                    elif rkind == "m2o":
                        frm = frm.join(tt, tt.c.id == csub.c[lcol], isouter=bool(j[1]))
                    else:
                        sec = fam.tables["parent_tag"].alias("js")
                        if j[1]:
                            frm = frm.outerjoin(sec.join(tt, tt.c.id == sec.c[rcol]), sec.c[lcol] == csub.c.id)
                        else:
                            frm = frm.join(sec, sec.c[lcol] == csub.c.id).join(tt, tt.c.id == sec.c[rcol])
                    ents.append(TA)
                    ecls.append(tcls)
                    froms.append(tt)
                    core_cols += [tt.c[c] for c in c41.NONDEF[tcls]]
                    shape.append(("e", tcls, len(c41.NONDEF[tcls])))
                    classes.add(f"join:{rkind}{':outer' if j[1] else ''}")
                core = select(*core_cols).select_from(frm)
                f3 = c41.norm_expr(case.get("f3"), ecls, model)
                if f3 is not None:
                    objs.update(c41.load_objs(s, [f3], [ecls], model))
                    stmt = stmt.where(c41.OrmSide(ents, ecls, objs).expr(f3))
                    core = core.where(c41.CoreSide(froms, ecls, model).expr(f3))
                    classes |= {f"f3:{k}" for k in c41.leaf_kinds(f3, set())}
                stmt = stmt.order_by(*[e.id for e in ents])
                core = core.order_by(*[f.c.id for f in froms])
                if limit is not None:
                    stmt, core = stmt.limit(limit), core.limit(limit)
                sel = [["e", i] for i in range(len(ents))]
                got = c41.canon_orm_rows(s.execute(stmt).all(), sel)
                with eng.connect() as conn:
                    exp = c41.shape_rows(conn.execute(core).fetchall(), shape)
                classes.add("rows:0" if not exp else "rows:1+")
                ctx.note(case, interesting and (null_fk or dup), classes=sorted(classes))
                if got != exp:
                    raise Violation(f"C41/{kind}/{setop if kind == 'setop_alias' else 'subquery'}/{c41._diff_kind(exp, got)}",
                                    f"rows of aliased(Entity, subquery) differ from Core twin; orm={c41._sql(stmt)}", observed=got, expected=exp)
                cnt = s.scalar(select(func.count()).select_from(stmt.subquery()))
                if cnt != len(exp):
                    raise Violation(f"C41/{kind}/count-over-subquery", f"count(*) = {cnt}, rows = {len(exp)}", observed=cnt, expected=len(exp))
                return

            if kind == "from_stmt_text":
                b = _only_basic(f1)
                sql = f"SELECT * FROM {oq.CLS_TABLE[root]} AS r" + (" WHERE " + oq.expr_text(b, lambda t, n: f"r.{n}") if b is not None else "")
                stmt = select(Root).from_statement(text(sql))
                got = sorted(c41.oq_canon(c41.canon_entity(o)) for o in s.scalars(stmt).all())
                a1 = tbl.alias("c1")
                core = select(*[a1.c[c] for c in nondef])
                if b is not None:
                    core = core.where(c41.CoreSide([a1], [root], model).expr(b))
                with eng.connect() as conn:
                    exp = sorted(c41.oq_canon([root, r[0], list(r)]) for r in conn.execute(core).fetchall())
                classes.add("rows:0" if not exp else "rows:1+")
                ctx.note(case, interesting and (null_fk or dup), classes=sorted(classes))
                if got != exp:
                    raise Violation("C41/from_statement/text", f"entities from from_statement(text) differ from Core twin; {sql}", observed=got, expected=exp)
                return

            if kind == "group_entity":
                rels = sorted(oq.RELS[root])
                j = case.get("join") or [0, True]
                rel = rels[j[0] % len(rels)]
                outer = bool(j[1])
                tcls, uselist, rkind, lcol, rcol = oq.RELS[root][rel]
                R = aliased(Root) if case.get("ralias") else Root
                TA = aliased(fam.classes[tcls])
                ecls = [root, tcls]
                fw = c41.norm_expr(case.get("f3"), ecls, model)
                objs = c41.load_objs(s, [fw], [ecls], model)
                aggs_o = [func.count(TA.id), func.max(TA.x) if tcls != "Tag" else func.max(TA.id), func.min(TA.name)]
                gb = case.get("group_by_entity")
                stmt = select(R, *aggs_o).join(getattr(R, rel).of_type(TA), isouter=outer)
                r0 = tbl.alias("g0")
                tt = fam.tables[oq.CLS_TABLE[tcls]].alias("g1")
                if rkind == "o2m":
                    frm = r0.join(tt, tt.c[rcol] == r0.c.id, isouter=outer)
                elif rkind == "m2o":
                    frm = r0.join(tt, tt.c.id == r0.c[lcol], isouter=outer)
                else:
                    sec = fam.tables["parent_tag"].alias("gs")
                    frm = r0.outerjoin(sec.join(tt, tt.c.id == sec.c[rcol]), sec.c[lcol] == r0.c.id) if outer else r0.join(sec, sec.c[lcol] == r0.c.id).join(tt, tt.c.id == sec.c[rcol])
                aggs_c = [func.count(tt.c.id), func.max(tt.c.x) if tcls != "Tag" else func.max(tt.c.id), func.min(tt.c.name)]
                core = select(*[r0.c[c] for c in nondef], *aggs_c).select_from(frm)
                if fw is not None:
                    stmt = stmt.where(c41.OrmSide([R, TA], ecls, objs).expr(fw))
                    core = core.where(c41.CoreSide([r0, tt], ecls, model).expr(fw))
                    classes |= {f"w:{k}" for k in c41.leaf_kinds(fw, set())}
                if gb:
                    stmt = stmt.group_by(*[getattr(R, c) for c in nondef])
                else:
                    stmt = stmt.group_by(R.id)
                core = core.group_by(*[r0.c[c] for c in nondef]) if gb else core.group_by(r0.c.id)
                hv = case.get("having")
                if hv is not None:
                    op, n = oq.OPS[hv[0] % len(oq.OPS)], hv[1]
                    mk = lambda c: {"=": c == n, "!=": c != n, "<": c < n, "<=": c <= n, ">": c > n, ">=": c >= n}[op]  # noqa: E731
                    stmt = stmt.having(mk(func.count(TA.id)))
                    core = core.having(mk(func.count(tt.c.id)))
                    classes.add("having")
                stmt = stmt.order_by(R.id)
                core = core.order_by(r0.c.id)
                if limit is not None:
                    stmt, core = stmt.limit(limit), core.limit(limit)
                classes.add(f"join:{rkind}{':outer' if outer else ''}")
                got = [[c41.canon_entity(r[0])] + list(r[1:]) for r in s.execute(stmt).all()]
                with eng.connect() as conn:
                    n = len(nondef)
                    exp = [[[root, r[0], list(r[:n])]] + list(r[n:]) for r in conn.execute(core).fetchall()]
                classes.add("rows:0" if not exp else "rows:1+")
                ctx.note(case, interesting and (null_fk or dup), classes=sorted(classes))
                if got != exp:
                    raise Violation(f"C41/group_by-entity/{c41._diff_kind(exp, got)}", f"grouped rows differ from Core twin; orm={c41._sql(stmt)}", observed=got, expected=exp)
                return

            # group_col
            R = aliased(Root) if case.get("ralias") else Root
            gcol = ["name", "x"][case.get("gcol", 0) % 2] if root != "Tag" else "name"
            fw = c41.norm_expr(case.get("f1"), [root], model)
            objs = c41.load_objs(s, [fw], [[root]], model)
            stmt = select(getattr(R, gcol), func.count(R.id), func.max(R.id)).group_by(getattr(R, gcol)).order_by(getattr(R, gcol))
            r0 = tbl.alias("g0")
            core = select(r0.c[gcol], func.count(r0.c.id), func.max(r0.c.id)).group_by(r0.c[gcol]).order_by(r0.c[gcol])
            if fw is not None:
                stmt = stmt.where(c41.OrmSide([R], [root], objs).expr(fw))
                core = core.where(c41.CoreSide([r0], [root], model).expr(fw))
                classes |= {f"w:{k}" for k in c41.leaf_kinds(fw, set())}
            got = [list(r) for r in s.execute(stmt).all()]
            with eng.connect() as conn:
                exp = [list(r) for r in conn.execute(core).fetchall()]
            classes.add("rows:0" if not exp else "rows:1+")
            ctx.note(case, (c41.uses_rel(fw) or c41.uses_subq(fw) or bool(case.get("ralias"))) and (null_fk or dup), classes=sorted(classes))
            if got != exp:
                raise Violation("C41/group_by-column", f"grouped rows differ from Core twin; orm={c41._sql(stmt)}", observed=got, expected=exp)
    finally:
        eng.dispose()


@st.composite
def cases(draw):
    from checks import c41

    data = draw(c41._DATA)
    tree0, tree1 = c41._WHERE3[0], c41._WHERE3[1]
    return {
        "data": data,
        "kind": draw(st.integers(0, len(KINDS) - 1)),
        "root": draw(st.sampled_from(["Node", "Child", "Parent", "Node", "Child", "Parent", "Tag", "Grandchild"])),
        "setop": draw(st.integers(0, 3)),
        "f1": draw(tree0), "f2": draw(tree0), "f3": draw(tree1),
        "join": draw(st.one_of(st.none(), st.tuples(st.integers(0, 1), st.booleans()).map(list))),
        "limit": draw(st.one_of(st.none(), st.integers(0, 5))),
        "inner_limit": draw(st.one_of(st.none(), st.integers(0, 4))),
        "inner_desc": draw(st.booleans()),
        "ralias": draw(st.booleans()),
        "group_by_entity": draw(st.booleans()),
        "having": draw(st.one_of(st.none(), st.tuples(st.integers(0, 5), st.integers(0, 3)).map(list))),
        "gcol": draw(st.integers(0, 1)),
    }
