"""C40 - loader strategies change how data is loaded, never what is loaded.

Metamorphic + reference: one generated query (filters, total ORDER BY,
LIMIT/OFFSET, DISTINCT, join along a relationship that is also eager loaded,
yield_per) is executed under several assignments of relationship loader
strategies along every relationship path of depth <= 2 and of column options,
each in a fresh Session.  The canonical object-graph snapshot (class, PK, every
column, every relationship to depth 2, in order) must equal the snapshot the
harness computes from the generated rows + the primary PK list obtained by SQL
text through the raw DBAPI connection -- so all assignments are equal to each
other and "all strategies equally wrong" is caught too.
"""
from __future__ import annotations

from hypothesis import strategies as st

from vf.api import Enumerated, Generated, Violation
from checks import _orm_query as oq

PROPERTY = "C40"
LEVEL = "exploration"
RULE = (
    "gen: data set (0-6 parents x 0-4 children x 0-3 grandchildren, orphans with NULL FK, tags m2m, self-referential nodes incl. cycles) "
    "+ one query (root Parent/Child/Node; boolean filter tree; optional inner/outer join along a relationship; DISTINCT; total ORDER BY; LIMIT/OFFSET) "
    "+ 3-7 assignments (strategy per relationship path of depth<=2 from default/lazyload/joinedload outer+inner/subqueryload/selectinload(chunksize)/immediateload; "
    "column options defer/undefer/undefer_group/load_only on root or path; yield_per; forced unique(); legacy Query). "
    "shapes: generated mapping shape -- composite-PK parents (2-3 key columns) with permuted column / PrimaryKeyConstraint / Mapper(primary_key) order, child FK columns and "
    "ForeignKeyConstraint pairs in permuted order, optional explicit primaryjoin with permuted and flipped conjuncts, many-to-many through an association table with permuted "
    "columns; keys from a tiny domain (mirrored values); 3-6 strategy assignments over paths of depth<=2, roots Parent and Child. "
    "pairs: every ordered pair of strategies on every nested path (a, a.b) x 4 (quick) / 5 (thorough) query shapes on two fixed data sets; chunk: selectin key-chunk boundary (500/501/1001 keys; thorough also 499/1000). "
    "Non-trivial: some assignment has LIMIT/OFFSET or DISTINCT together with an eager-loaded collection, or two different non-default strategies on nested paths; "
    "distinct = canonical JSON of the case"
)
ASSUMPTIONS = [
    "SQLite only (in-memory, one connection); Core INSERT and the DBAPI are trusted to store the generated rows",
    "primary-row oracle is SQL text written by the harness and run through the raw DBAPI connection; related rows come from the generated data (plain Python)",
    "joinedload(innerjoin=True) is used only where every source row has >=1 related row (its documented domain); otherwise the case degrades it to an outer join",
    "yield_per is applied only where documented as supported (no joined collection / subqueryload in the top-level load); unique() is called where the ORM requires it and the expected list is de-duplicated accordingly",
    "ORDER BY is always total over the selected rows (root PK appended), so LIMIT/OFFSET are deterministic; with DISTINCT only root columns are ordered",
    "not covered: inheritance (C42), with_expression, raiseload, noload, contains_eager, populate_existing, objects already present in the Session",
    "three confirmed defects are excluded from generation by construction (counted in excluded_by_construction) and pinned as replays in findings/C40: "
    "subqueryload of a many-to-one with deferred FK column; nested innerjoin joinedload spliced onto a sibling self-referential alias; "
    "subqueryload from a many-to-one adding DISTINCT under LIMIT/OFFSET over duplicate rows",
]

STRATS = ["default", "lazy", "joined", "joined_inner", "subquery", "selectin", "immediate"]
EAGER = {"joined", "joined_inner", "subquery", "selectin", "immediate"}
ROOTS = ["Parent", "Child", "Node"]


def paths_for(root):
    """relationship paths of depth <= 2: list of tuples of (owner class, relname)"""
    out = []
    for r1 in sorted(oq.RELS[root]):
        out.append(((root, r1),))
    for r1 in sorted(oq.RELS[root]):
        t1 = oq.RELS[root][r1][0]
        for r2 in sorted(oq.RELS[t1]):
            out.append(((root, r1), (t1, r2)))
    return out


PATHS = {r: paths_for(r) for r in ROOTS}
JOINS = {r: sorted(oq.RELS[r]) for r in ROOTS}


# ------------------------------------------------------------------ query rendering
def norm_query(q):
    """make every abstract query valid by construction"""
    q = dict(q)
    root = q["root"]
    if q.get("join") is not None:
        rel, outer = q["join"]
        q["join"] = [JOINS[root][rel % len(JOINS[root])], bool(outer)]
    order = []
    for t, col, desc in q.get("order") or []:
        if q.get("join") is None or q.get("distinct"):
            t = "r"
        cls = root if t == "r" else oq.RELS[root][q["join"][0]][0]
        cols = [c for c, _ in oq.typed_cols(cls)]
        order.append([t, cols[col % len(cols)], bool(desc)])
    q["order"] = order
    return q


def orm_stmt(q, legacy_session=None):
    """returns the 2.0 select (or a legacy Query when a session is given)"""
    from sqlalchemy import select
    from sqlalchemy.orm import aliased

    fam = oq.family()
    Root = fam.classes[q["root"]]
    J = None
    stmt = legacy_session.query(Root) if legacy_session is not None else select(Root)
    if q["join"] is not None:
        rel, outer = q["join"]
        J = aliased(fam.classes[oq.RELS[q["root"]][rel][0]])
        stmt = stmt.join(getattr(Root, rel).of_type(J), isouter=outer)

    def col(t, name):
        return getattr(J if (t == "j" and J is not None) else Root, name)

    if q.get("where") is not None:
        e = oq.expr_sa(q["where"], col)
        stmt = stmt.filter(e) if legacy_session is not None else stmt.where(e)
    if q.get("distinct"):
        stmt = stmt.distinct()
    ob = []
    for t, c, desc in q["order"]:
        a = col(t, c)
        ob.append(a.desc() if desc else a.asc())
    ob.append(Root.id)
    stmt = stmt.order_by(*ob)
    if q.get("limit") is not None:
        stmt = stmt.limit(q["limit"])
    if q.get("offset") is not None:
        stmt = stmt.offset(q["offset"])
    return stmt


def text_sql(q):
    root = q["root"]
    if q["join"] is not None:
        frm = oq.join_text(root, q["join"][0], q["join"][1])
        has_j = True
    else:
        frm = f"{oq.CLS_TABLE[root]} AS r"
        has_j = False

    def col(t, name):
        return f"{'j' if (t == 'j' and has_j) else 'r'}.{name}"

    sql = f"SELECT {'DISTINCT ' if q.get('distinct') else ''}r.id FROM {frm}"
    if q.get("where") is not None:
        sql += " WHERE " + oq.expr_text(q["where"], col)
    ob = [f"{col(t, c)} {'DESC' if desc else 'ASC'}" for t, c, desc in q["order"]] + ["r.id"]
    sql += " ORDER BY " + ", ".join(ob)
    if q.get("limit") is not None or q.get("offset") is not None:
        sql += f" LIMIT {q['limit'] if q.get('limit') is not None else -1}"
        if q.get("offset") is not None:
            sql += f" OFFSET {q['offset']}"
    return sql


# ------------------------------------------------------------------ loader options
def _deferred_cols(target, kind, chosen):
    names = [c for c in oq.COLS[oq.CLS_TABLE[target]] if c != "id"]
    if kind == "defer":
        return set(chosen)
    if kind == "load_only":
        return set(names) - set(chosen)
    return set()


def norm_assignment(root, a, model, pinned=False, q=None):
    """resolve indices; degrade innerjoin outside its documented domain; decide unique / yield_per"""
    paths = PATHS[root]
    strat = {}
    for i, p in enumerate(paths):
        s = STRATS[a["s"][i % len(a["s"])] % len(STRATS)] if a.get("s") else "default"
        if s == "joined_inner" and not model.is_total(*p[-1]):
            s = "joined"
        strat[p] = s
    excluded, splice_trigger = [], False
    if root == "Node":
        # known finding: a nested innerjoin=True eager join below an outer-joined self-referential relationship is spliced
        # onto the sibling eager join of the same mapper that was added just before it (wrong rows, silently)
        for b in ("children", "parent"):
            p1 = (("Node", b),)
            if strat[p1] == "joined" and strat[p1 + (("Node", "parent"),)] == "joined_inner" and strat[p1 + (("Node", "children"),)] in ("joined", "joined_inner"):
                if pinned:
                    splice_trigger = True
                else:
                    strat[p1 + (("Node", "parent"),)] = "joined"
                    excluded.append("nested innerjoin joinedload next to a sibling joinedload on a self-referential mapper (known finding)")
    distinct_trigger = False
    if q is not None and (q.get("limit") is not None or q.get("offset") is not None) and not q.get("distinct") \
            and q.get("join") is not None and oq.RELS[root][q["join"][0]][1]:
        # known finding: subqueryload whose leftmost relationship is many-to-one adds DISTINCT to the re-run of the
        # original query, so LIMIT/OFFSET select different rows when that query returns duplicate entity rows (join)
        for p in paths:
            if strat[p] != "subquery" or oq.RELS[p[0][0]][p[0][1]][2] != "m2o":
                continue
            if len(p) == 1 or strat[p[:1]] in ("joined", "joined_inner", "subquery"):
                if pinned:
                    distinct_trigger = True
                else:
                    strat[p] = "selectin"
                    excluded.append("subqueryload from a many-to-one with LIMIT/OFFSET over duplicate rows (known finding)")
    colopts = []
    for pi, kind, cols in a.get("co") or []:
        if pi < 0:
            target, path = root, None
        else:
            path = paths[pi % len(paths)]
            target = oq.RELS[path[-1][0]][path[-1][1]][0]
        names = [c for c in oq.COLS[oq.CLS_TABLE[target]] if c != "id"]
        if kind == "undefer":
            if target not in oq.DEFERRED:
                continue
            chosen = ["note"]
        elif kind == "undefer_group":
            if oq.DEFERRED.get(target, {}).get("note") is None:
                continue
            chosen = ["g"]
        else:
            chosen = sorted({names[c % len(names)] for c in cols}) or [names[0]]
        colopts.append((path, target, kind, chosen))
    # one column-option kind per target path (defer + load_only on the same entity is redundant)
    seen, uniq, trigger = set(), [], False
    for co in colopts:
        if co[0] in seen:
            continue
        # known finding: subqueryload of a many-to-one whose local FK column is deferred on the source entity
        hit = False
        for rn, (tcls, uselist, kind, lcol, rcol) in sorted(oq.RELS[co[1]].items()):
            if kind == "m2o" and lcol in _deferred_cols(co[1], co[2], co[3]):
                p = (co[0] or ()) + ((co[1], rn),)
                if strat.get(p) == "subquery":
                    hit = True
        if hit and not pinned:
            excluded.append("subqueryload of many-to-one with deferred FK column (known finding)")
            continue
        trigger = trigger or hit
        seen.add(co[0])
        uniq.append(co)

    # top-level joined cluster: collections joined to the root rows need unique() and forbid yield_per;
    # subqueryload attached to the cluster forbids yield_per (rows must be buffered)
    need_unique = False
    no_yield = False
    for p in paths:
        if len(p) == 1:
            in_cluster = True
        else:
            in_cluster = strat[p[:1]] in ("joined", "joined_inner")
        if not in_cluster:
            continue
        uselist = oq.RELS[p[-1][0]][p[-1][1]][1]
        if strat[p] in ("joined", "joined_inner") and uselist:
            need_unique = True
        if strat[p] == "subquery":
            no_yield = True
    for p in paths:  # nested subqueryload below an eager parent runs inside the yielding load as well
        if len(p) == 2 and strat[p] == "subquery" and strat[p[:1]] in EAGER:
            no_yield = True
    yp = a.get("yp") or 0
    if need_unique or no_yield or a.get("uq"):
        yp = 0
    return {"strat": strat, "colopts": uniq, "need_unique": need_unique, "unique": need_unique or bool(a.get("uq")),
            "excluded": excluded, "fk_trigger": trigger, "splice_trigger": splice_trigger, "distinct_trigger": distinct_trigger,
            "yp": yp, "chunk": a.get("chunk") or 0, "legacy": bool(a.get("legacy")), "incr": bool(a.get("incr"))}


def build_options(root, na):
    from sqlalchemy import orm

    fam = oq.family()
    paths = PATHS[root]
    strat = na["strat"]

    def attr(step):
        return getattr(fam.classes[step[0]], step[1])

    def loader(s, step):
        a = attr(step)
        if s == "default":
            return orm.defaultload(a)
        if s == "lazy":
            return orm.lazyload(a)
        if s == "joined":
            return orm.joinedload(a, innerjoin=False)
        if s == "joined_inner":
            return orm.joinedload(a, innerjoin=True)
        if s == "subquery":
            return orm.subqueryload(a)
        if s == "selectin":
            return orm.selectinload(a, chunksize=na["chunk"]) if na["chunk"] else orm.selectinload(a)
        if s == "immediate":
            return orm.immediateload(a)
        raise ValueError(s)

    def colopt(target, kind, chosen):
        cls = fam.classes[target]
        if kind == "defer":
            return [orm.defer(getattr(cls, c)) for c in chosen]
        if kind == "undefer":
            return [orm.undefer(getattr(cls, c)) for c in chosen]
        if kind == "undefer_group":
            return [orm.undefer_group(chosen[0])]
        if kind == "load_only":
            return [orm.load_only(*[getattr(cls, c) for c in chosen])]
        raise ValueError(kind)

    co_by_path = {co[0]: co for co in na["colopts"]}
    opts = []
    if None in co_by_path:
        _, target, kind, chosen = co_by_path[None]
        opts.extend(colopt(target, kind, chosen))
    for p1 in [p for p in paths if len(p) == 1]:
        sub = []
        if p1 in co_by_path:
            _, target, kind, chosen = co_by_path[p1]
            sub.extend(colopt(target, kind, chosen))
        for p2 in [p for p in paths if len(p) == 2 and p[:1] == p1]:
            sub2 = []
            if p2 in co_by_path:
                _, target, kind, chosen = co_by_path[p2]
                sub2.extend(colopt(target, kind, chosen))
            if strat[p2] != "default" or sub2:
                l2 = loader(strat[p2], p2[1])
                if sub2:
                    l2 = l2.options(*sub2)
                sub.append(l2)
        if strat[p1] != "default" or sub:
            l1 = loader(strat[p1], p1[0])
            if sub:
                l1 = l1.options(*sub)
            opts.append(l1)
    return opts


# ------------------------------------------------------------------ oracle + run
class _Identity(Exception):
    pass


def snap_live(obj, depth, seen):
    cls = type(obj).__name__
    key = (cls, obj.id)
    prev = seen.setdefault(key, obj)
    if prev is not obj:
        raise _Identity(f"two distinct objects for identity {key} in one Session")
    out = [cls, obj.id, [getattr(obj, c) for c in oq.COLS[oq.CLS_TABLE[cls]]]]
    if depth > 0:
        rels = []
        for rel in sorted(oq.RELS[cls]):
            uselist = oq.RELS[cls][rel][1]
            v = getattr(obj, rel)
            if uselist:
                rels.append([rel, [snap_live(o, depth - 1, seen) for o in v]])
            else:
                rels.append([rel, snap_live(v, depth - 1, seen) if v is not None else None])
        out.append(rels)
    return out


def dedupe(seq):
    seen, out = set(), []
    for x in seq:
        if x not in seen:
            seen.add(x)
            out.append(x)
    return out


def run_assignment(eng, q, root, na):
    """returns the snapshot list for one assignment in a fresh Session"""
    from sqlalchemy.orm import Session

    opts = build_options(root, na)
    seen = {}
    with Session(eng) as s:
        if na["legacy"]:
            qq = orm_stmt(q, legacy_session=s)
            if opts:
                qq = qq.options(*opts)
            if na["yp"]:
                qq = qq.yield_per(na["yp"])
            it = iter(qq)  # legacy Query de-duplicates single-entity results unless yield_per is set
        else:
            stmt = orm_stmt(q)
            if opts:
                stmt = stmt.options(*opts)
            if na["yp"]:
                stmt = stmt.execution_options(yield_per=na["yp"])
            res = s.execute(stmt).scalars()
            if na["unique"]:
                res = res.unique()
            it = iter(res)
        objs, snaps = [], []
        for o in it:
            objs.append(o)
            if na["incr"]:
                snaps.append(snap_live(o, 2, seen))
        if not na["incr"]:
            snaps = [snap_live(o, 2, seen) for o in objs]
        s.rollback()
    return snaps


def expected_for(model, root, prim, na):
    uniq = na["unique"] or (na["legacy"] and not na["yp"])
    pks = dedupe(prim) if uniq else list(prim)
    return [model.snap(root, pk, 2) for pk in pks]


def first_diff(exp, got, where="root"):
    """(kind, location) of the first difference between two lists of object snapshots"""
    epk, gpk = [e[1] for e in exp], [g[1] for g in got]
    if epk != gpk:
        return ("order" if sorted(epk) == sorted(gpk) else "rows"), where
    for e, g in zip(exp, got):
        d = obj_diff(e, g, where)
        if d is not None:
            return d
    return None


def obj_diff(e, g, where):
    if e == g:
        return None
    if e[2] != g[2]:
        return "column-values", where
    if len(e) > 3:
        for (rn, ev), (_, gv) in zip(e[3], g[3]):
            if ev == gv:
                continue
            loc = f"{where}.{rn}"
            if oq.RELS[e[0]][rn][1]:
                return first_diff(ev, gv, loc)
            if ev is None or gv is None:
                return "scalar-none", loc
            if ev[1] != gv[1]:
                return "rows", loc
            return obj_diff(ev, gv, loc)
    return "unknown", where


def strat_at(na, root, loc):
    """strategy names along the relationship path named by a first_diff location"""
    parts = loc.split(".")[1:]
    cur, path, names = root, (), []
    for rn in parts[:2]:
        path = path + ((cur, rn),)
        names.append(na["strat"].get(path, "?"))
        cur = oq.RELS[cur][rn][0]
    return "+".join(names) or "root"


def judge(case, ctx, data, q, assignments, force_nontrivial=False):
    from sqlalchemy.exc import NoSuchColumnError

    root = q["root"]
    q = norm_query(q)
    model = oq.Model(data)
    nas = [norm_assignment(root, a, model, pinned=bool(case.get("pinned")), q=q) for a in assignments]
    for na in nas:
        for reason in na["excluded"]:
            ctx.exclude(reason)

    # ---- classification
    has_window = q.get("limit") is not None or q.get("offset") is not None or bool(q.get("distinct"))
    classes = {f"root:{root}"}
    for f in ("limit", "offset", "distinct", "where"):
        if q.get(f) is not None and q.get(f) is not False:
            classes.add(f"q:{f}")
    if q["join"] is not None:
        classes.add("q:join-outer" if q["join"][1] else "q:join-inner")
    nontrivial = False
    for na in nas:
        coll_eager = any(na["strat"][p] in EAGER and oq.RELS[p[-1][0]][p[-1][1]][1] for p in PATHS[root])
        nested_mixed = any(
            len(p) == 2 and na["strat"][p] not in ("default",) and na["strat"][p[:1]] not in ("default",) and na["strat"][p] != na["strat"][p[:1]]
            for p in PATHS[root]
        )
        if (has_window and coll_eager) or nested_mixed:
            nontrivial = True
        if has_window and coll_eager:
            classes.add("window+eager-collection")
        if nested_mixed:
            classes.add("nested-mixed")
        if q["join"] is not None and na["strat"][((root, q["join"][0]),)] in EAGER:
            classes.add("join+eager-same-rel")
        for p in PATHS[root]:
            classes.add(f"s{len(p)}:{na['strat'][p]}")
        for co in na["colopts"]:
            classes.add(f"co:{co[2]}{'' if co[0] is None else ':path'}")
        if na["need_unique"]:
            classes.add("needs-unique")
        if na["yp"]:
            classes.add("yield_per")
        if na["legacy"]:
            classes.add("legacy-query")
        if na["chunk"]:
            classes.add("selectin-chunksize")
    ctx.note(case, nontrivial or force_nontrivial, classes=sorted(classes))

    eng = oq.load_engine(data)
    try:
        raw = eng.raw_connection()
        try:
            cur = raw.cursor()
            cur.execute(text_sql(q))
            prim = [r[0] for r in cur.fetchall()]
            cur.close()
        finally:
            raw.close()
        if len(prim) != len(set(prim)):
            ctx.info("primary-has-duplicates")
        ctx.info("primary-rows:" + ("0" if not prim else "1-2" if len(prim) < 3 else "3+"))
        for na in nas:
            exp = expected_for(model, root, prim, na)
            try:
                got = run_assignment(eng, q, root, na)
            except _Identity as e:
                raise Violation("C40/identity/duplicate-object", str(e), observed=str(e), expected="one object per identity")
            except NoSuchColumnError as e:
                if not na["fk_trigger"]:
                    raise
                raise Violation(
                    "C40/subqueryload/many-to-one-deferred-fk/NoSuchColumnError",
                    f"subqueryload of a many-to-one whose FK column is deferred by defer()/load_only() raises {e}",
                    observed=str(e), expected="same objects as with any other strategy",
                )
            if got != exp:
                kind, loc = first_diff(exp, got) or ("unknown", "root")
                st_ = strat_at(na, root, loc)
                feats = "+".join(f for f in ("limit", "offset", "distinct") if q.get(f) not in (None, False)) or "plain"
                if q["join"] is not None:
                    feats += "+join"
                sig = f"C40/{kind}/{root}{loc[4:]}/{st_}/{feats}"
                if na["splice_trigger"]:
                    sig = "C40/joinedload/nested-innerjoin-spliced-onto-sibling/self-referential"
                if na["distinct_trigger"]:
                    sig = "C40/subqueryload/many-to-one-distinct-changes-limit-window"
                desc = {k: v for k, v in na.items() if k != "strat"}
                desc["strat"] = {".".join(s[1] for s in p): v for p, v in na["strat"].items() if v != "default"}
                raise Violation(
                    sig,
                    f"snapshot differs from the SQL/data oracle at {loc} ({kind}); assignment={desc}; sql={text_sql(q)}",
                    observed=got, expected=exp,
                )
    finally:
        eng.dispose()


# ------------------------------------------------------------------ generated
@st.composite
def _assignment(draw, npaths):
    mode = draw(st.sampled_from(["mixed", "mixed", "mixed", "uniform", "single"]))
    sidx = st.sampled_from([0, 1, 2, 2, 3, 4, 4, 5, 5, 6])
    if mode == "uniform":
        s = [draw(sidx)] * npaths
    elif mode == "single":
        s = [0] * npaths
        s[draw(st.integers(0, npaths - 1))] = draw(sidx)
    else:
        s = [draw(sidx) for _ in range(npaths)]
    co = []
    for _ in range(draw(st.sampled_from([0, 0, 1, 1, 2]))):
        co.append([draw(st.integers(-1, npaths - 1)), draw(st.sampled_from(["defer", "undefer", "undefer_group", "load_only"])),
                   draw(st.lists(st.integers(0, 3), min_size=1, max_size=2))])
    return {
        "s": s, "co": co,
        "uq": draw(st.sampled_from([False, False, False, True])),
        "yp": draw(st.sampled_from([0, 0, 0, 1, 2, 3])),
        "chunk": draw(st.sampled_from([0, 0, 1, 2, 3])),
        "legacy": draw(st.sampled_from([False, False, False, True])),
        "incr": draw(st.booleans()),
    }


_DATA = oq.datasets()
_ASSIGN = {r: st.lists(_assignment(len(PATHS[r])), min_size=3, max_size=7) for r in ROOTS}
_WHERE = {}
for _r in ROOTS:
    _WHERE[(_r, None)] = st.one_of(st.none(), oq.exprs(oq.typed_cols(_r), [], max_leaves=3))
    for _rel in JOINS[_r]:
        _WHERE[(_r, _rel)] = st.one_of(st.none(), oq.exprs(oq.typed_cols(_r), oq.typed_cols(oq.RELS[_r][_rel][0]), max_leaves=3))
_ORDER = st.lists(st.tuples(st.sampled_from(["r", "j"]), st.integers(0, 3), st.booleans()).map(list), max_size=2)
_JOIN = st.one_of(st.none(), st.tuples(st.integers(0, 1), st.booleans()).map(list))


@st.composite
def _cases(draw):
    data = draw(_DATA)
    root = draw(st.sampled_from(["Parent", "Parent", "Child", "Node"]))
    join = draw(_JOIN)
    jrel = JOINS[root][join[0] % len(JOINS[root])] if join is not None else None
    where = draw(_WHERE[(root, jrel)])
    window = draw(st.sampled_from(["none", "limit", "limit", "limit+offset", "offset"]))
    q = {
        "root": root, "join": join, "where": where,
        "distinct": draw(st.sampled_from([False, False, True])),
        "order": draw(_ORDER),
        "limit": draw(st.sampled_from([2, 3, 1, 5, 0])) if "limit" in window else None,
        "offset": draw(st.sampled_from([1, 0, 2, 3])) if "offset" in window else None,
    }
    assignments = draw(_ASSIGN[root])
    return {"data": data, "q": q, "as": assignments}


def check_gen(case, ctx):
    judge(case, ctx, case["data"], case["q"], case["as"])


# ------------------------------------------------------------------ enumerated: full strategy-pair product on nested paths
def _fixed_data(n_par=4):
    """deterministic, *partially* total data set: Parent.children / Child.parent / Grandchild.child / Tag.parents / Node.* have
    rows without a partner (empty collections, NULL FKs) while Child.grandchildren and Parent.tags are total, so an
    innerjoin=True below an outer join is legal on some nested paths and wrong inner joins change the primary rows"""
    parents = [[i + 1, oq.NAMES[(i * 2) % 6], oq.XS[i % 5], oq.NAMES[(i + 3) % 6]] for i in range(n_par)]
    children, grand = [], []
    for p in parents:
        for k in range((p[0] * 2) % 4):  # 2,0,2,0.. -> some parents have no children
            children.append([len(children) + 1, p[0], oq.NAMES[(len(children) + 1) % 6], oq.XS[len(children) % 5], "n"])
    children.append([len(children) + 1, None, "a", 1, None])  # orphan
    for c in children:
        for k in range(1 + c[0] % 3):  # every child has >= 1 grandchild
            grand.append([len(grand) + 1, c[0], oq.NAMES[len(grand) % 6], oq.XS[(len(grand) + 2) % 5]])
    grand.append([len(grand) + 1, None, "b", None])
    tags = [[1, "a"], [2, None], [3, "b"], [4, "a"]]  # tag 4 has no parents
    pt = [[p[0], t[0]] for p in parents for t in tags[:3] if (p[0] + t[0]) % 3 != 0]
    nodes = [[1, None, "a", 1], [2, 1, "b", 0], [3, 1, None, 2], [4, 2, "a", None], [5, 4, "ab", 1], [6, None, "", -1], [7, 6, "a", 1]]
    return {"parent": parents, "child": children, "grandchild": grand, "tag": tags, "parent_tag": pt, "node": nodes}


_SHAPES = {
    "plain": {"join": None, "where": None, "distinct": False, "order": [], "limit": None, "offset": None},
    "window": {"join": None, "where": None, "distinct": False, "order": [["r", 1, True]], "limit": 2, "offset": 1},
    "offset": {"join": None, "where": None, "distinct": False, "order": [["r", 2, False]], "limit": None, "offset": 2},
    "distinct-join": {"join": [0, False], "where": ["not", ["isnull", "j", "id", False]], "distinct": True, "order": [["r", 2, False]], "limit": 3, "offset": None},
    "outerjoin-dups": {"join": [0, True], "where": None, "distinct": False, "order": [], "limit": 4, "offset": None},
}


def _pair_cases(tier):
    for root in ROOTS:
        for p in PATHS[root]:
            if len(p) != 2:
                continue
            for shape in sorted(_SHAPES):
                if tier == "quick" and shape == "plain":
                    continue  # quick: the four windowed shapes; thorough: all five
                for s1 in range(len(STRATS)):
                    yield {"root": root, "path": [list(x) for x in p], "shape": shape, "s1": s1}


def check_pairs(case, ctx):
    root = case["root"]
    paths = PATHS[root]
    p2 = tuple(tuple(x) for x in case["path"])
    i1, i2 = paths.index(p2[:1]), paths.index(p2)
    q = dict(_SHAPES[case["shape"]], root=root)
    if q["join"] is not None:  # join along the first step of the path under test
        q["join"] = [JOINS[root].index(p2[0][1]), q["join"][1]]
    assignments = []
    for s2 in range(len(STRATS)):
        s = [0] * len(paths)
        s[i1], s[i2] = case["s1"], s2
        assignments.append({"s": s, "co": [], "uq": False, "yp": 0, "chunk": 0, "legacy": False, "incr": False})
    data = _fixed_data()
    # make innerjoin legal on this path for half of the shapes: a total variant of the data
    if case["shape"] in ("plain", "window"):
        data = _total_data()
    judge(case, ctx, data, q, assignments)


def _total_data():
    parents = [[i + 1, oq.NAMES[(i * 2 + 1) % 6], oq.XS[i % 5], None] for i in range(4)]
    children = [[i + 1, (i % 4) + 1, oq.NAMES[i % 6], oq.XS[(i + 1) % 5], "n"] for i in range(7)]
    grand = [[i + 1, (i % 7) + 1, oq.NAMES[(i + 2) % 6], oq.XS[i % 5]] for i in range(10)]
    tags = [[1, "a"], [2, "b"]]
    pt = [[p[0], 1 + (p[0] % 2)] for p in parents] + [[1, 1]]
    nodes = [[1, 2, "a", 1], [2, 1, "b", 0], [3, 3, None, 2], [4, 2, "a", None]]  # every node has a parent and a child (cycles)
    pt = sorted({tuple(x) for x in pt})
    return {"parent": parents, "child": children, "grandchild": grand, "tag": tags, "parent_tag": [list(x) for x in pt], "node": nodes}


# ------------------------------------------------------------------ enumerated: selectin key-chunk boundary (>500 keys)
def _chunk_cases(tier):
    for n in ((500, 501, 1001) if tier == "quick" else (499, 500, 501, 1000, 1001)):
        for rel in ("Parent.children", "Child.parent", "Parent.tags", "Node.children"):
            yield {"n": n, "rel": rel}


def check_chunk(case, ctx):
    n = case["n"]
    rel = case["rel"]
    if rel == "Parent.children":
        # n parents, child k belongs to parent (k*7 % n)+1; last parent has a child so that the last chunk matters
        parents = [[i + 1, "a", i % 3, None] for i in range(n)]
        children = [[k + 1, (k * 7 % n) + 1, "b", k % 2, None] for k in range(n + 3)]
        children.append([len(children) + 1, n, "ab", 0, None])
        data = {"parent": parents, "child": children, "grandchild": [], "tag": [], "parent_tag": [], "node": []}
        root, s = "Parent", {"children": "selectin"}
    elif rel == "Child.parent":
        # n children each pointing at a distinct parent: n distinct keys in the many-to-one IN list
        parents = [[i + 1, "a", i % 3, None] for i in range(n)]
        children = [[k + 1, n - k, "b", k % 2, None] for k in range(n)]
        data = {"parent": parents, "child": children, "grandchild": [], "tag": [], "parent_tag": [], "node": []}
        root, s = "Child", {"parent": "selectin"}
    elif rel == "Parent.tags":
        parents = [[i + 1, "a", i % 3, None] for i in range(n)]
        nt = max(n // 10, 1)  # ~10 parents per tag keeps the depth-2 snapshot small
        tags = [[j + 1, oq.NAMES[j % 6]] for j in range(nt)]
        pt = [[i + 1, 1 + (i % nt)] for i in range(n)] + [[n, 1 + ((n + 1) % nt)]]
        pt = [list(x) for x in sorted({tuple(x) for x in pt})]
        data = {"parent": parents, "child": [], "grandchild": [], "tag": tags, "parent_tag": pt, "node": []}
        root, s = "Parent", {"tags": "selectin"}
    else:
        nodes = [[i + 1, (i // 2) if i else None, "a", i % 3] for i in range(n)]
        data = {"parent": [], "child": [], "grandchild": [], "tag": [], "parent_tag": [], "node": nodes}
        root, s = "Node", {"children": "selectin"}
    paths = PATHS[root]
    assert paths[0][0][1] in s or paths[1][0][1] in s
    sl = [STRATS.index("selectin")] * len(paths)  # every path selectin: chained IN loads, no per-object lazy loads
    q = {"root": root, "join": None, "where": None, "distinct": False, "order": [], "limit": None, "offset": None}
    co = [[i, "undefer", [0]] for i in range(-1, len(paths))]  # no per-object deferred-column loads
    assignments = [
        {"s": sl, "co": co, "uq": False, "yp": 0, "chunk": 0, "legacy": False, "incr": False},
        {"s": sl, "co": co, "uq": False, "yp": 0, "chunk": 0, "legacy": True, "incr": False},
    ]
    judge(case, ctx, data, q, assignments, force_nontrivial=True)


def subs(tier):
    from checks import _c40_shapes as sh

    return [
        Generated("shapes", sh.check_shapes, strategy=sh.cases(), quick=400, thorough=8000, budget_s_quick=9.0),
        Generated("gen", check_gen, strategy=_cases(), quick=560, thorough=12000, budget_s_quick=17.0),
        Enumerated("pairs", check_pairs, cases=_pair_cases),
        Enumerated("chunk", check_chunk, cases=_chunk_cases),
    ]
