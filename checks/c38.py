"""C38 - instrumented collections behave exactly like the Python types they wrap.

Every op of a generated program is applied to a relationship collection on a
transient Parent and to a plain list/set/dict holding the same Child objects:
same contents (order for list/dict), same return value (by identity), same
exception type; append/remove events account exactly for the change.
"""
from __future__ import annotations

import itertools
from collections import Counter

from hypothesis import strategies as st

from vf.api import Enumerated, Generated, Violation

PROPERTY = "C38"
LEVEL = "exploration"
RULE = (
    "list_exh: every (length 0-3 [thorough 0-4], slice start/stop in {None,-(n+2)..n+2}, step in {None,-3..3 incl 0}, rhs length 0-3 incl. generator / "
    "self / non-iterable) slice assignment and deletion; list/set/dict: generated op programs (<=25 ops) over every mutating and reading method with "
    "indices in -(n+2)..n+2, iterables (list, tuple, generator, self, other instrumented collection), in-place operators. Non-trivial: op uses a "
    "negative/out-of-range index, a stepped or reversed slice, an in-place operator or the collection itself as argument; distinct = canonical JSON"
)
ASSUMPTIONS = [
    "collections live on a transient parent (no Session): instrumentation and events are identical, no DB needed",
    "keyed-dict programs only store a child under its own key (documented requirement of attribute_keyed_dict)",
    "whole-collection replacement (parent.children = [...]) is not a list/set/dict operation: events are compared as member sets there (the remove listener is reached twice per removed member through the backref echo)",
    "the backref relation (child.parent is parent <=> child in collection) is asserted only while the list never held a duplicate member",
    "listed known findings (list.remove(absent) fires the event first; list *= n un-instrumented; set.update/difference_update/... accept one argument only; "
    "dict |= un-instrumented) are excluded from generation and pinned as replays",
]

N_ITEMS = 6
_built = {}


def _family():
    """mapped classes, built once per process"""
    if _built:
        return _built
    from sqlalchemy import Column, ForeignKey, Integer, String
    from sqlalchemy.orm import attribute_keyed_dict, registry, relationship

    reg = registry()
    Base = reg.generate_base()

    class PL(Base):
        __tablename__ = "pl"
        id = Column(Integer, primary_key=True)
        children = relationship("CL", back_populates="parent")

    class CL(Base):
        __tablename__ = "cl"
        id = Column(Integer, primary_key=True)
        pid = Column(ForeignKey("pl.id"))
        key = Column(String)
        parent = relationship("PL", back_populates="children")

    class PS(Base):
        __tablename__ = "ps"
        id = Column(Integer, primary_key=True)
        children = relationship("CS", back_populates="parent", collection_class=set)

    class CS(Base):
        __tablename__ = "cs"
        id = Column(Integer, primary_key=True)
        pid = Column(ForeignKey("ps.id"))
        key = Column(String)
        parent = relationship("PS", back_populates="children")

    class PD(Base):
        __tablename__ = "pd"
        id = Column(Integer, primary_key=True)
        children = relationship("CD", back_populates="parent", collection_class=attribute_keyed_dict("key"))

    class CD(Base):
        __tablename__ = "cd"
        id = Column(Integer, primary_key=True)
        pid = Column(ForeignKey("pd.id"))
        key = Column(String)
        parent = relationship("PD", back_populates="children")

    reg.configure()
    _built.update(list=(PL, CL), set=(PS, CS), dict=(PD, CD))
    return _built


class _Rec:
    def __init__(self, P):
        from sqlalchemy import event

        self.ev = []
        event.listen(P.children, "append", self._a)
        event.listen(P.children, "remove", self._r)
        event.listen(P.children, "bulk_replace", self._b)
        self.P = P

    def _a(self, target, value, initiator):
        self.ev.append(("append", id(target), value))

    def _r(self, target, value, initiator):
        self.ev.append(("remove", id(target), value))

    def _b(self, target, values, initiator):
        self.ev.append(("bulk_replace", id(target), None))

    def close(self):
        from sqlalchemy import event

        event.remove(self.P.children, "append", self._a)
        event.remove(self.P.children, "remove", self._r)
        event.remove(self.P.children, "bulk_replace", self._b)


_recs = {}


def _setup(kind):
    P, C = _family()[kind]
    if kind not in _recs:
        _recs[kind] = _Rec(P)
    rec = _recs[kind]
    del rec.ev[:]
    p = P()
    other = P()
    items = [C(key=f"k{i}") for i in range(N_ITEMS)]
    return p, other, items, rec


def _idx(items, x):
    for i, it in enumerate(items):
        if it is x:
            return i
    return repr(x)


def _call(fn):
    try:
        return ("ret", fn())
    except (IndexError, KeyError, ValueError, TypeError, AttributeError) as e:
        return ("exc", type(e).__name__)


def _cmp_result(kind, op, real, model, items, where):
    if real[0] != model[0]:
        raise Violation(f"C38/{kind}/{op}/exception", f"{where}: collection -> {real}, builtin -> {model}", observed=str(real), expected=str(model))
    if real[0] == "exc":
        if real[1] != model[1]:
            raise Violation(f"C38/{kind}/{op}/exception-type", f"{where}: collection raised {real[1]}, builtin raised {model[1]}", observed=real[1], expected=model[1])
        return
    r, m = real[1], model[1]
    if isinstance(m, (list, tuple)) and isinstance(r, (list, tuple)):
        same = len(r) == len(m) and all(a is b or a == b for a, b in zip(r, m))
    elif isinstance(m, (set, frozenset)) and isinstance(r, (set, frozenset)):
        same = {id(x) for x in r} == {id(x) for x in m}
    elif isinstance(m, dict) and isinstance(r, dict):
        same = list(r.items()) == list(m.items())
    else:
        same = (r is m) or (type(r) is type(m) and r == m) or (isinstance(m, (int, bool, str, type(None))) and r == m)
    if not same:
        raise Violation(f"C38/{kind}/{op}/return", f"{where}: collection returned {r!r}, builtin returned {m!r}", observed=repr(r), expected=repr(m))


def _check_events(kind, op, rec, p, before, after, where, strict=True):
    app = Counter(id(v) for k, t, v in rec.ev if k == "append" and t == id(p))
    rem = Counter(id(v) for k, t, v in rec.ev if k == "remove" and t == id(p))
    if op == "replace":
        # whole-collection replacement through the attribute is not a list/set/dict operation: with a bidirectional
        # relationship the remove listener is additionally reached through the backref echo (observed: twice per
        # removed member), so only the set of members is compared for it
        app = Counter(set(app))
        rem = Counter(set(rem))
    b, a = Counter(id(x) for x in before), Counter(id(x) for x in after)
    if op == "replace":
        b, a = Counter(set(b)), Counter(set(a))
    net = Counter(a)
    net.subtract(b)
    got = Counter(app)
    got.subtract(rem)
    net = {k: v for k, v in net.items() if v}
    got = {k: v for k, v in got.items() if v}
    if net != got:
        raise Violation(f"C38/{kind}/{op}/events", f"{where}: append-remove events {len(app)}/{len(rem)} do not account for the change "
                        f"(net change {sorted(net.values())}, events net {sorted(got.values())})", observed=str(sorted(got.values())), expected=str(sorted(net.values())))
    del rec.ev[:]


# ------------------------------------------------------------------------------------ list
def _mk_rhs(spec, items, coll):
    kind, idxs = spec
    objs = [items[i % N_ITEMS] for i in idxs]
    if kind == "list":
        return objs
    if kind == "tuple":
        return tuple(objs)
    if kind == "gen":
        return (o for o in objs)
    if kind == "self":
        return coll
    if kind == "int":
        return 5
    raise ValueError(kind)


def _sl(v):
    return slice(*v)


LIST_KNOWN_EXCLUDED = ("imul", "remove_absent")


def _list_op(op, coll, items, other_coll):
    """returns a thunk applying op to coll (works for plain list and instrumented list alike)"""
    name = op[0]
    it = lambda i: items[i % N_ITEMS]  # noqa
    if name == "append":
        return lambda: coll.append(it(op[1]))
    if name == "insert":
        return lambda: coll.insert(op[1], it(op[2]))
    if name == "remove":
        return lambda: coll.remove(it(op[1]))
    if name == "pop":
        return (lambda: coll.pop()) if op[1] is None else (lambda: coll.pop(op[1]))
    if name == "setitem":
        return lambda: coll.__setitem__(op[1], it(op[2]))
    if name == "delitem":
        return lambda: coll.__delitem__(op[1])
    if name == "setslice":
        return lambda: coll.__setitem__(_sl(op[1]), _mk_rhs(op[2], items, coll))
    if name == "delslice":
        return lambda: coll.__delitem__(_sl(op[1]))
    if name == "extend":
        return lambda: coll.extend(_mk_rhs(op[1], items, coll))
    if name == "iadd":
        def f():
            c = coll
            c += _mk_rhs(op[1], items, coll)
            return c is coll
        return f
    if name == "imul":
        def f():
            c = coll
            c *= op[1]
            return c is coll
        return f
    if name == "clear":
        return lambda: coll.clear()
    if name == "reverse":
        return lambda: coll.reverse()
    if name == "sort":
        return lambda: coll.sort(key=lambda c: c.key, reverse=bool(op[1]))
    if name == "index":
        return lambda: coll.index(it(op[1]))
    if name == "count":
        return lambda: coll.count(it(op[1]))
    if name == "contains":
        return lambda: it(op[1]) in coll
    if name == "len":
        return lambda: len(coll)
    if name == "getitem":
        return lambda: coll[op[1]]
    if name == "getslice":
        return lambda: coll[_sl(op[1])]
    if name == "copy":
        return lambda: list(coll.copy())
    if name == "iter":
        return lambda: list(iter(coll))
    if name == "mul":
        return lambda: coll * 2
    if name == "add":
        return lambda: coll + [it(0)]
    if name == "replace":  # whole-collection replacement through the attribute
        raise ValueError
    raise ValueError(name)


def _nontrivial_list_op(op, n):
    name = op[0]
    if name in ("setslice", "delslice", "getslice"):
        s = op[1]
        if any(v is not None and (v < 0 or v > n) for v in s[:2]) or s[2] not in (None, 1):
            return True
    if name in ("setslice", "extend", "iadd") and op[-1][0] in ("self", "gen"):
        return True
    if name in ("insert", "pop", "setitem", "delitem", "getitem") and op[1] is not None and (op[1] < 0 or op[1] >= n):
        return True
    return name in ("iadd", "imul")


def check_list(case, ctx):
    p, other, items, rec = _setup("list")
    init = [items[i % N_ITEMS] for i in case["init"]]
    p.children = list(init)
    model = list(init)
    del rec.ev[:]
    dup_seen = len(set(map(id, model))) != len(model)
    nt = False
    classes = set()
    pinned = case.get("pinned", False)
    for step, op in enumerate(case["ops"]):
        op = list(op)
        name = op[0]
        if name == "replace":
            new = [items[i % N_ITEMS] for i in op[1]]
            before = list(model)
            p.children = list(new)
            model = list(new)
            real = mres = ("ret", None)
            nt = True
        else:
            if name == "remove" and not any(x is items[op[1] % N_ITEMS] for x in model) and not pinned:
                ctx.exclude("list.remove(absent) fires the remove event before raising (known finding)")
                continue
            if name == "imul" and not pinned:
                ctx.exclude("list *= n is not instrumented (known finding)")
                continue
            before = list(model)
            nt = nt or _nontrivial_list_op(op, len(model))
            real = _call(_list_op(op, p.children, items, other.children))
            mres = _call(_list_op(op, model, items, None))
        classes.add(name)
        where = f"step {step} {op} on list of {[_idx(items, x) for x in before]}"
        real_l = list(p.children)
        if not (len(real_l) == len(model) and all(a is b for a, b in zip(real_l, model))):
            sig = f"C38/list/{name}/contents"
            if name == "imul":
                sig = "C38/list.__imul__/not-instrumented"
            raise Violation(sig, f"{where}: collection {[_idx(items, x) for x in real_l]} != builtin {[_idx(items, x) for x in model]}",
                            observed=[_idx(items, x) for x in real_l], expected=[_idx(items, x) for x in model])
        _cmp_result("list", name, real, mres, items, where)
        try:
            _check_events("list", name, rec, p, before, model, where)
        except Violation as v:
            if name == "remove" and mres[0] == "exc":
                raise Violation("C38/list.remove-absent/event-before-error", v.message)
            if name == "imul":
                raise Violation("C38/list.__imul__/not-instrumented", v.message)
            raise
        dup_seen = dup_seen or len(set(map(id, model))) != len(model)
        if not dup_seen:
            for i, c in enumerate(items):
                inside = any(x is c for x in model)
                if (c.parent is p) != inside:
                    raise Violation(f"C38/list/{name}/backref", f"{where}: item {i} in collection={inside} but item.parent is parent={c.parent is p}")
    ctx.note(case, nt, classes=classes)


_ix = st.integers(-(N_ITEMS + 2), N_ITEMS + 2)
_item = st.integers(0, N_ITEMS - 1)
_slv = st.one_of(st.none(), st.integers(-6, 6))
_slice = st.tuples(_slv, _slv, st.one_of(st.none(), st.integers(-3, 3)))
_rhs = st.tuples(st.sampled_from(["list", "list", "tuple", "gen", "self", "int"]), st.lists(_item, max_size=4))


@st.composite
def _list_programs(draw):
    ops = []
    for _ in range(draw(st.integers(1, 25))):
        name = draw(st.sampled_from(["append", "insert", "remove", "pop", "setitem", "delitem", "setslice", "setslice", "delslice", "extend", "iadd",
                                     "clear", "reverse", "sort", "index", "count", "contains", "len", "getitem", "getslice", "copy", "iter", "mul", "add", "replace"]))
        if name in ("append", "remove", "index", "count", "contains"):
            ops.append([name, draw(_item)])
        elif name == "insert":
            ops.append([name, draw(_ix), draw(_item)])
        elif name == "pop":
            ops.append([name, draw(st.one_of(st.none(), _ix))])
        elif name == "setitem":
            ops.append([name, draw(_ix), draw(_item)])
        elif name in ("delitem", "getitem"):
            ops.append([name, draw(_ix)])
        elif name == "setslice":
            ops.append([name, list(draw(_slice)), list(draw(_rhs))])
        elif name in ("delslice", "getslice"):
            ops.append([name, list(draw(_slice))])
        elif name in ("extend", "iadd"):
            ops.append([name, list(draw(_rhs))])
        elif name == "sort":
            ops.append([name, draw(st.integers(0, 1))])
        elif name == "replace":
            ops.append([name, draw(st.lists(_item, max_size=4, unique=True))])
        else:
            ops.append([name])
    return {"init": draw(st.lists(_item, max_size=5, unique=draw(st.booleans()))), "ops": ops}


def _list_exh_cases(tier):
    maxn = 3 if tier == "quick" else 4
    for n in range(0, maxn + 1):
        vals = [None] + list(range(-(n + 2), n + 3))
        steps = [None, -3, -2, -1, 0, 1, 2, 3]
        for start in vals:
            for stop in vals:
                for stp in steps:
                    yield {"init": list(range(n)), "ops": [["delslice", [start, stop, stp]]]}
                    for rl in range(0, 4):
                        yield {"init": list(range(n)), "ops": [["setslice", [start, stop, stp], ["list", [4, 5, 4][:rl] if rl < 3 else [4, 5, 3]]]]}
                    yield {"init": list(range(n)), "ops": [["setslice", [start, stop, stp], ["gen", [4, 5]]]]}
                    yield {"init": list(range(n)), "ops": [["setslice", [start, stop, stp], ["self", []]]]}
                    yield {"init": list(range(n)), "ops": [["setslice", [start, stop, stp], ["int", []]]]}


# ------------------------------------------------------------------------------------ set
SET_MUT_ITER = ["update", "difference_update", "intersection_update", "symmetric_difference_update"]
SET_IOPS = ["ior", "iand", "isub", "ixor"]
SET_READ = ["union", "intersection", "difference", "symmetric_difference", "issubset", "issuperset", "isdisjoint"]


def _set_arg(spec, items, coll, other_coll):
    kind, idxs = spec
    objs = [items[i % N_ITEMS] for i in idxs]
    if kind == "set":
        return set(objs)
    if kind == "frozenset":
        return frozenset(objs)
    if kind == "list":
        return list(objs)
    if kind == "gen":
        return (o for o in objs)
    if kind == "self":
        return coll
    if kind == "instrumented":
        return other_coll
    raise ValueError(kind)


def _set_op(op, coll, items, other_coll, is_model):
    import operator as o

    name = op[0]
    it = lambda i: items[i % N_ITEMS]  # noqa
    if name == "add":
        return lambda: coll.add(it(op[1]))
    if name == "remove":
        return lambda: coll.remove(it(op[1]))
    if name == "discard":
        return lambda: coll.discard(it(op[1]))
    if name == "pop":
        return lambda: coll.pop()
    if name == "clear":
        return lambda: coll.clear()
    if name in SET_MUT_ITER or name in SET_READ:
        return lambda: getattr(coll, name)(_set_arg(op[1], items, coll, other_coll))
    if name == "update_multi":  # set.update(*others) takes any number of arguments
        return lambda: coll.update(_set_arg(["list", op[1]], items, coll, other_coll), _set_arg(["list", op[2]], items, coll, other_coll))
    if name in SET_IOPS:
        f = {"ior": o.ior, "iand": o.iand, "isub": o.isub, "ixor": o.ixor}[name]

        def g():
            c = coll
            r = f(c, _set_arg(op[1], items, coll, other_coll))
            return r is coll
        return g
    if name in ("or", "and", "sub", "xor", "le", "ge", "eq"):
        f = {"or": o.or_, "and": o.and_, "sub": o.sub, "xor": o.xor, "le": o.le, "ge": o.ge, "eq": o.eq}[name]
        return lambda: f(coll, _set_arg(op[1], items, coll, other_coll))
    if name == "contains":
        return lambda: it(op[1]) in coll
    if name == "len":
        return lambda: len(coll)
    if name == "copy":
        return lambda: set(coll.copy())
    raise ValueError(name)


def check_set(case, ctx):
    p, other, items, rec = _setup("set")
    init = [items[i % N_ITEMS] for i in case["init"]]
    oinit = [items[i % N_ITEMS] for i in case["other"] if items[i % N_ITEMS] not in init]
    p.children = set(init)
    other.children = set(oinit)
    omodel = set(oinit)
    model = set(init)
    del rec.ev[:]
    nt = False
    classes = set()
    for step, op in enumerate(case["ops"]):
        op = list(op)
        name = op[0]
        classes.add(name)
        before = set(model)
        where = f"step {step} {op} on set of {sorted(_idx(items, x) for x in before)}"
        if name == "replace":
            new = {items[i % N_ITEMS] for i in op[1]} - omodel
            p.children = set(new)
            model = set(new)
            real = mres = ("ret", None)
        elif name == "pop":
            real = _call(lambda: p.children.pop())
            if real[0] == "ret":
                if real[1] not in model:
                    raise Violation("C38/set/pop/not-a-member", f"{where}: popped {real[1]!r}")
                model.remove(real[1])
                mres = real
            else:
                mres = _call(lambda: model.pop())
        else:
            if len(op) > 1 and isinstance(op[1], list) and name != "update_multi":
                spec = op[1]
                if name in SET_IOPS + ["or", "and", "sub", "xor", "le", "ge"] and spec[0] in ("list", "gen"):
                    spec[0] = "set"
                # moving a child that belongs to the other parent mutates the other collection through the backref;
                # keep the argument collections disjoint from the other parent unless it is the argument itself
                if spec[0] != "instrumented":
                    spec[1] = [i for i in spec[1] if items[i % N_ITEMS] not in omodel]
                if spec[0] in ("self", "gen", "instrumented") or name in SET_IOPS:
                    nt = True
            real = _call(_set_op(op, p.children, items, other.children, False))
            if name in SET_IOPS + SET_MUT_ITER and len(op) > 1 and op[1][0] == "instrumented":
                marg = set(omodel)
                op2 = [name, ["set", [_idx(items, x) for x in marg]]]
                mres = _call(_set_op(op2, model, items, None, True))
            else:
                mres = _call(_set_op(op, model, items, omodel, True))
        # children that are now in this parent's collection have left the other parent (backref)
        omodel = {x for x in omodel if x not in model}
        if {id(x) for x in other.children} != {id(x) for x in omodel}:
            raise Violation(f"C38/set/{name}/other-parent", f"{where}: other parent's collection {sorted(_idx(items, x) for x in other.children)} != model {sorted(_idx(items, x) for x in omodel)}")
        real_s = set(p.children)
        if {id(x) for x in real_s} != {id(x) for x in model}:
            raise Violation("C38/set.update/multiple-arguments" if name == "update_multi" else f"C38/set/{name}/contents", f"{where}: collection {sorted(_idx(items, x) for x in real_s)} != builtin {sorted(_idx(items, x) for x in model)}",
                            observed=sorted(_idx(items, x) for x in real_s), expected=sorted(_idx(items, x) for x in model))
        if name == "update_multi" and real != mres:
            raise Violation("C38/set.update/multiple-arguments", f"{where}: collection -> {real}, builtin -> {mres}")
        _cmp_result("set", name, real, mres, items, where)
        _check_events("set", name, rec, p, before, model, where)
        for i, c in enumerate(items):
            if (c.parent is p) != (c in model):
                raise Violation(f"C38/set/{name}/backref", f"{where}: item {i} in collection={c in model} but item.parent is parent={c.parent is p}")
    ctx.note(case, nt, classes=classes)


_sarg = st.tuples(st.sampled_from(["set", "frozenset", "list", "gen", "self", "instrumented"]), st.lists(_item, max_size=4))


@st.composite
def _set_programs(draw):
    ops = []
    for _ in range(draw(st.integers(1, 25))):
        name = draw(st.sampled_from(["add", "remove", "discard", "pop", "clear", "contains", "len", "copy", "replace"] + SET_MUT_ITER * 2 + SET_IOPS * 2 + SET_READ
                                    + ["or", "and", "sub", "xor", "le", "ge", "eq", "update_multi"]))
        if name == "update_multi":  # set.update(*others): repaired in /repo (4fe7f6e), generated again
            ops.append([name, draw(st.lists(_item, max_size=3)), draw(st.lists(_item, max_size=3))])
        elif name in ("add", "remove", "discard", "contains"):
            ops.append([name, draw(_item)])
        elif name in ("pop", "clear", "len", "copy"):
            ops.append([name])
        elif name == "replace":
            ops.append([name, draw(st.lists(_item, max_size=4))])
        else:
            ops.append([name, list(draw(_sarg))])
    return {"init": draw(st.lists(_item, max_size=5, unique=True)), "other": draw(st.lists(_item, max_size=3, unique=True)), "ops": ops}


# ------------------------------------------------------------------------------------ dict
def check_dict(case, ctx):
    p, other, items, rec = _setup("dict")
    key = lambda c: c.key  # noqa
    init = [items[i % N_ITEMS] for i in case["init"]]
    p.children = {c.key: c for c in init}
    model = {c.key: c for c in init}
    del rec.ev[:]
    nt = False
    classes = set()
    pinned = case.get("pinned", False)
    for step, op in enumerate(case["ops"]):
        name = op[0]
        classes.add(name)
        before = list(model.values())
        where = f"step {step} {op} on dict with keys {list(model)}"
        it = lambda i: items[i % N_ITEMS]  # noqa
        k = lambda i: f"k{i % N_ITEMS}"  # noqa

        def thunk(d):
            if name == "setitem":
                return lambda: d.__setitem__(k(op[1]), it(op[1]))
            if name == "delitem":
                return lambda: d.__delitem__(k(op[1]))
            if name == "pop":
                return (lambda: d.pop(k(op[1]))) if not op[2] else (lambda: d.pop(k(op[1]), "dflt"))
            if name == "pop_member_default":  # the default is itself a member object (possibly the one stored under the key)
                return lambda: d.pop(k(op[1]), it(op[2]))
            if name == "popitem":
                return lambda: d.popitem()
            if name == "setdefault":
                return lambda: d.setdefault(k(op[1]), it(op[1]))
            if name == "update_dict":
                return lambda: d.update({k(i): it(i) for i in op[1]})
            if name == "update_pairs":
                return lambda: d.update([(k(i), it(i)) for i in op[1]])
            if name == "update_kw":
                return lambda: d.update(**{k(i): it(i) for i in op[1]})
            if name == "ior":
                def f():
                    c = d
                    c |= {k(i): it(i) for i in op[1]}
                    return c is d
                return f
            if name == "clear":
                return lambda: d.clear()
            if name == "get":
                return lambda: d.get(k(op[1]))
            if name == "getitem":
                return lambda: d[k(op[1])]
            if name == "contains":
                return lambda: k(op[1]) in d
            if name == "keys":
                return lambda: list(d.keys())
            if name == "items":
                return lambda: list(d.items())
            if name == "len":
                return lambda: len(d)
            if name == "copy":
                return lambda: dict(d.copy())
            if name == "or":
                return lambda: dict(d | {k(i): it(i) for i in op[1]})
            raise ValueError(name)

        if name == "ior" and not pinned:
            ctx.exclude("dict |= other is not instrumented (known finding)")
            continue
        if name in ("update_dict", "update_pairs", "update_kw", "ior", "setdefault", "popitem"):
            nt = True
        if name == "replace":
            new = {k(i): it(i) for i in op[1]}
            p.children = dict(new)
            model = dict(new)
            real = mres = ("ret", None)
        elif name == "set_method":
            real = _call(lambda: p.children.set(it(op[1])))
            model[k(op[1])] = it(op[1])
            mres = ("ret", None)
        elif name == "remove_method":
            if k(op[1]) not in model:
                continue
            real = _call(lambda: p.children.remove(it(op[1])))
            del model[k(op[1])]
            mres = ("ret", None)
        else:
            real = _call(thunk(p.children))
            mres = _call(thunk(model))
        rk, mk = list(p.children.items()), list(model.items())
        if not (len(rk) == len(mk) and all(a[0] == b[0] and a[1] is b[1] for a, b in zip(rk, mk))):
            sig = "C38/dict.__ior__/not-instrumented" if name == "ior" else f"C38/dict/{name}/contents"
            raise Violation(sig, f"{where}: collection keys {[a for a, _ in rk]} != builtin {[a for a, _ in mk]}", observed=[a for a, _ in rk], expected=[a for a, _ in mk])
        _cmp_result("dict", name, real, mres, items, where)
        try:
            _check_events("dict", name, rec, p, before, list(model.values()), where)
        except Violation as v:
            if name == "ior":
                raise Violation("C38/dict.__ior__/not-instrumented", v.message)
            raise
        for i, c in enumerate(items):
            inside = any(x is c for x in model.values())
            if (c.parent is p) != inside:
                sig = "C38/dict.__ior__/not-instrumented" if name == "ior" else f"C38/dict/{name}/backref"
                raise Violation(sig, f"{where}: item {i} in collection={inside} but item.parent is parent={c.parent is p}")
    ctx.note(case, nt, classes=classes)


@st.composite
def _dict_programs(draw):
    ops = []
    for _ in range(draw(st.integers(1, 25))):
        name = draw(st.sampled_from(["setitem", "delitem", "pop", "pop_member_default", "popitem", "setdefault", "update_dict", "update_pairs", "update_kw", "clear", "get", "getitem",
                                     "contains", "keys", "items", "len", "copy", "or", "replace", "set_method", "remove_method"]))
        if name in ("setitem", "delitem", "setdefault", "get", "getitem", "contains", "set_method", "remove_method"):
            ops.append([name, draw(_item)])
        elif name == "pop":
            ops.append([name, draw(_item), draw(st.booleans())])
        elif name == "pop_member_default":
            i = draw(_item)
            ops.append([name, i, draw(st.one_of(st.just(i), _item))])
        elif name in ("update_dict", "update_pairs", "update_kw", "or", "replace"):
            ops.append([name, draw(st.lists(_item, max_size=4))])
        else:
            ops.append([name])
    return {"init": draw(st.lists(_item, max_size=5, unique=True)), "ops": ops}


def subs(tier):
    return [
        Enumerated("list_exh", check_list, cases=_list_exh_cases),
        Generated("list", check_list, strategy=_list_programs(), quick=2500, thorough=150000),
        Generated("set", check_set, strategy=_set_programs(), quick=2500, thorough=150000),
        Generated("dict", check_dict, strategy=_dict_programs(), quick=2500, thorough=150000),
    ]
