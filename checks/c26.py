"""C26 - the pool recovers from any fault without leaking or reusing dead connections.

Single-threaded histories of checkout / use / checkin / invalidate (hard, soft) /
detach / GC-drop / pool.dispose / engine.dispose / virtual-clock advance over each
pool class x pre_ping x recycle x reset_on_return, run against vf.fakedb with a
**fault plan** (k-th call of connect / ping / rollback / commit / close / cursor /
execute raises a disconnect-classified or ordinary DBAPI error; k-th checkout
event raises DisconnectionError / InvalidatePoolError / an error; k-th reset
event raises).  Oracle = ledger invariants, not a transcription of the pool:

* a connection handed out is never one on which close() was attempted, a disconnect
  was raised, that was (soft-)invalidated, that is older than a pool-wide invalidation
  (failed pre-ping, InvalidatePoolError, Connection-level disconnect) or older than
  pool_recycle on the virtual clock; never one another live holder has; with pre_ping
  a re-used connection was pinged in that checkout;
* a checkout fails only when a fault was consumed in it (or the pool is at capacity ->
  TimeoutError); a disconnect-classified ping failure alone is transparent;
* surfaced errors are the injected ones (DBAPIError-wrapped through Engine.connect(),
  raw through raw_connection()); anything else raised inside the library is a crash;
* whenever no holder is left: QueuePool.checkedout()==0, idle <= pool_size; at the end,
  with faults disarmed, the pool still serves its full capacity, and after disposing
  every pool generation close() was attempted on every connection ever opened.
"""
from __future__ import annotations

import gc
import re

from hypothesis import strategies as st

from vf.api import Enumerated, Generated, Violation
from checks import _faults as F

PROPERTY = "C26"
LEVEL = "fault_enumeration"
RULE = (
    "random: config (pool class, size 1-2, overflow 0-1, pre_ping, recycle, reset_on_return, lifo, warm-up, listeners) x history (<=25 ops of "
    "co-conn/co-raw/use/write/commit/rollback/ci/invalidate hard|soft/detach/gc-drop/tick/pool.dispose/engine.dispose, holders by index) x fault plan "
    "(2-5 faults [site, k, kind] over connect/ping/rollback/commit/close/cursor/execute/ev_checkout/ev_reset, plus the targeted site discard = k-th return of a connection to a full QueuePool queue (or close of a detached one) with kinds BaseException-from-dbapi-close / raising close, close_detached or checkin listener). enum: fixed 11-op QueuePool history x "
    "4 configs x every single fault (site, k <= calls made in the fault-free run, kind) [thorough: + every pair of faults]. "
    "Non-trivial: >=2 injected faults actually fired at different sites, or a fault fired while another was being handled (same op), "
    "or (enum) the single fault fired; distinct = canonical JSON of (cfg, ops, plan)"
)
ASSUMPTIONS = [
    "single thread; StaticPool / SingletonThreadPool / AssertionPool are driven with at most one holder at a time (their documented use)",
    "a raw_connection() holder that sees a disconnect error calls .invalidate() on it, as the pooling docs require of raw DBAPI users; "
    "Connection holders rely on the Connection's own disconnect handling",
    "Pool.dispose() is only called when no connection is checked out; Engine.dispose() is called at any time for QueuePool/NullPool but only at quiescent points for "
    "StaticPool/SingletonThreadPool/AssertionPool (their dispose() closes the shared connection even while checked out); pools replaced by Engine.dispose() are kept and disposed at the end",
    "StaticPool is driven without disconnect-classified faults and soft invalidation (its docstring: invalidation / reconnect 'only partially supported ... may not yield good results')",
    "SingletonThreadPool: garbage is collected before Pool.dispose() (its dispose() clears _all_conns but not the thread-local record weakref, so a record kept alive by "
    "uncollected garbage of a failed checkout would be re-used untracked - GC-timing dependent, kept out to stay deterministic)",
    "BaseException from DBAPI close() and raising close / close_detached / checkin listeners are injected only at the discard-on-return site (overflow connection returned to a full queue, detached close) and as the only fault of that release; "
    "a connection whose close a raising listener vetoed is exempt from the leak / reuse rules; a raising checkin listener is a known finding (record never returned) excluded by construction and pinned",
    "known findings excluded by construction and pinned: (1) a fault in the first-connect initialisation / connect listener drops the new connection without close(), "
    "(2) a reset-on-return failure while closing a detached connection skips its close() "
    "(a third one, invalidate() of a detached connection never closing it, is repaired in /repo and generated again)",
    "a holder whose close() raised is dropped and garbage collected (the documented fallback path)",
    "vf.fakedb's ledger, the virtual clock (sqlalchemy.pool.base.time patched) and the ban rules in checks/_faults.py are trusted",
    "pool_timeout=0 so an exhausted QueuePool raises TimeoutError immediately instead of blocking",
]

SIG_CHECKIN = "C26/accounting/slot-lost-after-failed-checkin-listener"
_INJ = re.compile(r"injected (?:disconnect|error|base) at (\w+)#(\d+)")
SITES = ["connect", "ping", "rollback", "commit", "close", "cursor", "execute", "ev_checkout", "ev_reset", "discard"]
DISCARD_KINDS = ["base", "ev_close", "ev_close_detached", "ev_checkin"]
ONE_HOLDER = ("static", "singleton", "assertion")


def _pool_cls(name):
    from sqlalchemy import pool

    return {"queue": pool.QueuePool, "null": pool.NullPool, "static": pool.StaticPool, "singleton": pool.SingletonThreadPool, "assertion": pool.AssertionPool}[name]


class _Holder:
    __slots__ = ("kind", "obj", "cid", "state", "pool")

    def __init__(self, kind, obj, cid, pool):
        self.kind, self.obj, self.cid, self.state, self.pool = kind, obj, cid, "held", pool


class _Run:
    def __init__(self, case, ctx):
        import sqlalchemy as sa

        self.sa = sa
        self.case = case
        cfg = case["cfg"]
        self.cfg = cfg
        self.clock = F.VClock()
        self.db = F.ClockedDB(self.clock)
        kw = dict(poolclass=_pool_cls(cfg["pool"]), pool_pre_ping=cfg["pre_ping"], pool_recycle=cfg["recycle"], pool_reset_on_return=cfg["reset"])
        if cfg["pool"] == "queue":
            kw.update(pool_size=cfg["size"], max_overflow=cfg["overflow"], pool_timeout=0, pool_use_lifo=cfg["lifo"])
        elif cfg["pool"] == "singleton":
            kw.update(pool_size=cfg["size"])
        self.eng = self.db.engine(**kw)
        self.events = F.PoolEvents(self.eng, self.db, more=True) if cfg["events"] else None
        self.errs = (sa.exc.SQLAlchemyError, F.fakedb.Error, F.InjectedBaseException)
        self.pools = [self.eng.pool]
        self.holders = []
        self.bans = F.Bans(self.db)
        self.trace = []
        self.fired_sites = set()
        self.fired = 0
        self.nested_fault = False
        self.cls = set()
        self.errors = 0
        self.handed_out = set()
        self.excluded = []
        self.generation_banned = set()
        self.last_surfaced = None
        self.checkin_listener_failed = False
        self.discard_plan = {}
        self.discards = 0

    # ---- bookkeeping around one op
    def begin_op(self):
        self.n_inj = len(self.db.injected)
        self.n_log = len(self.db.log)
        self.existing = {c.id for c in self.db.conns}
        self.t0 = self.clock.now

    def new_faults(self):
        return self.db.injected[self.n_inj :]

    def account_faults(self, ctxkind, raised=False):
        """update ban rules from the faults consumed by the op that just ran.
        ctxkind: 'checkout' | 'conn-op' | 'raw-op' | 'raw-release' | 'conn-release' | 'other'"""
        nf = self.new_faults()
        if len(nf) >= 2:
            self.nested_fault = True
        for cid, site, k, kind in nf:
            self.fired += 1
            self.fired_sites.add(site)
            self.cls.add(f"fired:{site}:{kind}")
            if site in ("ev_close", "ev_close_detached"):
                self.bans.exempt.add(cid)  # the listener raised before the DBAPI close(): the pool could not discard this connection
            if site == "ev_checkin":
                self.checkin_listener_failed = True
            if site == "ping" and kind == "disconnect":
                self.pool_wide(cid, "it is older than a failed pre-ping (pool-wide invalidation)")
            elif site == "ev_checkout" and kind == "disconnect_pool":
                self.pool_wide(cid, "it is older than an InvalidatePoolError raised on checkout")
            elif site == "ev_checkout" and kind == "disconnect":
                self.bans.ban(cid, "a checkout listener raised DisconnectionError for it")
            elif (ctxkind in ("conn-op", "conn-release") and raised and kind == "disconnect" and site in ("cursor", "execute", "commit", "rollback")
                  and self.last_surfaced == (site, k)):
                # a disconnect a Connection detects always surfaces from the op; close()/connect faults are the pool's business
                self.pool_wide(cid, "it is older than a disconnect detected by a Connection (pool-wide invalidation)")
            elif ctxkind == "raw-release" and site in ("rollback", "commit", "ev_reset"):
                self.bans.ban(cid, "its reset-on-return failed")

    def open_ids(self):
        """connections never closed, not counting those whose close a raising "close"/"close_detached" listener vetoed"""
        return [i for i in F.open_ids(self.db) if i not in self.bans.exempt]

    def pool_wide(self, cid, reason):
        """Pool._invalidate is generational (its docstring): a failure on a connection that already belongs to an
        invalidated generation says nothing new; a failure on a connection newer than the last pool-wide
        invalidation invalidates everything that exists at that moment"""
        if cid in self.generation_banned:
            self.cls.add("pool-wide-invalidation:stale-generation")
            return
        self.cls.add("pool-wide-invalidation")
        for i in self.existing:
            self.bans.ban(i, reason)
            self.generation_banned.add(i)

    def allowed(self):
        exc = self.sa.exc
        return (exc.TimeoutError, exc.PendingRollbackError, exc.ResourceClosedError, exc.InvalidRequestError)

    def surfaced(self, e, where):
        self.errors += 1
        exc = self.sa.exc
        m = _INJ.search(str(getattr(e, "orig", None) or e))
        self.last_surfaced = (m.group(1), int(m.group(2))) if m else None  # the fault the caller actually saw
        if isinstance(e, exc.StatementError) and not isinstance(e, exc.DBAPIError) and isinstance(e.orig, exc.TimeoutError):
            # transparent reconnect of an invalidated Connection found the pool exhausted
            cfg = self.cfg
            if cfg["pool"] != "queue" or len(self.slot_holders(self.eng.pool)) < cfg["size"] + cfg["overflow"]:
                raise Violation("C26/capacity/spurious-timeout", f"{where}: reconnect timed out with {len(self.slot_holders(self.eng.pool))} slot holders; trace={self.trace}")
            self.cls.add("err:TimeoutError-on-reconnect")
            return "TimeoutError"
        orig = e.orig if isinstance(e, exc.StatementError) and not isinstance(e, exc.DBAPIError) else e
        if type(orig) is exc.InvalidRequestError and "This connection is closed" in str(orig):
            # documented outcome of _checkout when both reconnect attempts were refused by checkout listeners
            n = sum(1 for _, site, _, kind in self.new_faults() if (site == "ev_checkout" and kind.startswith("disconnect")) or (site == "ping" and kind == "disconnect"))
            if n < 2:
                raise Violation("C26/recovery/gave-up-without-two-refusals", f"{where}: 'This connection is closed' after only {n} failed pings / checkout-listener disconnects; trace={self.trace}")
            self.cls.add("err:reconnect-attempts-exhausted")
            return "InvalidRequestError"
        label = F.classify_error("C26", e, f"{where}; trace={self.trace}", allow=self.allowed())
        self.cls.add("err:" + label)
        return label

    def slot_holders(self, pool=None):
        return [h for h in self.holders if h.state == "held" and (pool is None or h.pool is pool)]

    def cur_cid(self, h):
        try:
            if h.kind == "raw":
                c = h.obj.dbapi_connection
            else:
                if h.obj.closed or h.obj.invalidated:
                    return None
                c = h.obj.connection.dbapi_connection
            return None if c is None else c.id
        except self.sa.exc.SQLAlchemyError:
            return None

    def strip_for_detached(self, h, sites, only_disconnect):
        """known findings 2/3 concern DETACHED connections (reset failure / invalidation
        never close them): unless pinned, keep the triggering faults away from them"""
        if h.state != "detached" or self.case.get("pinned"):
            return
        if only_disconnect:
            return  # finding 3 (invalidation of a detached connection never closed it) is repaired in /repo: generated again
        dropped = 0
        for site in sites:
            if site == "ev_reset":
                if self.events is not None:
                    k = self.events.counts[site]
                    dropped += self.events.plan.pop((site, k), None) is not None
                continue
            for k in (self.db.counts[site], self.db.counts[site] + 1):
                if (site, k) in self.db.plan and (not only_disconnect or self.db.plan[(site, k)] == "disconnect"):
                    del self.db.plan[(site, k)]
                    dropped += 1
        if dropped:
            self.excluded.append("fault that would invalidate / fail the reset of a DETACHED connection (known findings: never closed)")

    def detached_leak_check(self, h, cid, what):
        if cid is None:
            return
        c = next(x for x in self.db.conns if x.id == cid)
        if not c.close_attempted:
            raise Violation(f"C26/leak/detached-connection-not-closed-{what}", f"detached connection {cid} ({what}): close() was never attempted on it; "
                            f"trace={self.trace}", observed=cid)

    # ---- checks on a connection that was just handed out
    def check_handed_out(self, h, cid, where):
        t = f"{where}; trace={self.trace}"
        self.handed_out.add(cid)
        self.bans.check_handed_out("C26", cid, t)
        for o in self.holders:
            if o is not h and o.state in ("held", "detached") and self.cur_cid(o) == cid:
                raise Violation("C26/reuse/held-by-another-holder", f"{t}: DBAPI connection {cid} handed out while another holder still has it", observed=cid)
        c = self.db.conns[cid] if cid < len(self.db.conns) and self.db.conns[cid].id == cid else next(x for x in self.db.conns if x.id == cid)
        old = cid in self.existing
        if old and self.cfg["recycle"] > 0 and self.t0 - c.opened_at > self.cfg["recycle"] + 1:
            raise Violation("C26/reuse/older-than-pool_recycle", f"{t}: connection {cid} aged {self.t0 - c.opened_at:.0f}s handed out with pool_recycle={self.cfg['recycle']}",
                            observed=self.t0 - c.opened_at, expected=f"<= {self.cfg['recycle']}")
        if old and self.cfg["pre_ping"] and (cid, "ping", None) not in self.db.log[self.n_log :]:
            raise Violation("C26/pre_ping/not-pinged", f"{t}: re-used connection {cid} handed out with pool_pre_ping but no ping in this checkout")
        if old:
            self.cls.add("reused-connection")

    # ---- ops
    def op_checkout(self, kind):
        cfg = self.cfg
        if cfg["pool"] in ONE_HOLDER and [h for h in self.holders if h.state != "gone"]:
            return
        pool = self.eng.pool
        at_capacity = cfg["pool"] == "queue" and len(self.slot_holders(pool)) >= cfg["size"] + cfg["overflow"]
        self.begin_op()
        try:
            obj = self.eng.connect() if kind == "conn" else self.eng.raw_connection()
        except self.errs as e:
            label = self.surfaced(e, f"checkout({kind})")
            nf = self.new_faults()
            self.account_faults("checkout")
            if at_capacity:
                if label != "TimeoutError":
                    raise Violation("C26/capacity/wrong-error", f"checkout at capacity raised {label}; trace={self.trace}")
                self.cls.add("timeout-at-capacity")
                return
            if label == "TimeoutError":
                raise Violation("C26/capacity/spurious-timeout", f"TimeoutError with {len(self.slot_holders(pool))} holders, capacity {cfg['size'] + cfg['overflow']}; "
                                f"checkedout()={pool.checkedout()}; trace={self.trace}", observed=pool.checkedout())
            if not nf:
                raise Violation("C26/recovery/checkout-fails-without-fault", f"checkout({kind}) raised {label} ({e}) although no fault fired in it; trace={self.trace}")
            if all(site == "ping" and k == "disconnect" for _, site, _, k in nf):
                raise Violation("C26/recovery/ping-disconnect-not-transparent", f"checkout({kind}) raised {label} although the only fault was a disconnect on pre-ping; trace={self.trace}")
            if kind == "conn" and not label.startswith(("wrapped:", "base:")) and label not in ("InvalidRequestError",):
                raise Violation("C26/error/not-wrapped", f"Engine.connect() surfaced {label}; trace={self.trace}")
            return
        if at_capacity:
            raise Violation("C26/capacity/exceeded", f"checkout succeeded with {len(self.slot_holders(pool))} holders, capacity {cfg['size'] + cfg['overflow']}; trace={self.trace}")
        h = _Holder(kind, obj, None, pool)
        h.cid = self.cur_cid(h)
        self.account_faults("checkout")
        self.holders.append(h)
        self.check_handed_out(h, h.cid, f"checkout({kind})")

    def pick(self, i, states=("held", "detached", "invalid")):
        hs = [h for h in self.holders if h.state in states]
        return hs[i % len(hs)] if hs else None

    def op_use(self, i, stmt):
        h = self.pick(i)
        if h is None or (h.kind == "raw" and h.state == "invalid"):
            return
        self.strip_for_detached(h, ("cursor", "execute"), True)
        was_detached = h.state == "detached"
        cid0 = self.cur_cid(h)
        self.begin_op()
        try:
            if h.kind == "raw":
                cur = h.obj.cursor()
                cur.execute(stmt)
                cur.close()
            else:
                h.obj.exec_driver_sql(stmt)
        except self.errs as e:
            label = self.surfaced(e, f"use({h.kind})")
            self.account_faults("conn-op" if h.kind == "conn" else "raw-op", raised=True)
            if h.kind == "raw" and isinstance(e, F.fakedb.DisconnectError):
                self.do_invalidate(h, False)  # what the docs require of raw users
            elif h.kind == "conn":
                self.after_conn_op(h, "use")
                if was_detached and h.obj.invalidated:
                    self.detached_leak_check(h, cid0, "on-invalidate")
                if label == "PendingRollbackError":
                    self.conn_call(h, "rollback")
            return
        self.account_faults("conn-op" if h.kind == "conn" else "raw-op")
        self.after_conn_op(h, "use")

    def sync_conn_state(self, h):
        if h.kind != "conn" or h.state == "detached":
            return
        if h.obj.closed:
            h.state = "gone"
        elif h.obj.invalidated:
            h.state = "invalid"

    def after_conn_op(self, h, where):
        """a Connection may have re-acquired a DBAPI connection transparently"""
        if h.kind != "conn":
            return
        cid = self.cur_cid(h)
        if cid is not None and cid != h.cid:
            self.cls.add("transparent-reconnect")
            if h.state == "invalid":
                h.state = "held"
                h.pool = self.eng.pool
            h.cid = cid
            self.check_handed_out(h, cid, f"{where} (reconnect)")
        self.sync_conn_state(h)

    def conn_call(self, h, m):
        self.strip_for_detached(h, ("commit", "rollback"), True)
        was_detached = h.state == "detached"
        cid0 = self.cur_cid(h)
        self.begin_op()
        try:
            getattr(h.obj, m)()
        except self.errs as e:
            self.surfaced(e, f"Connection.{m}")
            self.account_faults("conn-op", raised=True)
            self.after_conn_op(h, m)
            if was_detached and h.obj.invalidated:
                self.detached_leak_check(h, cid0, "on-invalidate")
            return False
        self.account_faults("conn-op")
        self.after_conn_op(h, m)
        return True

    def op_txn(self, i, m):
        h = self.pick(i)
        if h is None:
            return
        if h.kind == "conn":
            self.conn_call(h, m)
        elif h.state != "invalid":
            self.strip_for_detached(h, ("commit", "rollback"), True)
            self.begin_op()
            try:
                getattr(h.obj, m)()
            except self.errs as e:
                self.surfaced(e, f"raw.{m}")
                self.account_faults("raw-op")
                if isinstance(e, F.fakedb.DisconnectError):
                    self.do_invalidate(h, False)
                return
            self.account_faults("raw-op")

    def do_invalidate(self, h, soft):
        was_detached = h.state == "detached"
        self.begin_op()
        cid = self.cur_cid(h)
        try:
            if h.kind == "raw":
                if h.state == "invalid":
                    return
                h.obj.invalidate(soft=soft)
            elif soft:
                if h.obj.closed or h.obj.invalidated:
                    return
                h.obj.connection.invalidate(soft=True)
            else:
                if h.obj.closed:
                    return
                h.obj.invalidate()
        except self.errs as e:
            self.surfaced(e, "invalidate")
        self.account_faults("other")
        if cid is not None:
            self.bans.ban(cid, "it was soft-invalidated" if soft else "it was invalidated")
        if not soft and h.state == "held":
            h.state = "invalid"
        if not soft and h.state == "detached":
            h.state = "invalid"
            self.detached_leak_check(h, cid, "on-invalidate")
        self.cls.add("soft-invalidate" if soft else "hard-invalidate")

    def op_detach(self, i):
        h = self.pick(i, ("held",))
        if h is None:
            return
        if h.kind == "conn" and (h.obj.closed or h.obj.invalidated):
            return
        self.begin_op()
        try:
            h.obj.detach()
        except self.errs as e:
            self.surfaced(e, "detach")
        self.account_faults("other")
        h.state = "detached"
        self.cls.add("detach")

    def op_release(self, h, via_gc):
        self.begin_op()
        kind = h.kind
        failed = False
        was_detached = h.state == "detached"
        if was_detached:
            via_gc = False  # a detached connection is the caller's to close (pool docs); dropping it is the caller's leak
        det_cid = self.cur_cid(h) if was_detached else None
        self.strip_for_detached(h, ("rollback", "commit", "ev_reset"), False)
        self.arm_discard_fault(h)
        if not via_gc:
            try:
                h.obj.close()
            except self.errs as e:
                self.surfaced(e, f"close({kind})")
                failed = True
                self.cls.add("close-raised")
        if via_gc or failed:
            h.obj = None
            if kind == "conn":
                gc.collect()  # Connection <-> RootTransaction is a reference cycle; a raw fairy dies by refcount
            self.cls.add("gc-release")
        nf = self.new_faults()
        self.account_faults("raw-release" if kind == "raw" else "conn-release", raised=failed)
        h.state = "gone"
        h.obj = None
        if was_detached and det_cid is not None and any(f[1] in ("rollback", "commit", "ev_reset") for f in nf):
            c = next(x for x in self.db.conns if x.id == det_cid)
            if not c.close_attempted:
                raise Violation("C26/leak/detached-connection-not-closed-after-failed-reset", f"detached connection {det_cid}: {nf[0][1]}#{nf[0][2]} failed during its "
                                f"reset-on-return and close() was never attempted; trace={self.trace}", observed=det_cid)
        self.quiescent_check_if_idle()

    def arm_discard_fault(self, h):
        """fault site "discard": the release about to happen returns a connection to a FULL QueuePool queue, which discards it
        (QueuePool._do_return_conn -> record.close()), or closes a detached connection.  Kinds: "base" = the DBAPI close() raises a
        BaseException subclass (re-raised by Pool._close_connection); "ev_close" / "ev_checkin" / "ev_close_detached" = that pool
        listener raises an Exception."""
        if self.cfg["pool"] != "queue" or h.pool is not self.eng.pool or self.cur_cid(h) is None:
            return
        detached = h.state == "detached"
        if not detached and not (h.state == "held" and h.pool.checkedin() >= h.pool.size()):
            return
        n = self.discards
        self.discards += 1
        kind = self.discard_plan.get(n)
        if kind is None:
            return
        if detached != (kind == "ev_close_detached"):
            return
        self.cls.add("discard-on-return-fault:" + kind)
        # the discard-site fault is the only fault of this release: a reset failure would close the connection earlier (on the
        # invalidation path, not at the discard site) and consume the armed close fault there
        for site in ("rollback", "commit"):
            for k in (self.db.counts[site], self.db.counts[site] + 1):
                self.db.plan.pop((site, k), None)
        if self.events is not None:
            self.events.plan.pop(("ev_reset", self.events.counts["ev_reset"]), None)
        if kind == "base":
            self.db.plan[("close", self.db.counts["close"])] = "base"
        elif self.events is not None:
            self.events.plan[(kind, self.events.counts[kind])] = "error"

    def op_dispose(self, engine_level):
        if engine_level and self.cfg["pool"] in ONE_HOLDER and [h for h in self.holders if h.state != "gone"]:
            return  # these pools close their (shared) connection on dispose even while it is checked out
        self.begin_op()
        if engine_level:
            try:
                self.eng.dispose()
            except self.errs as e:
                self.surfaced(e, "engine.dispose")
            self.account_faults("other")
            if self.eng.pool is not self.pools[-1]:
                self.pools.append(self.eng.pool)
            self.cls.add("engine.dispose")
        else:
            if [h for h in self.holders if h.state != "gone"]:
                return
            if self.cfg["pool"] == "singleton":
                # SingletonThreadPool.dispose() forgets its records but keeps the thread-local weakref: a record kept
                # alive by uncollected garbage (failed checkout) would be re-used untracked.  GC-timing dependent ->
                # made deterministic here (reported as an observation, see ASSUMPTIONS)
                gc.collect()
            try:
                self.eng.pool.dispose()
            except self.errs as e:
                self.surfaced(e, "pool.dispose")
            self.account_faults("other")
            self.cls.add("pool.dispose")

    # ---- invariants
    def check_dropped_on_connect(self):
        """specific root cause: opened, a fault fired on it before it was ever handed out, never closed"""
        for c in self.db.conns:
            if not c.close_attempted and c.id not in self.handed_out:
                hit = [f for f in self.db.injected if f[0] == c.id]
                if hit:
                    calls = [s_ for i_, s_, _ in self.db.log if i_ == c.id]
                    first = calls.index(hit[0][1]) if hit[0][1] in calls else 0
                    if hit[0][1] in ("rollback", "commit", "cursor", "execute") and not any(x in ("ev_checkout", "ping") for x in calls[:first]):
                        raise Violation("C26/leak/dropped-after-failed-connect-listener", f"connection {c.id} was opened, {hit[0][1]}#{hit[0][2]} failed inside the connect-time "
                                        f"initialisation, and close() was never called on it; trace={self.trace}", observed=c.id)
                    raise Violation("C26/leak/failed-checkout-leaves-connection-open", f"connection {c.id}: {hit[0][1]}#{hit[0][2]} failed during checkout, it was never handed "
                                    f"out, and close() was never attempted on it; trace={self.trace}", observed=c.id)

    def quiescent_check_if_idle(self):
        if [h for h in self.holders if h.state != "gone"]:
            return
        self.cls.add("quiescent-point")
        t = f"trace={self.trace}"
        pool = self.eng.pool
        self.check_dropped_on_connect()
        if self.cfg["pool"] == "queue":
            if pool.checkedout() != 0 and self.checkin_listener_failed:
                raise Violation(SIG_CHECKIN, f"a \"checkin\" listener raised: the connection record was never given back to the pool; no holder left but "
                                f"checkedout()={pool.checkedout()} ({pool.status()}); {t}", observed=pool.checkedout(), expected=0)
            if pool.overflow() != pool.checkedin() - pool.size():
                raise Violation("C26/accounting/overflow-inconsistent", f"no holder left: overflow()={pool.overflow()} but checkedin()-size()={pool.checkedin() - pool.size()} "
                                f"({pool.status()}); {t}", observed=pool.overflow(), expected=pool.checkedin() - pool.size())
            if pool.checkedout() != 0:
                raise Violation("C26/accounting/checkedout-nonzero", f"no holder left but QueuePool.checkedout()={pool.checkedout()} ({pool.status()}); {t}",
                                observed=pool.checkedout(), expected=0)
            if len(self.pools) == 1:
                n_open = len(self.open_ids())
                if n_open > self.cfg["size"]:
                    raise Violation("C26/accounting/too-many-idle", f"no holder left, {n_open} connections still open > pool_size {self.cfg['size']}; {t}",
                                    observed=n_open, expected=f"<= {self.cfg['size']}")
        elif self.cfg["pool"] == "null":
            if self.open_ids():
                raise Violation("C26/leak/nullpool-keeps-connection", f"NullPool: no holder left but connections {self.open_ids()} never had close() attempted; {t}")

    def finish(self):
        # release every holder (faults still armed), innermost bookkeeping as for ops
        for h in list(self.holders):
            if h.state != "gone":
                self.trace.append("final-release")
                self.op_release(h, via_gc=False)
        self.holders = []
        self.quiescent_check_if_idle()
        # recovery: with faults disarmed the pool serves its full capacity again
        F.disarm(self.db, self.events)
        self.trace.append("recovery")
        cap = self.cfg["size"] + self.cfg["overflow"] if self.cfg["pool"] == "queue" else 1
        got = []
        try:
            for _ in range(cap):
                self.begin_op()
                c = self.eng.connect()
                got.append(c)
                cid = c.connection.dbapi_connection.id
                self.handed_out.add(cid)
                self.bans.check_handed_out("C26", cid, f"recovery checkout; trace={self.trace}")
                c.exec_driver_sql("select 1")
        except self.sa.exc.SQLAlchemyError as e:
            raise Violation(f"C26/recovery/{type(e).__name__}", f"with faults disarmed and no holders, checkout {len(got) + 1}/{cap} failed: {type(e).__name__}: {str(e)[:200]}; "
                            f"trace={self.trace}")
        finally:
            for c in got:
                c.close()
        self.quiescent_check_if_idle()
        # every pool generation disposed -> close() attempted on everything ever opened
        for p in self.pools:
            p.dispose()
        leaked = self.open_ids()
        if leaked:
            how = {i: [(s, d) for c, s, d in self.db.log if c == i][:6] for i in leaked}
            raise Violation("C26/leak/open-connection-after-dispose", f"connections {leaked} were opened by the pool, are held by nobody and survive dispose() of every pool; "
                            f"calls on them: {how}; trace={self.trace}", observed=leaked, expected=[])
        if self.db.use_after_close:
            bad = [x for x in self.db.use_after_close if x[1] not in ("close",)]
            if bad:
                raise Violation(f"C26/use-after-close/{bad[0][1]}", f"DBAPI call on a closed connection: {bad[:3]}; trace={self.trace}", observed=[list(map(str, b)) for b in bad[:3]])


def _short(op):
    return ".".join(str(x) for x in op)


def _run_case(case, ctx, enum=False):
    cfg = case["cfg"]
    if not cfg["warm"] and not case.get("pinned"):
        # known finding: a failure inside the first-connect initialisation (its do_rollback is
        # rollback#0 of a cold engine) drops the new DBAPI connection without close()
        kept = [f for f in case["plan"] if not (f[0] == "rollback" and f[1] == 0)]
        if len(kept) != len(case["plan"]):
            ctx.exclude("fault in the first-connect initialisation rollback (known finding: connection dropped without close())")
            case = dict(case, plan=kept)
    if not case.get("pinned"):
        kept = [f for f in case["plan"] if not (f[0] == "discard" and f[2] == "ev_checkin")]
        if len(kept) != len(case["plan"]):
            # known finding: a raising "checkin" listener makes _ConnectionRecord.checkin() skip pool._return_conn(): the slot is lost
            ctx.exclude("fault in a \"checkin\" listener (known finding: the record is never returned, pool slot lost)")
            case = dict(case, plan=kept)
    if cfg["pool"] == "static":
        # StaticPool documents invalidation / reconnect as "only partially supported ... may not yield good
        # results" (it replaces its record without closing the superseded connection): keep disconnects and
        # soft invalidation out of its domain
        kept = [f for f in case["plan"] if f[2] == "error"]
        ops = [op for op in case["ops"] if not (op[0] == "inv" and op[2])]
        if len(kept) != len(case["plan"]) or len(ops) != len(case["ops"]):
            ctx.info("staticpool: disconnect faults / soft invalidation dropped (documented as partially supported)")
            case = dict(case, plan=kept, ops=ops)
    run = _Run(case, ctx)
    try:
        with F.pool_clock(run.clock):
            if cfg["warm"]:
                c = run.eng.connect()
                c.close()
                run.handed_out.update(x.id for x in run.db.conns)
            F.arm(run.db, [f for f in case["plan"] if f[0] != "discard"], run.events)
            run.discard_plan = {f[1]: f[2] for f in case["plan"] if f[0] == "discard"}
            try:
                for op in case["ops"]:
                    run.trace.append(_short(op))
                    k = op[0]
                    if k == "co":
                        run.op_checkout(op[1])
                    elif k == "use":
                        run.op_use(op[1], "select 1")
                    elif k == "write":
                        run.op_use(op[1], "insert into t values (1)")
                    elif k == "txn":
                        run.op_txn(op[1], op[2])
                    elif k == "ci":
                        h = run.pick(op[1])
                        if h is not None:
                            run.op_release(h, via_gc=False)
                    elif k == "gc":
                        h = run.pick(op[1])
                        if h is not None:
                            run.op_release(h, via_gc=True)
                    elif k == "inv":
                        h = run.pick(op[1])
                        if h is not None:
                            run.do_invalidate(h, bool(op[2]))
                    elif k == "detach":
                        run.op_detach(op[1])
                    elif k == "tick":
                        run.clock.advance(op[1])
                        run.cls.add("tick")
                    elif k == "pdispose":
                        run.op_dispose(False)
                    elif k == "edispose":
                        run.op_dispose(True)
                    else:
                        raise ValueError(k)
                run.finish()
            finally:
                nontrivial = (len(run.fired_sites) >= 2) or run.nested_fault or (enum and run.fired >= 1)
                classes = set(run.cls)
                classes.add("pool:" + cfg["pool"])
                classes.add(f"faults-fired:{min(run.fired, 4)}")
                if run.nested_fault:
                    classes.add("fault-during-fault-handling")
                if nontrivial:
                    classes.add("NONTRIVIAL")
                ctx.note({"cfg": cfg, "ops": case["ops"], "plan": case["plan"]}, nontrivial, classes=sorted(classes))
                for r in run.excluded:
                    ctx.exclude(r)
    finally:
        run.holders = []
        F.disarm(run.db, run.events)
        try:
            for p in run.pools:
                p.dispose()
        except Exception:
            pass


def check_random(case, ctx):
    try:
        _run_case(case, ctx)
    except F.InjectedBaseException as e:  # must never leave the check: a BaseException would kill the worker process
        raise RuntimeError(f"harness: injected BaseException escaped the interpreter: {e}") from e


def check_enum(case, ctx):
    try:
        _run_case(case, ctx, enum=True)
    except F.InjectedBaseException as e:
        raise RuntimeError(f"harness: injected BaseException escaped the interpreter: {e}") from e


# ------------------------------------------------------------------ generators
_cfg = st.builds(
    lambda pool, size, overflow, pre_ping, recycle, reset, lifo, warm, events: {
        "pool": pool, "size": size, "overflow": overflow, "pre_ping": pre_ping, "recycle": recycle, "reset": reset, "lifo": lifo, "warm": warm, "events": events,
    },
    st.sampled_from(["queue", "queue", "queue", "queue", "null", "static", "singleton", "assertion"]),
    st.integers(1, 2),
    st.integers(0, 1),
    st.booleans(),
    st.sampled_from([-1, 30]),
    st.sampled_from(["rollback", "rollback", "commit", None]),
    st.booleans(),
    st.booleans(),
    st.sampled_from([True, True, False]),
)
_i = st.integers(0, 3)
_opst = st.one_of(
    st.builds(lambda k: ["co", k], st.sampled_from(["conn", "raw"])),
    st.builds(lambda k: ["co", k], st.sampled_from(["conn", "raw"])),
    st.builds(lambda k: ["co", k], st.sampled_from(["conn", "raw"])),
    st.builds(lambda i: ["use", i], _i),
    st.builds(lambda i: ["write", i], _i),
    st.builds(lambda i, m: ["txn", i, m], _i, st.sampled_from(["commit", "rollback"])),
    st.builds(lambda i: ["ci", i], _i),
    st.builds(lambda i: ["ci", i], _i),
    st.builds(lambda i: ["ci", i], _i),
    st.builds(lambda i: ["gc", i], _i),
    st.builds(lambda i, s: ["inv", i, s], _i, st.integers(0, 1)),
    st.builds(lambda i: ["detach", i], _i),
    st.builds(lambda d: ["tick", d], st.sampled_from([10, 100])),
    st.just(["pdispose"]),
    st.just(["edispose"]),
)
_K = st.sampled_from([0, 0, 1, 1, 2, 2, 3, 4])


@st.composite
def _cases(draw):
    cfg = draw(_cfg)
    sites = ["connect", "rollback", "close", "cursor", "execute"]
    if cfg["pre_ping"]:
        sites += ["ping", "ping"]
    if cfg["reset"] == "commit":
        sites += ["commit", "commit"]
    else:
        sites += ["commit"]
    if cfg["events"]:
        sites += ["ev_checkout", "ev_checkout", "ev_reset"]
    if cfg["pool"] == "queue":
        sites += ["discard", "discard"]
    n = draw(st.integers(2, 5))
    plan, seen = [], set()
    for _ in range(n):
        site = draw(st.sampled_from(sites))
        k = draw(_K)
        if site in ("connect", "ev_checkout", "ping", "close", "ev_reset"):
            k = min(k, 2)
        if (site, k) in seen:
            continue
        seen.add((site, k))
        if site == "ev_checkout":
            kind = draw(st.sampled_from(["disconnect", "disconnect_pool", "error"]))
        elif site == "ev_reset":
            kind = "error"
        elif site == "discard":
            k = min(k, 1)
            if (site, k) in seen:
                continue
            kind = draw(st.sampled_from(DISCARD_KINDS if cfg["events"] else ["base"]))
        else:
            kind = draw(st.sampled_from(["disconnect", "error"]))
        plan.append([site, k, kind])
    # histories: a checkout/use/checkin skeleton so that every site is exercised, plus free ops
    ops = []
    for _ in range(draw(st.integers(2, 5))):
        ops.append(["co", draw(st.sampled_from(["conn", "raw"]))])
        ops.append(draw(st.sampled_from([["use", 0], ["write", 0], ["write", 1], ["use", 1]])))
        for _ in range(draw(st.integers(0, 2))):
            ops.append(draw(_opst))
        r = draw(st.integers(0, 7))
        if r == 0:
            ops += [["inv", 0, 0], ["use", 0]]
        elif r == 1:
            ops += [["inv", 0, 1]]
        ops.append(draw(st.sampled_from([["ci", 0], ["ci", 1], ["gc", 0], ["ci", 0]])))
    extra = draw(st.lists(_opst, max_size=6))
    for op in extra:
        ops.insert(draw(st.integers(0, len(ops))), op)
    ops = ops[:25]
    if cfg["pool"] == "queue" and draw(st.integers(0, 3)) == 0:
        # scenario: more holders than pool_size, all returned -> the last returns hit a full queue and are discarded
        cfg = dict(cfg, overflow=1)
        n = cfg["size"] + 1
        head = [["co", draw(st.sampled_from(["conn", "raw"]))] for _ in range(n)] + [[draw(st.sampled_from(["use", "write"])), draw(_i)] for _ in range(draw(st.integers(0, 2)))]
        head += [[draw(st.sampled_from(["ci", "ci", "gc"])), 0] for _ in range(n)]
        ops = (head + ops)[:25]
        plan = [f for f in plan if f[0] != "discard"] + [["discard", draw(st.integers(0, 1)), draw(st.sampled_from(DISCARD_KINDS[:2] if cfg["events"] else ["base"]))]]
    return {"cfg": cfg, "ops": ops, "plan": plan}


# ---- fixed history, every single (and, thorough, double) fault
ENUM_OPS = [["co", "conn"], ["write", 0], ["co", "raw"], ["ci", 0], ["co", "conn"], ["use", 1], ["ci", 1], ["ci", 0], ["tick", 100], ["co", "conn"], ["ci", 0]]
ENUM_CFGS = [
    {"pool": "queue", "size": 1, "overflow": 1, "pre_ping": True, "recycle": 30, "reset": "rollback", "lifo": False, "warm": True, "events": True},
    {"pool": "queue", "size": 1, "overflow": 1, "pre_ping": False, "recycle": -1, "reset": "commit", "lifo": True, "warm": False, "events": True},
    {"pool": "queue", "size": 2, "overflow": 0, "pre_ping": True, "recycle": -1, "reset": "rollback", "lifo": False, "warm": False, "events": False},
    {"pool": "null", "size": 1, "overflow": 0, "pre_ping": True, "recycle": -1, "reset": "rollback", "lifo": False, "warm": True, "events": True},
]
_KINDS = {"ev_checkout": ["disconnect", "disconnect_pool", "error"], "ev_reset": ["error"], "discard": DISCARD_KINDS}


def _fault_free_counts(cfg):
    """calls per site made by the fault-free run (after warm-up) - bounds the enumeration"""


    case = {"cfg": cfg, "ops": ENUM_OPS, "plan": []}
    run = _Run(case, None)
    counts = {}
    with F.pool_clock(run.clock):
        if cfg["warm"]:
            run.eng.connect().close()
        base = dict(run.db.counts)
        ebase = dict(run.events.counts) if run.events else {}
        F.arm(run.db, [], run.events)
        try:
            for op in ENUM_OPS:
                k = op[0]
                if k == "co":
                    run.op_checkout(op[1])
                elif k in ("use", "write"):
                    run.op_use(op[1], "select 1")
                elif k == "ci":
                    h = run.pick(op[1])
                    if h is not None:
                        run.op_release(h, False)
                elif k == "tick":
                    run.clock.advance(op[1])
        except Violation:
            pass  # only call counts are wanted here; the enumerated cases themselves report violations
        for s in F.DBAPI_SITES:
            counts[s] = max(run.db.counts[s] - base.get(s, 0), 2)
        for s in F.EVENT_SITES:
            counts[s] = max(run.events.counts[s] - ebase.get(s, 0), 2) if run.events else 0
        counts["discard"] = 1 if cfg["pool"] == "queue" else -1
        run.holders = []
        for p in run.pools:
            p.dispose()
    return counts


def _enum_cases(tier):
    for cfg in ENUM_CFGS:
        counts = _fault_free_counts(cfg)
        singles = []
        for site in SITES:
            # +1: a fault index one past the fault-free count is reachable once an earlier fault adds retries
            for k in range(counts.get(site, 0) + 1):
                for kind in _KINDS.get(site, ["disconnect", "error"]):
                    singles.append([site, k, kind])
        for f in singles:
            yield {"cfg": cfg, "ops": ENUM_OPS, "plan": [f]}
        if tier == "thorough":
            for a in range(len(singles)):
                for b in range(a + 1, len(singles)):
                    if (singles[a][0], singles[a][1]) != (singles[b][0], singles[b][1]):
                        yield {"cfg": cfg, "ops": ENUM_OPS, "plan": [singles[a], singles[b]]}


def subs(tier):
    return [
        Enumerated("enum", check_enum, cases=_enum_cases),
        Generated("random", check_random, strategy=_cases(), quick=3000, thorough=100000),
    ]
