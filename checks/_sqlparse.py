"""Tiny SQL *expression* tokenizer + table-driven precedence-climbing parser (owned by the C01 author).

One engine, one ``Spec`` per backend built from the vendor's documented operator-precedence table:

* SQLite      https://sqlite.org/lang_expr.html  ("Operators, and Parse-Affecting Attributes")
* PostgreSQL  docs 4.1.6 "Operator Precedence" (table 4.2) + gram.y ``%prec`` notes quoted there
* MySQL/MariaDB  refman "Operator Precedence" (default sql_mode: no HIGH_NOT_PRECEDENCE, no PIPES_AS_CONCAT)
* SQL Server  "Operator Precedence (Transact-SQL)"; unary minus is taken as binding to its operand
* Oracle      SQL Language Reference "About SQL Operators / Condition Precedence"

Only what SQLAlchemy's compiler emits for column expressions is covered (operators, NOT/AND/OR,
IS, [NOT] IN/LIKE/ILIKE/BETWEEN, COLLATE, CASE, CAST, ``::``, function calls, EXISTS and
scalar sub-selects ``(SELECT expr [AS x] [FROM t] [WHERE c] [INTERSECT SELECT ..])``).

The tables are *trusted inputs*; the engine itself (tokenizer, climbing loop, special forms) is
validated by C01 against live SQLite: the parse tree re-rendered fully parenthesised must evaluate
like the original text.
"""
from __future__ import annotations

import json

import re


class ParseError(Exception):
    pass


KEYWORDS = {
    "NOT", "AND", "OR", "IS", "NULL", "IN", "LIKE", "ILIKE", "BETWEEN", "ESCAPE", "CASE", "WHEN", "THEN", "ELSE", "END",
    "CAST", "AS", "SELECT", "FROM", "WHERE", "EXISTS", "COLLATE", "DISTINCT", "TRUE", "FALSE", "INTERSECT", "SYMMETRIC",
}

L, R, N = "left", "right", "nonassoc"


class Spec:
    """precedence: larger binds tighter"""

    def __init__(self, name, levels, prefix, *, not_prec, between, like, in_, is_, collate, escape_min=None,
                 between_lo_min=None, between_hi_min=None, params=("qmark",), ident_quotes='"', general_is=False,
                 native_boolean=False):
        self.name = name
        self.binary = {}
        for prec, assoc, ops in levels:
            for op in ops:
                self.binary[op] = (prec, assoc)
        self.prefix = dict(prefix)
        self.not_prec = not_prec
        self.between = between
        self.like = like
        self.in_ = in_
        self.is_ = is_
        self.collate = collate
        self.and_prec = self.binary["AND"][0]
        self.escape_min = escape_min if escape_min is not None else like + 1
        self.between_lo_min = between_lo_min if between_lo_min is not None else self.and_prec + 1
        self.between_hi_min = between_hi_min if between_hi_min is not None else between + 1
        self.params = params
        self.ident_quotes = ident_quotes
        self.general_is = general_is
        self.native_boolean = native_boolean


def _sqlite():
    # ~ + - | COLLATE | || | * / % | + - | & | << >> | ESCAPE | < > <= >= | = == <> != IS IN LIKE BETWEEN ... | NOT | AND | OR
    levels = [
        (1, L, ["OR"]), (2, L, ["AND"]),
        (4, L, ["=", "==", "<>", "!="]),
        (5, L, ["<", ">", "<=", ">="]),
        (7, L, ["&", "|", "<<", ">>"]),
        (8, L, ["+", "-"]), (9, L, ["*", "/", "%"]), (10, L, ["||"]),
    ]
    return Spec("sqlite", levels, {"-": 12, "+": 12, "~": 12}, not_prec=3, between=4, like=4, in_=4, is_=4, collate=11,
                escape_min=7, general_is=True, params=("qmark",))


def _postgresql():
    # . :: [] | unary + - | COLLATE | AT | ^ | * / % | + - | other | BETWEEN IN LIKE ILIKE | < > = <= >= <> | IS | NOT | AND | OR
    other = ["||", "&", "|", "#", "<<", ">>"]
    levels = [
        (1, L, ["OR"]), (2, L, ["AND"]),
        (5, N, ["<", ">", "=", "<=", ">=", "<>", "!="]),
        (7, L, other),
        (8, L, ["+", "-"]), (9, L, ["*", "/", "%"]), (10, L, ["^"]),
    ]
    # prefix generic operators (~ is bitwise NOT) carry the precedence of "any other operator" (gram.y: qual_Op a_expr %prec Op);
    # that level is %left, so `~ a & b` reduces the prefix first ((~a) & b): the operand is parsed one level tighter (8), while
    # `~ a + b` still shifts the tighter `+` (~(a + b))
    return Spec("postgresql", levels, {"-": 13, "+": 13, "~": 8}, not_prec=3, between=6, like=6, in_=6, is_=4, collate=12,
                between_lo_min=5, params=("pyformat", "named", "numeric_dollar", "format"), native_boolean=True)


def _mysql(name="mysql"):
    # BINARY COLLATE | ! | unary - ~ | ^ | * / DIV % MOD | - + | << >> | & | | | comparison IS LIKE IN | BETWEEN CASE | NOT | AND | XOR | OR
    levels = [
        (1, L, ["OR"]), (2, L, ["XOR"]), (3, L, ["AND"]),
        (6, L, ["=", "<=>", ">=", ">", "<=", "<", "<>", "!="]),
        (7, L, ["|"]), (8, L, ["&"]), (9, L, ["<<", ">>"]),
        (10, L, ["+", "-"]), (11, L, ["*", "/", "%", "DIV", "MOD"]), (12, L, ["^"]),
    ]
    return Spec(name, levels, {"-": 13, "+": 13, "~": 13, "!": 14}, not_prec=4, between=5, like=6, in_=6, is_=6, collate=15,
                between_lo_min=7, between_hi_min=5, params=("format", "pyformat", "qmark"), ident_quotes="`")


def _mssql():
    # ~ | * / % | + - & ^ | | comparisons | NOT | AND | OR (BETWEEN/IN/LIKE are predicates over arithmetic expressions)
    levels = [
        (1, L, ["OR"]), (2, L, ["AND"]),
        (5, N, ["=", ">", "<", ">=", "<=", "<>", "!=", "!>", "!<"]),
        (7, L, ["+", "-", "&", "^", "|"]), (8, L, ["*", "/", "%"]),
    ]
    return Spec("mssql", levels, {"-": 9, "+": 9, "~": 9}, not_prec=3, between=5, like=5, in_=5, is_=5, collate=10,
                between_lo_min=6, between_hi_min=6, params=("named", "qmark", "format", "pyformat"), ident_quotes='"[')


def _oracle():
    # unary + - | * / | + - || | conditions (comparison, IS, LIKE, BETWEEN, IN, EXISTS) | NOT | AND | OR
    levels = [
        (1, L, ["OR"]), (2, L, ["AND"]),
        (5, N, ["=", "!=", "<", ">", "<=", ">=", "<>", "^="]),
        (7, L, ["+", "-", "||"]), (8, L, ["*", "/"]),
    ]
    return Spec("oracle", levels, {"-": 9, "+": 9}, not_prec=3, between=5, like=5, in_=5, is_=5, collate=10,
                between_lo_min=6, between_hi_min=6, params=("named",))


SPECS = {"sqlite": _sqlite(), "postgresql": _postgresql(), "mysql": _mysql("mysql"), "mariadb": _mysql("mariadb"), "mssql": _mssql(), "oracle": _oracle()}

_WORD = re.compile(r"[A-Za-z_][A-Za-z_0-9$]*")
_NUM = re.compile(r"(?:\d+\.\d*|\.\d+|\d+)(?:[eE][+-]?\d+)?")
_PYFORMAT = re.compile(r"%\(([^)]+)\)s")
_NAMED = re.compile(r":([A-Za-z_][A-Za-z_0-9]*|\d+)")
_DOLLAR = re.compile(r"\$(\d+)")
_POSTCOMPILE = re.compile(r"__\[POSTCOMPILE_([^\]]+)\]")
_OPS3 = ("<=>",)
_OPS2 = ("<=", ">=", "<>", "!=", "||", "<<", ">>", "==", "::", "%%", "!>", "!<", "^=")
_OPS1 = "+-*/%=<>&|^~#!"


def tokenize(sql, spec):
    """-> list of (kind, text[, extra]); kinds: num str id kw param op ( ) ,"""
    out = []
    i, n = 0, len(sql)
    pos_param = 0
    while i < n:
        ch = sql[i]
        if ch.isspace():
            i += 1
            continue
        if ch == "'":
            j = i + 1
            buf = []
            while True:
                if j >= n:
                    raise ParseError("unterminated string")
                if sql[j] == "\\" and spec.name in ("mysql", "mariadb") and j + 1 < n:
                    buf.append(sql[j:j + 2])
                    j += 2
                    continue
                if sql[j] == "'":
                    if j + 1 < n and sql[j + 1] == "'":
                        buf.append("''")
                        j += 2
                        continue
                    break
                buf.append(sql[j])
                j += 1
            out.append(("str", "'" + "".join(buf) + "'"))
            i = j + 1
            continue
        if ch in spec.ident_quotes or (ch == '"'):
            close = "]" if ch == "[" else ch
            j = sql.index(close, i + 1)
            text = sql[i:j + 1]
            i = j + 1
            # dotted continuation
            while i < n and sql[i] == ".":
                m = _WORD.match(sql, i + 1)
                if m:
                    text += "." + m.group(0)
                    i = m.end()
                elif i + 1 < n and (sql[i + 1] in spec.ident_quotes or sql[i + 1] == '"'):
                    c2 = "]" if sql[i + 1] == "[" else sql[i + 1]
                    j = sql.index(c2, i + 2)
                    text += sql[i:j + 1]
                    i = j + 1
                else:
                    break
            out.append(("id", text))
            continue
        if ch == "%":
            m = _PYFORMAT.match(sql, i)
            if m and "pyformat" in spec.params:
                out.append(("param", m.group(0), m.group(1)))
                i = m.end()
                continue
            if sql.startswith("%%", i):
                out.append(("op", "%"))
                i += 2
                continue
            if sql.startswith("%s", i) and "format" in spec.params and not (i + 2 < n and (sql[i + 2].isalnum() or sql[i + 2] == "_")):
                out.append(("param", "%s", pos_param))
                pos_param += 1
                i += 2
                continue
            out.append(("op", "%"))
            i += 1
            continue
        if ch == "?" and "qmark" in spec.params:
            out.append(("param", "?", pos_param))
            pos_param += 1
            i += 1
            continue
        if ch == ":" and not sql.startswith("::", i):
            m = _NAMED.match(sql, i)
            if m and "named" in spec.params:
                out.append(("param", m.group(0), m.group(1)))
                i = m.end()
                continue
            raise ParseError(f"unexpected ':' at {i}")
        if ch == "$":
            m = _DOLLAR.match(sql, i)
            if m and "numeric_dollar" in spec.params:
                out.append(("param", m.group(0), int(m.group(1)) - 1))
                i = m.end()
                continue
            raise ParseError(f"unexpected '$' at {i}")
        if ch == "_":
            m = _POSTCOMPILE.match(sql, i)
            if m:
                # an expanding parameter left for execution time (whole list = one leaf)
                out.append(("param", m.group(0), m.group(1)))
                i = m.end()
                continue
        m = _NUM.match(sql, i)
        if m and (ch.isdigit() or (ch == "." and i + 1 < n and sql[i + 1].isdigit())):
            out.append(("num", m.group(0)))
            i = m.end()
            continue
        m = _WORD.match(sql, i)
        if m:
            w = m.group(0)
            i = m.end()
            up = w.upper()
            if up in KEYWORDS or (up in ("DIV", "MOD", "XOR") and spec.name in ("mysql", "mariadb") and not sql.startswith("(", i)):
                out.append(("kw", up))
                continue
            text = w
            while i < n and sql[i] == ".":
                m2 = _WORD.match(sql, i + 1)
                if not m2:
                    break
                text += "." + m2.group(0)
                i = m2.end()
            out.append(("id", text))
            continue
        if ch in "(),":
            out.append((ch, ch))
            i += 1
            continue
        for ops in (_OPS3, _OPS2):
            hit = next((o for o in ops if sql.startswith(o, i)), None)
            if hit:
                break
        if hit:
            out.append(("op", hit))
            i += len(hit)
            continue
        if ch in _OPS1:
            out.append(("op", ch))
            i += 1
            continue
        raise ParseError(f"unexpected character {ch!r} at {i} in {sql!r}")
    return out


class Parser:
    def __init__(self, tokens, spec):
        self.toks = tokens
        self.i = 0
        self.spec = spec

    # -- token helpers
    def peek(self, k=0):
        j = self.i + k
        return self.toks[j] if j < len(self.toks) else ("eof", "")

    def next(self):
        t = self.peek()
        self.i += 1
        return t

    def at_kw(self, *words, k=0):
        t = self.peek(k)
        return t[0] == "kw" and t[1] in words

    def expect(self, kind, text=None):
        t = self.next()
        if t[0] != kind or (text is not None and t[1] != text):
            raise ParseError(f"expected {kind} {text or ''} got {t} at token {self.i - 1}")
        return t

    # -- entry points
    def parse_all(self):
        e = self.expr(0)
        if self.peek()[0] != "eof":
            raise ParseError(f"trailing tokens from {self.peek()} (token {self.i})")
        return e

    # -- precedence climbing
    def expr(self, min_prec):
        sp = self.spec
        left = self.prefix()
        while True:
            t = self.peek()
            if t[0] == "op" and t[1] == "::":
                self.next()
                left = ["pgcast", left, self.type_name()]
                continue
            if t[0] == "op" or (t[0] == "kw" and t[1] in ("AND", "OR", "XOR", "DIV", "MOD")):
                info = sp.binary.get(t[1])
                if info is None:
                    raise ParseError(f"operator {t[1]!r} not in the {sp.name} table")
                prec, assoc = info
                if prec < min_prec:
                    break
                self.next()
                right = self.expr(prec if assoc == R else prec + 1)
                left = ["bin", t[1], left, right]
                if assoc == N:
                    t2 = self.peek()
                    if t2[0] == "op" and sp.binary.get(t2[1], (None,))[0] == prec:
                        raise ParseError(f"non-associative operator chain {t[1]} .. {t2[1]} in {sp.name}")
                continue
            if t[0] == "kw":
                neg = False
                k = 0
                if t[1] == "NOT" and self.at_kw("IN", "LIKE", "ILIKE", "BETWEEN", k=1):
                    neg = True
                    k = 1
                w = self.peek(k)[1]
                if w == "IS":
                    if sp.is_ < min_prec:
                        break
                    self.next()
                    n2 = False
                    if self.at_kw("NOT"):
                        self.next()
                        n2 = True
                    if self.at_kw("NULL", "TRUE", "FALSE"):
                        left = ["is", n2, left, self.next()[1]]
                    elif self.at_kw("DISTINCT"):
                        self.next()
                        self.expect("kw", "FROM")
                        left = ["isdist", n2, left, self.expr(sp.is_ + 1)]
                    elif sp.general_is:
                        left = ["bin", "IS NOT" if n2 else "IS", left, self.expr(sp.is_ + 1)]
                    else:
                        raise ParseError(f"IS <expr> is not {sp.name} syntax")
                    continue
                if w == "IN":
                    if sp.in_ < min_prec:
                        break
                    self.i += k + 1
                    self.expect("(")
                    if self.at_kw("SELECT"):
                        rhs = self.subquery_body()
                    else:
                        items = [self.expr(0)]
                        while self.peek()[0] == ",":
                            self.next()
                            items.append(self.expr(0))
                        rhs = ["list", items]
                    self.expect(")")
                    left = ["in", neg, left, rhs]
                    continue
                if w in ("LIKE", "ILIKE"):
                    if sp.like < min_prec:
                        break
                    self.i += k + 1
                    pat = self.expr(sp.like + 1)
                    esc = None
                    if self.at_kw("ESCAPE"):
                        self.next()
                        esc = self.expr(sp.escape_min)
                    left = ["like", w, neg, left, pat, esc]
                    continue
                if w == "BETWEEN":
                    if sp.between < min_prec:
                        break
                    self.i += k + 1
                    sym = False
                    if self.at_kw("SYMMETRIC"):
                        self.next()
                        sym = True
                    lo = self.expr(sp.between_lo_min)
                    self.expect("kw", "AND")
                    hi = self.expr(sp.between_hi_min)
                    left = ["between", neg, left, lo, hi] + (["sym"] if sym else [])
                    continue
                if w == "COLLATE":
                    if sp.collate < min_prec:
                        break
                    self.next()
                    left = ["collate", left, self.next()[1]]
                    continue
            break
        return left

    def type_name(self):
        words = []
        while self.peek()[0] in ("id", "kw") and not self.at_kw("AND", "OR", "IS", "NOT", "IN", "LIKE", "ILIKE", "BETWEEN", "ESCAPE", "THEN", "ELSE", "END", "WHEN", "AS", "FROM", "WHERE", "COLLATE", "INTERSECT"):
            words.append(self.next()[1])
        if self.peek()[0] == "(" and words:
            depth = 0
            while True:
                t = self.next()
                words.append(t[1])
                if t[0] == "(":
                    depth += 1
                elif t[0] == ")":
                    depth -= 1
                    if depth == 0:
                        break
                elif t[0] == "eof":
                    raise ParseError("unterminated type")
        if not words:
            raise ParseError("type name expected")
        return " ".join(words)

    def prefix(self):
        sp = self.spec
        t = self.next()
        kind, text = t[0], t[1]
        if kind == "(":
            if self.at_kw("SELECT"):
                body = self.subquery_body()
                self.expect(")")
                return body
            e = self.expr(0)
            if self.peek()[0] == ",":
                items = [e]
                while self.peek()[0] == ",":
                    self.next()
                    items.append(self.expr(0))
                self.expect(")")
                return ["tuple", items]
            self.expect(")")
            return ["paren", e]
        if kind == "op" and text in sp.prefix:
            return ["un", text, self.expr(sp.prefix[text])]
        if kind == "kw":
            if text == "NOT":
                if self.at_kw("EXISTS") and sp.name in ("mssql", "oracle"):
                    pass
                return ["un", "NOT", self.expr(sp.not_prec)]
            if text in ("NULL", "TRUE", "FALSE"):
                return ["atom", "kw", text]
            if text == "EXISTS":
                self.expect("(")
                body = self.subquery_body()
                self.expect(")")
                return ["exists", body]
            if text == "CASE":
                value = None
                if not self.at_kw("WHEN"):
                    value = self.expr(0)
                whens = []
                while self.at_kw("WHEN"):
                    self.next()
                    w = self.expr(0)
                    self.expect("kw", "THEN")
                    whens.append([w, self.expr(0)])
                els = None
                if self.at_kw("ELSE"):
                    self.next()
                    els = self.expr(0)
                self.expect("kw", "END")
                if not whens:
                    raise ParseError("CASE without WHEN")
                return ["case", value, whens, els]
            if text == "CAST":
                self.expect("(")
                e = self.expr(0)
                self.expect("kw", "AS")
                depth = 0
                words = []
                while True:
                    t2 = self.peek()
                    if t2[0] == "eof":
                        raise ParseError("unterminated CAST")
                    if t2[0] == ")" and depth == 0:
                        break
                    if t2[0] == "(":
                        depth += 1
                    if t2[0] == ")":
                        depth -= 1
                    words.append(self.next()[1])
                self.expect(")")
                return ["cast", e, " ".join(words)]
            raise ParseError(f"unexpected keyword {text}")
        if kind == "id":
            if self.peek()[0] == "(":
                self.next()
                args = []
                if self.peek()[0] != ")":
                    args.append(self.expr(0))
                    while self.peek()[0] == ",":
                        self.next()
                        args.append(self.expr(0))
                self.expect(")")
                return ["func", text.upper(), args]
            return ["atom", "id", text]
        if kind == "num":
            return ["atom", "num", text]
        if kind == "str":
            return ["atom", "str", text]
        if kind == "param":
            return ["param", t[2]]
        raise ParseError(f"unexpected token {t}")

    def subquery_body(self):
        selects = []
        while True:
            self.expect("kw", "SELECT")
            cols = []
            while True:
                e = self.expr(0)
                if self.at_kw("AS"):
                    self.next()
                    self.next()
                cols.append(e)
                if self.peek()[0] != ",":
                    break
                self.next()
            frm = None
            if self.at_kw("FROM"):
                self.next()
                if self.peek()[0] == "(":
                    self.next()
                    frm = self.subquery_body()
                    self.expect(")")
                else:
                    frm = self.next()[1]
                if self.at_kw("AS"):
                    self.next()
                    self.next()
                elif self.peek()[0] == "id" and not isinstance(frm, str):
                    self.next()
            where = None
            if self.at_kw("WHERE"):
                self.next()
                where = self.expr(0)
            selects.append(["select", cols, frm, where])
            if self.at_kw("INTERSECT"):
                self.next()
                continue
            break
        return ["subq", selects]


def parse(sql, spec):
    if isinstance(spec, str):
        spec = SPECS[spec]
    return Parser(tokenize(sql, spec), spec).parse_all()


# ------------------------------------------------------------------ render (fully parenthesised, source order)
def render(a):
    k = a[0]
    if k == "atom":
        return a[2]
    if k == "param":
        return "?"
    if k == "paren":
        return render(a[1])
    if k == "un":
        return "(%s %s)" % (a[1], render(a[2]))
    if k == "bin":
        return "(%s %s %s)" % (render(a[2]), a[1], render(a[3]))
    if k == "pgcast":
        return "(%s::%s)" % (render(a[1]), a[2])
    if k == "is":
        return "(%s IS %s%s)" % (render(a[2]), "NOT " if a[1] else "", a[3])
    if k == "isdist":
        return "(%s IS %sDISTINCT FROM %s)" % (render(a[2]), "NOT " if a[1] else "", render(a[3]))
    if k == "in":
        rhs = a[3]
        body = render(rhs) if rhs[0] == "subq" else "(" + ", ".join(render(x) for x in rhs[1]) + ")"
        return "(%s %sIN %s)" % (render(a[2]), "NOT " if a[1] else "", body)
    if k == "like":
        s = "(%s %s%s %s" % (render(a[3]), "NOT " if a[2] else "", a[1], render(a[4]))
        if a[5] is not None:
            s += " ESCAPE " + render(a[5])
        return s + ")"
    if k == "between":
        return "(%s %sBETWEEN %s AND %s)" % (render(a[2]), "NOT " if a[1] else "", render(a[3]), render(a[4]))
    if k == "collate":
        return "(%s COLLATE %s)" % (render(a[1]), a[2])
    if k == "case":
        s = "CASE"
        if a[1] is not None:
            s += " " + render(a[1])
        for w, t in a[2]:
            s += " WHEN %s THEN %s" % (render(w), render(t))
        if a[3] is not None:
            s += " ELSE " + render(a[3])
        return s + " END"
    if k == "cast":
        return "CAST(%s AS %s)" % (render(a[1]), a[2])
    if k == "func":
        return "%s(%s)" % (a[1], ", ".join(render(x) for x in a[2]))
    if k == "exists":
        return "(EXISTS %s)" % render(a[1])
    if k == "tuple":
        return "(" + ", ".join(render(x) for x in a[1]) + ")"
    if k == "subq":
        parts = []
        for _, cols, frm, where in a[1]:
            s = "SELECT " + ", ".join(render(c) for c in cols)
            if frm:
                s += " FROM " + (frm if isinstance(frm, str) else render(frm) + " AS _d")
            if where is not None:
                s += " WHERE " + render(where)
            parts.append(s)
        return "(" + " INTERSECT ".join(parts) + ")"
    raise ValueError(k)


# ------------------------------------------------------------------ canonical form
_FLIP = {"=": "!=", "==": "!=", "!=": "=", "<>": "=", "^=": "=", "<": ">=", ">=": "<", ">": "<=", "<=": ">", "IS": "IS NOT", "IS NOT": "IS"}
_NORM_OP = {"<>": "!=", "==": "=", "^=": "!="}
ASSOC = {"+", "*", "||", "AND", "OR"}


def _norm_cmp(op, l, r):
    if op in ("=", "!="):
        if json.dumps(r, sort_keys=True, default=str) < json.dumps(l, sort_keys=True, default=str):
            l, r = r, l
    elif op in (">", ">="):
        op, l, r = {">": "<", ">=": "<="}[op], r, l
    return ["bin", op, l, r]


def canon(a, spec, resolve):
    """normal form modulo redundant parentheses, n-ary flattening of + * || AND OR and the negation
    identities NOT(a<b)=a>=b, NOT(x IS NULL)=x IS NOT NULL, NOT(x [IN|LIKE|BETWEEN] ..)=x NOT .., NOT NOT x = x,
    (non-native boolean backends) x = 1 -> x, x = 0 -> NOT x for the inline numerals SQLAlchemy itself emits."""
    if isinstance(spec, str):
        spec = SPECS[spec]
    C = lambda x: canon(x, spec, resolve)  # noqa: E731
    k = a[0]
    if k == "atom":
        return ["atom", a[1], a[2].lower() if a[1] == "id" else a[2]]
    if k == "param":
        return ["val", resolve(a[1])]
    if k == "paren":
        return C(a[1])
    if k == "pgcast":
        return ["pgcast", C(a[1]), a[2].upper()]
    if k == "un":
        if a[1] == "NOT":
            return negate(C(a[2]))
        return ["un", a[1], C(a[2])]
    if k == "bin":
        op = _NORM_OP.get(a[1], a[1])
        l, r = C(a[2]), C(a[3])
        if op == "=" and not spec.native_boolean and r[0] == "atom" and r[1] == "num" and r[2] in ("1", "0"):
            if l[0] == "func" and l[1] == "DECODE":
                return ["bin", "=", l, r]
            return l if r[2] == "1" else negate(l)
        if op == "=" and spec.name == "mssql" and l[0] == "val" and r[0] != "val":
            # MSSQLCompiler.visit_binary documents "move bind parameters to the right-hand side" of '='
            l, r = r, l
        if op in ASSOC:
            xs = []
            for s in (l, r):
                if s[0] == "nary" and s[1] == op:
                    xs.extend(s[2])
                else:
                    xs.append(s)
            return ["nary", op, xs]
        # Python's reflected-operand rule may evaluate "a == b" / "a < b" as b.__eq__(a) / b.__gt__(a) when type(b) is a
        # subclass of type(a) (e.g. func.coalesce(..) vs a generic func.abs(..)), rendering "b = a" / "b > a": the same
        # predicate.  Comparisons are therefore normalised: = and != with ordered operands, > and >= mirrored to < and <=.
        return _norm_cmp(op, l, r)
    if k == "is":
        return ["is", a[1], C(a[2]), a[3]]
    if k == "isdist":
        return ["isdist", a[1], C(a[2]), C(a[3])]
    if k == "in":
        rhs = a[3]
        return ["in", a[1], C(a[2]), C(rhs) if rhs[0] == "subq" else ["list", [C(x) for x in rhs[1]]]]
    if k == "like":
        return ["like", a[1], a[2], C(a[3]), C(a[4]), C(a[5]) if a[5] is not None else None]
    if k == "between":
        return ["between", a[1], C(a[2]), C(a[3]), C(a[4])] + list(a[5:])
    if k == "collate":
        return ["collate", C(a[1]), a[2]]
    if k == "case":
        return ["case", C(a[1]) if a[1] is not None else None, [[C(w), C(t)] for w, t in a[2]], C(a[3]) if a[3] is not None else None]
    if k == "cast":
        return ["cast", C(a[1]), a[2].upper()]
    if k == "func":
        args = [C(x) for x in a[2]]
        if a[1] == "CONCAT" and spec.name in ("mysql", "mariadb"):
            xs = []
            for s in args:
                if s[0] == "nary" and s[1] == "||":
                    xs.extend(s[2])
                else:
                    xs.append(s)
            return ["nary", "||", xs]
        return ["func", a[1], args]
    if k == "exists":
        return ["exists", C(a[1])]
    if k == "tuple":
        return ["tuple", [C(x) for x in a[1]]]
    if k == "subq":
        return ["subq", [["select", [C(c) for c in cols], frm if (frm is None or isinstance(frm, str)) else C(frm), C(where) if where is not None else None]
                         for _, cols, frm, where in a[1]]]
    raise ValueError(k)


def negate(c):
    k = c[0]
    if k == "not":
        return c[1]
    if k == "bin":
        if c[1] == "=" and c[2][0] == "func" and c[2][1] == "DECODE" and c[3][0] == "atom" and c[3][2] in ("0", "1"):
            return ["bin", "=", c[2], ["atom", "num", "1" if c[3][2] == "0" else "0"]]
        if c[1] in _FLIP:
            return _norm_cmp(_NORM_OP.get(_FLIP[c[1]], _FLIP[c[1]]), c[2], c[3])
    if k in ("is", "isdist", "in", "between"):
        return [k, not c[1]] + list(c[2:])
    if k == "like":
        return ["like", c[1], not c[2]] + list(c[3:])
    return ["not", c]
