"""C02 - the compiled-statement cache is transparent.

A case is a *history*: 1-2 abstract base statements (checks/_stmtgen.py) and
5-24 structural siblings of them (same abstract statement with new tagged
literal values / IN-list lengths, 0-2 structural toggles drawn from a small
per-history menu so that identical structures recur, and a different order of
the generative calls), over generated table data on live SQLite.

Oracles
  (1) differential: the identical history is executed on three engines over
      identical data - cache disabled (query_cache_size=0), cold cache, and a
      cache pre-warmed with all siblings in a permuted order (warm-up rolled
      back).  Cursor-level SQL text + parameters (vf.sautil.Capture) and the
      fetched rows (ORM entities: loaded state) must agree position by position.
  (2) key soundness: statements of the history with equal
      (cache key, column keys, executemany) must compile fresh to identical SQL,
      bind names, positions and bind types (sqlite and postgresql dialects), and
      compiled(s1).construct_params(extracted_parameters=key(s2).bindparams) must
      equal the parameters of s2 compiled on its own.
  (3) statements without a cache key (a TypeDecorator with cache_ok=False) run
      through (1) like all others.
Every literal is a unique tagged token, so a parameter of the statement that
populated the cache is visible when it leaks.
"""
from __future__ import annotations

import warnings

from hypothesis import strategies as st
from sqlalchemy import event
from sqlalchemy import exc as sa_exc
from sqlalchemy.dialects import postgresql
from sqlalchemy.orm import Session

from checks import _stmtgen as G
from vf.api import Generated, Violation
from vf.sautil import Capture, mem_engine

PROPERTY = "C02"
LEVEL = "exploration"
RULE = (
    "histories of 5-24 executions: 1-2 generated base statements (Core/ORM select with joins, subquery/CTE wrap, set operations, aggregates, loader options, "
    "with_loader_criteria, execution options; INSERT/UPDATE/DELETE incl. RETURNING, executemany, multi-VALUES, from_select, ORM-enabled DML) x siblings "
    "(new tagged literals and IN lengths, 0-2 of ~35 structural toggles from a per-history menu of <=4 toggle sets, permuted construction order), generated table data. "
    "Non-trivial: the cold or pre-warmed engine reports >=1 cache hit for a statement whose literal values differ from every earlier statement, or two executed "
    "siblings differ in exactly one structural toggle; distinct = canonical JSON of the history"
)
ASSUMPTIONS = [
    "only SQLite is executed; key soundness additionally compiles on the postgresql dialect (no execution)",
    "rows are compared as lists when the statement has a total ORDER BY, otherwise as multisets",
    "a DBAPI / SQLAlchemy error raised by a statement is an outcome that must be identical (type and message) on the three engines",
    "warm-up and measurement use separate connections of the same engine; the warm-up transaction is rolled back, so all three engines see identical data",
    "ORM results are compared by loaded state (instance __dict__ without _sa_instance_state, nested to depth 3), so a stale loader strategy is visible",
]

PG = postgresql.dialect()


# ------------------------------------------------------------------ history construction
def _sib_descs(case, excluded=None):
    out = []
    menu = case["menu"]
    if False and not case.get("pinned"):  # both defects repaired in /repo: the pairs are generated again
        # type pairs that reproduced findings (with_variant mapping / Enum name+members missing from the cache key)
        def _strip(n):
            if n[0] == "tc" and len(n) > 5 and n[5]:
                n[5] = None
                if excluded is not None:
                    excluded.append(1)
            return False

        for b in case["bases"]:
            G._walk(b, _strip)
    rel = [G.relevant_toggles(b) for b in case["bases"]]  # toggles that change the base: every menu entry is a real structural change
    for i, sb in enumerate(case["sibs"]):
        base = case["bases"][sb["b"] % len(case["bases"])]
        names = rel[sb["b"] % len(case["bases"])]
        togs = [names[t % len(names)] for t in menu[sb["m"] % len(menu)]] if names else []
        if case.get("npcycle") and i % 4 and "np_at%d" % (i % 4) in names:
            togs.append("np_at%d" % (i % 4))  # siblings apply statement-level .params() on different nesting levels
        if case.get("bindsrc") and i % 4 and "bind_src%d" % (i % 4) in names:
            togs.append("bind_src%d" % (i % 4))  # siblings cycle through the four ways a named bind gets its value
        if case.get("typearg") and i % 2 == 1 and "type_arg" in names:
            togs.append("type_arg")  # every other sibling uses the other member of a type-argument pair
        if case.get("nocache") and i % 2 == 1 and "nocache_type" in names:
            togs.append("nocache_type")  # every other sibling has no cache key at all (oracle 3)
        togs = list(dict.fromkeys(togs))
        out.append((sb["b"] % len(case["bases"]), tuple(sorted(togs)), G.apply_toggles(base, togs), sb))
    if False and not case.get("pinned"):  # repaired in /repo (1098df9): .params() next to value / callable_ siblings is generated again
        # (was) finding C02/cache-hit/required-flag-from-cached-bindparam: a statement whose named bind gets its value through
        # .params() (bind source 3) must not share a cache entry with siblings that carry the value / callable_ on the bindparam
        # (judged over the whole history: two bases may be structurally equal and share cache entries)
        srcs = set()
        for _, _, d, _ in out:
            G._walk(d, lambda n: srcs.add((n[2] if len(n) > 2 else 0) % 4) and False if n[0] == "bp" else False)
        if 3 in srcs and srcs & {1, 2}:
            def _to_exec(n):
                if n[0] == "bp" and len(n) > 2 and n[2] % 4 == 3:
                    n[2] = 0
                    if excluded is not None:
                        excluded.append("params")
                return False

            for _, _, d, _ in out:
                G._walk(d, _to_exec)
    return out


def _build_all(case, sibs):
    """fresh statement objects for one run"""
    built = []
    for i, (_, _, desc, sb) in enumerate(sibs):
        built.append(G.build(desc, G.Tagger(i + 1, sb["vals"]), sb["ord"]))
    return built


def _norm_params(p):
    if isinstance(p, dict):
        return ("d", tuple(sorted((k, repr(v)) for k, v in p.items())))
    if isinstance(p, (list, tuple)):
        if p and isinstance(p[0], (list, tuple, dict)):
            return ("m", tuple(_norm_params(x) for x in p))
        return ("t", tuple(repr(v) for v in p))
    return ("x", repr(p))


def _exec_one(conn, b):
    """returns ('rows', total, rows) | ('ok',) | ('error', type, msg)"""
    try:
        with warnings.catch_warnings():
            warnings.simplefilter("ignore")
            if b.orm:
                with Session(bind=conn, join_transaction_mode="create_savepoint") as s:
                    r = s.execute(b.stmt, b.params, execution_options=b.exec_opts)
                    out = ("ok",)
                    if b.returns_rows:
                        if b.unique:
                            r = r.unique()
                        rows = [G.norm(x) for x in _bounded_all(r)]
                        out = ("rows", b.total, rows)
                    s.commit()
                    return out
            r = conn.execute(b.stmt, b.params) if b.params is not None else conn.execute(b.stmt)
            if b.returns_rows:
                return ("rows", b.total, [tuple(x) for x in _bounded_all(r)])
            return ("ok",)
    except sa_exc.SQLAlchemyError as e:
        msg = str(e).split("\n")[0][:200]
        return ("error", type(e).__name__, msg)


def _cmp_result(a, b):
    if a[0] != b[0]:
        return False
    if a[0] == "rows":
        if a[1]:
            return a[2] == b[2]
        return sorted(map(repr, a[2])) == sorted(map(repr, b[2]))
    return a == b


ROW_CAP = 3000


class _TooLarge(Exception):
    """a generated statement whose result exceeds ROW_CAP rows (an unconstrained many-way join): a history executes every sibling
    four times, so such a case would cost minutes without exercising the cache any differently; counted as a generator rejection"""


def _bounded_all(r):
    rows = r.fetchmany(ROW_CAP + 1)
    if len(rows) > ROW_CAP:
        r.close()
        raise _TooLarge()
    return rows


class _Engine:
    def __init__(self, data, **kw):
        self.eng = mem_engine(**kw)
        G.metadata.create_all(self.eng)
        with self.eng.connect() as c:
            G.load_data(c, data)
            c.commit()
        self.cap = Capture(self.eng)
        self.hits = []
        self._fn = self._on
        event.listen(self.eng, "before_cursor_execute", self._fn)

    def _on(self, conn, cursor, statement, parameters, context, executemany):
        h = getattr(context, "cache_hit", None)
        self.hits.append(getattr(h, "name", None))

    def run(self, built, order=None, rollback=True):
        """execute the statements (in the given index order) on a new connection;
        returns list of (sql list, hit list, result) in history order"""
        out = [None] * len(built)
        idxs = list(range(len(built))) if order is None else order
        with self.eng.connect() as conn:
            # an explicit outer transaction, so that a Session joining with create_savepoint never
            # owns (and commits) the real transaction
            trans = conn.begin()
            for i in idxs:
                n0 = len(self.cap.rows)
                res = _exec_one(conn, built[i])
                sql = [(s, _norm_params(p), bool(m)) for s, p, m in self.cap.rows[n0:]]
                out[i] = (sql, self.hits[n0:], res)
            trans.rollback()
        return out

    def close(self):
        event.remove(self.eng, "before_cursor_execute", self._fn)
        self.cap.close()
        self.eng.dispose()


# ------------------------------------------------------------------ key soundness
def _exec_shape(b):
    """what besides the statement key selects the cached compiled form: column keys and executemany"""
    p = b.params
    if isinstance(p, list):
        return (tuple(sorted(p[0])), True)
    if isinstance(p, dict):
        return (tuple(sorted(p)), False)
    return ((), False)


def _fresh(stmt, dialect, colkeys, many, key):
    """compile the way ClauseElement._compile_w_cache does on a cache miss"""
    try:
        with warnings.catch_warnings():
            warnings.simplefilter("ignore")
            c = stmt._compiler(dialect, cache_key=key, column_keys=list(colkeys), for_executemany=many, schema_translate_map=None)
        return c, None
    except sa_exc.SQLAlchemyError as e:
        return None, (type(e).__name__, str(e)[:150])


def _shape(c):
    """everything about a compiled form that must be shared by statements with equal keys"""
    binds = []
    for bp, name in c.bind_names.items():
        binds.append((name, type(bp.type).__name__, repr(bp.type), bool(bp.expanding), bool(bp.literal_execute)))
    binds.sort()
    return {
        "sql": str(c),
        "positiontup": list(c.positiontup) if c.positiontup is not None else None,
        "binds": binds,
        "post_compile": sorted(c.bind_names[b] for b in c.post_compile_params) if getattr(c, "post_compile_params", None) else [],
        "literal_execute": sorted(c.bind_names[b] for b in c.literal_execute_params) if getattr(c, "literal_execute_params", None) else [],
    }


def _params_of(c, params, extracted=None, collected=None):
    """as DefaultExecutionContext._init_compiled calls it: the statement's own .params() values travel in the cache
    key (CacheKey.params) and are handed over as _collected_params"""
    ps = params if isinstance(params, list) else [params]
    out = []
    for p in ps:
        try:
            d = c.construct_params(p, extracted_parameters=extracted, escape_names=False, _collected_params=collected)
            out.append(sorted((str(k), repr(v)) for k, v in d.items()))
        except sa_exc.SQLAlchemyError as e:
            out.append(("error", type(e).__name__, str(e)[:45]))
    return out


def _pinned_fam(desc):
    found = []
    G._walk(desc, lambda n: found.append(n[5]) or True if n[0] == "tc" and len(n) > 5 and n[5] else False)
    return found[0] if found else None


def _key_soundness(built, dialects, ctx_classes, descs=None):
    groups = {}
    keys = []
    for i, b in enumerate(built):
        try:
            k = b.stmt._generate_cache_key()
        except sa_exc.SQLAlchemyError:
            k = None
        keys.append(k)
        if k is None:
            ctx_classes.add("no-cache-key")
            continue
        groups.setdefault((k.key, _exec_shape(b)), []).append(i)
    pairs = 0
    for (kk, (colkeys, many)), members in groups.items():
        if len(members) < 2:
            continue
        i = members[0]
        for dname, dialect in dialects:
            c1, e1 = _fresh(built[i].stmt, dialect, colkeys, many, keys[i])
            s1 = _shape(c1) if c1 is not None else e1
            for j in members[1:]:
                pairs += 1
                c2, e2 = _fresh(built[j].stmt, dialect, colkeys, many, keys[j])
                s2 = _shape(c2) if c2 is not None else e2
                if s1 != s2:
                    pf = _pinned_fam(descs[i]) if descs else None
                    if pf:
                        raise Violation(
                            {"V": "C02/key-soundness/with_variant-mapping-not-in-key", "E": "C02/key-soundness/enum-name-and-members-not-in-key"}[pf],
                            f"statements {i} and {j} differ only in a type ({'the sqlite variant of with_variant()' if pf == 'V' else 'Enum name / members'}), "
                            f"have equal cache keys and compile differently on {dname}",
                            observed=s2, expected=s1,
                        )
                    field = "error" if not (isinstance(s1, dict) and isinstance(s2, dict)) else next(f for f in s1 if s1[f] != s2[f])
                    raise Violation(
                        f"C02/key-soundness/equal-keys-different-{field}",
                        f"statements {i} and {j} of the history have equal cache keys but compile differently on {dname} ({field})",
                        observed=s2, expected=s1,
                    )
                if c1 is None:
                    continue
                # the cached form of statement i, used for statement j, must yield j's values
                want = _params_of(c2, built[j].params, collected=keys[j].params)
                got = _params_of(c1, built[j].params, extracted=keys[j].bindparams, collected=keys[j].params)
                if got != want and any(isinstance(g, tuple) and g[0] == "error" and "A value is required" in g[-1] for g in got) and not any(
                    isinstance(w, tuple) and w[0] == "error" for w in want
                ):
                    raise Violation(
                        "C02/cache-hit/required-flag-from-cached-bindparam",
                        f"compiled form of statement {i} (its named bind has no value of its own: the value came through .params()) used for statement {j}, whose "
                        f"bindparam carries a value / callable_: 'A value is required' - the required flag is read from the cached statement's bindparam ({dname})",
                        observed=got, expected=want,
                    )
                if got != want:
                    raise Violation(
                        "C02/key-soundness/extracted-parameters-wrong",
                        f"compiled form of statement {i} + extracted parameters of statement {j} does not give the values of statement {j} ({dname})",
                        observed=got, expected=want,
                    )
    return pairs, keys


# ------------------------------------------------------------------ the check
def check_history(case, ctx):
    excluded = []
    sibs = _sib_descs(case, excluded)
    for _ in [x for x in excluded if x == "params"]:
        ctx.exclude("statement.params() as bind source next to value / callable_ siblings replaced by an execute()-time parameter (known finding C02/cache-hit/required-flag-from-cached-bindparam)")
    for _ in [x for x in excluded if x != "params"]:
        ctx.exclude("type pair reproducing a known finding (with_variant mapping / Enum name+members not in the cache key) replaced by a regular type family")
    n = len(sibs)
    classes = set()
    perm = [p % n for p in case["perm"]]
    perm = list(dict.fromkeys(perm + list(range(n))))  # a permutation of 0..n-1 led by the drawn prefix
    engines = []
    try:
        import sqlalchemy.exc as _saexc

        try:
            _build_all(case, sibs)
        except _saexc.InvalidRequestError as e:
            if "Please use unique names for explicit labels" in str(e):
                # the generated statement re-uses one explicit label name in a subquery/CTE: documented construction-time
                # rejection, not a cache question (generator domain, not a violation)
                ctx.note(case, False, classes=["rejected:duplicate-explicit-label"])
                return
            raise
        e_off = _Engine(case["data"], query_cache_size=0)
        engines.append(e_off)
        e_cold = _Engine(case["data"])
        engines.append(e_cold)
        e_warm = _Engine(case["data"])
        engines.append(e_warm)

        try:
            r_off = e_off.run(_build_all(case, sibs))
            r_cold = e_cold.run(_build_all(case, sibs))
            e_warm.run(_build_all(case, sibs), order=perm)  # warm-up with sibling objects of its own, rolled back
            r_warm = e_warm.run(_build_all(case, sibs))
        except _TooLarge:
            ctx.note(case, False, classes=["rejected:result-over-%d-rows" % ROW_CAP])
            return

        # ---- classification
        hit_cold = sum(1 for r in r_cold if "CACHE_HIT" in r[1])
        hit_warm = sum(1 for r in r_warm if "CACHE_HIT" in r[1])
        off_modes = {h for r in r_off for h in r[1]}
        togsets = {t for _, t, _, _ in sibs}
        one_apart = any(len(set(a) ^ set(b)) == 1 for a in togsets for b in togsets)
        # a hit always carries other literal values than the statement that populated the cache (tags are unique per sibling)
        nontrivial = bool(hit_cold or hit_warm) or one_apart
        for (bi, togs, desc, sb), r in zip(sibs, r_cold):
            classes.add("kind:" + desc["k"] + (":orm" if desc.get("orm") else ""))
            for t in togs:
                classes.add("toggle:" + t)
            if desc.get("xjoin") and desc.get("joins") and not desc.get("orm") and ("outer0" in togs or "full0" in togs):
                classes.add("explicit-Join-flag-toggled")
            classes.add("result:" + r[2][0])
        classes.add("hits-cold:%s" % ("0" if not hit_cold else "1-3" if hit_cold <= 3 else "4+"))
        classes.add("hits-warm:%s" % ("0" if not hit_warm else "1-3" if hit_warm <= 3 else "4+"))
        if one_apart:
            classes.add("one-toggle-apart")
        # nested statement-level .params(): one bind name valued on several nesting levels
        ats = {}
        for b_, t, d, _ in sibs:
            if d.get("np"):
                classes.add("nested-params")
                a_ = d["np"]["at"] % 8
                ats.setdefault(b_, set()).add(a_)
                if bin(a_).count("1") >= 2:
                    classes.add("nested-params:several-levels-valued")
        if any(len(v) >= 2 for v in ats.values()):
            classes.add("nested-params:levels-toggled")
        # bind-source siblings: same base whose named bind gets its value in different ways (equal cache keys)
        for bi in range(len(case["bases"])):
            srcs = []
            for b_, t, d, _ in sibs:
                if b_ == bi:
                    found = []
                    G._walk(d, lambda n_: found.append(n_[2] if len(n_) > 2 else 0) or True if n_[0] == "bp" else False)
                    if found:
                        srcs.append(found[0] % 4)
            if len(set(srcs)) >= 2:
                classes.add("bind-source-toggled")
                if any(a != 2 and 2 in srcs[i + 1:] for i, a in enumerate(srcs)):
                    classes.add("bind-source:non-callable-then-callable")
        # type-argument siblings: same base executed with both members of a type-argument pair
        for bi in range(len(case["bases"])):
            with_t = [d for b_, t, d, _ in sibs if b_ == bi and "type_arg" in t]
            without = [d for b_, t, d, _ in sibs if b_ == bi and "type_arg" not in t]
            if with_t and without:
                classes.add("type-arg-toggled")
                tcs = []
                G._walk(without[0], lambda n_: tcs.append(n_) or True if n_[0] == "tc" else False)
                if tcs and tcs[0][3] % G.N_FAMS < len(G.NUM_FAMS) and tcs[0][4] % 4 in (0, 1):
                    classes.add("type-arg-toggled:absent-vs-falsy")
        if "CACHE_HIT" in off_modes or "CACHE_MISS" in off_modes:
            raise Violation("C02/control/cache-not-disabled", f"engine with query_cache_size=0 reported {sorted(map(str, off_modes))}")

        # ---- (2) key soundness on fresh objects
        built = _build_all(case, sibs)
        pairs, keys = _key_soundness(built, [("sqlite", e_cold.eng.dialect), ("postgresql", PG)], classes, [d for _, _, d, _ in sibs])
        if pairs:
            classes.add("equal-key-pairs")
        ctx.note(case, nontrivial, classes=classes)
        ctx.info("equal_key_pairs", pairs)
        ctx.info("cache_hits_cold", hit_cold)
        ctx.info("cache_hits_warm", hit_warm)
        ctx.info("statements", n)

        # ---- (1) differential
        for label, other in (("cold", r_cold), ("warm", r_warm)):
            for i in range(n):
                ref, got = r_off[i], other[i]
                kind = sibs[i][2]["k"]
                if [s[0] for s in ref[0]] != [s[0] for s in got[0]]:
                    raise Violation(
                        f"C02/differential/{label}/sql-text/{kind}",
                        f"statement {i}: cursor-level SQL differs between cache disabled and {label} cache (cache state {[h for h in got[1] if h][:2]})",
                        observed=[s[0] for s in got[0]], expected=[s[0] for s in ref[0]],
                    )
                if ref[0] != got[0]:
                    raise Violation(
                        f"C02/differential/{label}/parameters/{kind}",
                        f"statement {i}: cursor-level parameters differ between cache disabled and {label} cache (cache state {[h for h in got[1] if h][:2]})",
                        observed=[s[1:] for s in got[0]], expected=[s[1:] for s in ref[0]],
                    )
                if not _cmp_result(ref[2], got[2]):
                    raise Violation(
                        f"C02/differential/{label}/rows/{kind}",
                        f"statement {i}: result differs between cache disabled and {label} cache (cache state {[h for h in got[1] if h][:2]})",
                        observed=repr(got[2])[:1500], expected=repr(ref[2])[:1500],
                    )
    finally:
        for e in engines:
            e.close()


_sib = st.fixed_dictionaries(
    {
        "b": st.integers(0, 1),
        "m": st.integers(0, 4),
        "vals": st.lists(st.integers(0, 9), min_size=1, max_size=4),
        "ord": st.integers(0, 5),
    }
)


@st.composite
def _histories(draw):
    bases = draw(st.lists(st.one_of(G.select_desc(1), G.select_desc(1), G.dml_desc(1)), min_size=1, max_size=2))
    menu = draw(st.lists(st.lists(st.integers(0, 40), min_size=1, max_size=2), min_size=2, max_size=5))
    menu[0] = []  # the unmodified base is always on the menu
    sibs = draw(st.lists(_sib, min_size=5, max_size=24))
    return {
        "data": draw(G.data_strategy),
        "bases": bases,
        "menu": menu,
        "sibs": sibs,
        "perm": draw(st.lists(st.integers(0, 30), max_size=8)),
        "nocache": draw(st.sampled_from([0, 0, 0, 0, 0, 0, 1])),
        "typearg": draw(st.sampled_from([0, 1, 1, 1])),
        "bindsrc": draw(st.sampled_from([0, 1, 1, 1])),
        "npcycle": draw(st.sampled_from([0, 1, 1, 1])),
    }


def subs(tier):
    return [Generated("history", check_history, strategy=_histories(), quick=1200, thorough=20000)]
