"""C15 - reflection reproduces the schema that was created (SQLite live; MySQL SHOW CREATE TABLE parser as a pure round trip).

sqlite   generated schema (1-3 tables, main + ATTACHed schema, quoted names, composite PK/FK with ON DELETE/UPDATE, named and
         unnamed UNIQUE, unique / multi-column / partial / expression indexes, server defaults with quotes, CHECKs)
         -> create_all -> Inspector.  (1) Inspector output == the generated definition under the documented normalisation
         (SQLite type affinity, default text modulo outer parentheses).  (2) fixed point: MetaData.reflect -> create_all into
         a fresh database -> Inspector output identical.
mysql    DDL compiled by the MySQL dialect for a generated table is fed to MySQLTableDefinitionParser; columns / keys /
         foreign keys it reports must equal the generated definition.
"""
from __future__ import annotations

import re
import warnings

from hypothesis import strategies as st

from vf.api import Generated, HarnessError, Violation

PROPERTY = "C15"
LEVEL = "exploration"
RULE = (
    "sqlite: 1-3 tables (each in main or an ATTACHed schema), 1-6 columns of 13 types, names from 8 families (plain, MixedCase, with space, reserved word, leading digit, "
    "'$', dash/dot, non-ascii), single/composite/absent PK (named or not, optional AUTOINCREMENT), 0-2 UNIQUE constraints (named/unnamed/column-level), 0-3 indexes "
    "(unique, multi-column, partial with quotes in the predicate, expression), 0-2 CHECKs with nested parentheses and quoted text, 0-2 FKs (1-2 columns, self/other table, "
    "ON DELETE/UPDATE, DEFERRABLE/INITIALLY, named or not), server defaults (ints, strings with quotes/parens, expressions). "
    "Non-trivial: some table has a composite FK, a named UNIQUE plus an index on the same columns, an expression/partial index, a quoted identifier, or a default containing a quote; "
    "mysql: one table, 1-6 columns, PK, keys, FKs compiled by the MySQL dialect; non-trivial: >=1 key or FK besides the PK; distinct = canonical JSON of the case"
)
ASSUMPTIONS = [
    "scoped to SQLite (only live backend); PostgreSQL/MariaDB catalog queries are not exercised; the MySQL part checks only the SHOW CREATE TABLE text parser against DDL produced by SQLAlchemy's own MySQL compiler (server canonicalisation of the text is not reproduced)",
    "types are compared by SQLite affinity (datatype3.html rules applied to the rendered type) in oracle 1 and by repr in the fixed point",
    "expression indexes are documented as not reflected (warning) and are expected to be skipped",
    "UNIQUE constraints are generated on distinct column tuples different from the PK (SQLite shares the automatic index otherwise)",
    "identifiers containing a double quote, newline or parenthesis are never generated (known finding registered under C06: SQLite constraint names are recovered by regex over the CREATE TABLE text)",
    "known findings excluded by construction and pinned in findings/C15: '$' in unquoted table/UNIQUE/FK/constraint identifiers; '.' in names referred to by a FK (fixed point); expression defaults that start with a quote (fixed point); string defaults containing 'CHECK ('; MySQL parser: expression default with nested parentheses, names containing a back-quote",
    "mysql_parser: the SHOW CREATE TABLE text is this check's rendition of the server's documented layout (two-space indent, back-quoted names, lower-case type keyword, 'decimal(10,2)'); USING is parsed but not consumed by the dialect and is not compared",
]

WORDS = ["alpha", "beta", "gamma", "delta", "eps", "zeta", "eta", "theta", "iota", "kappa"]
RESERVED = ["nothing", "returning", "select", "order", "group", "table", "index", "check", "unique", "constraint", "primary", "references", "default", "key", "foreign", "where", "on"]
STR_DEFAULTS = ["abc", "it's", 'say "hi"', "(paren)", "a,b", "100%", "", "x) y (", "unique key"]
EXPR_DEFAULTS = ["CURRENT_TIMESTAMP", "(1 + 2)", "abs(-7)", "NULL", "-3", "1.5", "(length('a)b'))"]
ACTIONS = [None, "CASCADE", "SET NULL", "RESTRICT", "NO ACTION", "SET DEFAULT"]
CHECKS = ["{c} > 5", "{c} IS NOT NULL AND ({c} < 100 OR {c} = 7)", "{c} != ')'", "length({c}) > 2", "{c} IN (1, 2, (3))", "{c} != 'it''s (' AND {c} != '\"'", "({c} >= 0)"]
WHERES = ["{c} > 5", "{c} IS NOT NULL", "{c} != 'x) where y'", "{c} < 10 AND {c} > 1", "{c} != 'it''s'"]


def mkname(spec, pinned=False):
    kind, i = spec[0] % 9, spec[1]
    w = WORDS[i % len(WORDS)]
    sfx = str(i // len(WORDS)) if i >= len(WORDS) else ""
    if kind == 0:
        return w + sfx
    if kind == 1:
        return w.capitalize() + "Case" + sfx
    if kind == 2:
        return w + " col" + (" " + sfx if sfx else "")
    if kind == 3:
        return RESERVED[i % len(RESERVED)]
    if kind == 4:
        return str(1 + i % 9) + w
    if kind == 5:
        return w + "$" + sfx + "x"
    if kind == 6:
        return w + "-" + sfx + ".b"
    if kind == 7:
        return "naïve_" + w + sfx
    if kind == 8:
        return (w + sfx) if not pinned else spec[2]
    raise HarnessError("name kind")


def _types():
    from sqlalchemy import BigInteger, Boolean, Date, DateTime, Float, Integer, LargeBinary, Numeric, SmallInteger, String, Text, Time, Unicode

    return [Integer, lambda: String(30), String, Text, Float, lambda: Numeric(10, 2), Boolean, Date, DateTime, LargeBinary, BigInteger, SmallInteger, lambda: Unicode(20), Time]


def affinity(typestr):
    """SQLite column affinity of a declared type (https://www.sqlite.org/datatype3.html 3.1)"""
    t = typestr.upper()
    if "INT" in t:
        return "INTEGER"
    if "CHAR" in t or "CLOB" in t or "TEXT" in t:
        return "TEXT"
    if "BLOB" in t or not t.strip():
        return "BLOB"
    if "REAL" in t or "FLOA" in t or "DOUB" in t:
        return "REAL"
    return "NUMERIC"


def strip_parens(s):
    if s is None:
        return None
    s = s.strip()
    while s.startswith("(") and s.endswith(")"):
        depth, ok = 0, True
        in_q = None
        for i, ch in enumerate(s):
            if in_q:
                if ch == in_q:
                    in_q = None
                continue
            if ch in "'\"":
                in_q = ch
            elif ch == "(":
                depth += 1
            elif ch == ")":
                depth -= 1
                if depth == 0 and i != len(s) - 1:
                    ok = False
                    break
        if not ok:
            break
        s = s[1:-1].strip()
    return s


# ----------------------------------------------------------------------------- normalise the case into a definition
def _cname(spec, pinned, ctx):
    """constraint names: '$' family remapped (known finding, CONSTRAINT name regexes use \\w+)"""
    if spec is None:
        return None
    spec = list(spec)
    if spec[0] % 9 == 5 and not pinned:
        if ctx:
            ctx.exclude("'$' in a PK/UNIQUE/FK constraint name (known finding: SQLite reflection regexes treat unquoted identifiers as [a-z0-9_]+)")
        spec[0] = 0
    return mkname(spec, pinned)


def normalise(case, ctx=None):
    """-> list of table definitions with concrete names; every index is taken modulo the available count"""
    pinned = bool(case.get("pinned"))
    tabs = []
    used_t = set()
    for ti, t in enumerate(case["tables"][:3]):
        schema = "att" if t.get("schema") else None
        nspec = list(t["name"])
        if nspec[0] % 9 == 5 and not pinned:
            if ctx:
                ctx.exclude("'$' in a table name (known finding: SQLite reflection regexes treat unquoted identifiers as [a-z0-9_]+)")
            nspec[0] = 0
        name = mkname(nspec, pinned)
        while (schema, name.lower()) in used_t:
            name += "q"
        used_t.add((schema, name.lower()))
        cols, seen = [], set()
        for c in t["cols"][:6]:
            cn = mkname(c[0], pinned)
            if cn.lower() in seen:
                continue
            seen.add(cn.lower())
            cols.append({"name": cn, "nk": c[0][0] % 9, "type": c[1] % 14, "nullable": bool(c[2]), "default": c[3], "unique": bool(c[4])})
        if not cols:
            cols.append({"name": "c0", "nk": 0, "type": 0, "nullable": True, "default": None, "unique": False})
        n = len(cols)
        pk = list(dict.fromkeys(x % n for x in t.get("pk", [])))[:2]
        d = {"name": name, "schema": schema, "cols": cols, "pk": pk, "pkname": _cname(t["pkname"], pinned, ctx) if t.get("pkname") and pk else None,
             "autoinc": bool(t.get("autoinc")) and len(pk) == 1 and cols[pk[0]]["type"] == 0, "uqs": [], "ixs": [], "cks": [], "fks": [], "ti": ti}
        tuples = {tuple(pk)} if pk else set()
        for c_i, c in enumerate(cols):
            if c["unique"]:
                if (c_i,) in tuples:
                    c["unique"] = False
                else:
                    tuples.add((c_i,))
        for u in t.get("uqs", [])[:2]:
            cs = tuple(dict.fromkeys(x % n for x in u[0]))[:3]
            if not cs or cs in tuples:
                continue
            tuples.add(cs)
            d["uqs"].append({"cols": list(cs), "name": _cname(u[1], pinned, ctx) if u[1] else None})
        for k, ix in enumerate(t.get("ixs", [])[:3]):
            cs = list(dict.fromkeys(x % n for x in ix[0]))[:3] or [0]
            d["ixs"].append({"cols": cs, "unique": bool(ix[1]), "where": (ix[2] % len(WHERES)) if ix[2] is not None else None, "expr": bool(ix[3]),
                             "name": f"ix{ti}_{k}_" + mkname(ix[4], pinned) if len(ix) > 4 and ix[4] else f"ix{ti}_{k}"})
        for k, ck in enumerate(t.get("cks", [])[:2]):
            d["cks"].append({"col": ck[0] % n, "text": ck[1] % len(CHECKS), "name": (mkname(ck[2], pinned) + f"_{ti}{k}") if ck[2] else None})
        tabs.append(d)
    # foreign keys: same-schema targets only (SQLite cannot reference another database)
    for ti, t in enumerate(case["tables"][:3]):
        d = tabs[ti]
        n = len(d["cols"])
        for k, fk in enumerate(t.get("fks", [])[:2]):
            cands = [x for x in tabs if x["schema"] == d["schema"]]
            tgt = cands[fk[1] % len(cands)]
            rcols = tgt["pk"] or [0]
            lcols = list(dict.fromkeys(x % n for x in fk[0]))[: len(rcols)]
            if len(lcols) < len(rcols):
                rcols = rcols[: len(lcols)]
            if any(x["cols"] == lcols and x["target"] == tgt["ti"] for x in d["fks"]):
                continue  # two identical FK constraints: not a meaningful schema
            d["fks"].append({"cols": lcols, "target": tgt["ti"], "tname": tgt["name"], "rcols": list(rcols), "ondelete": ACTIONS[fk[2] % len(ACTIONS)], "onupdate": ACTIONS[fk[3] % len(ACTIONS)],
                             "name": (_cname(fk[4], pinned, ctx) + f"_fk{ti}{k}") if fk[4] else None, "deferrable": [None, True, False][fk[5] % 3],
                             "initially": [None, "DEFERRED", "IMMEDIATE"][fk[6] % 3] if fk[5] % 3 else None})  # INITIALLY needs [NOT] DEFERRABLE in SQLite
    # known finding: '.' in the name of a column/table that a reflected FK refers to (the reflected FK target is a dotted string)
    if not pinned:
        for d in tabs:
            referred_cols = {x for other in tabs for f in other["fks"] if f["target"] == d["ti"] for x in f["rcols"]}
            is_target = any(f["target"] == d["ti"] for other in tabs for f in other["fks"])
            if is_target and "." in d["name"]:
                if ctx:
                    ctx.exclude("'.' in the name of a table/column referred to by a FK (known finding: reflected FK target string is split on dots)")
                d["name"] = d["name"].replace(".", "_d_")
            for ci in sorted(referred_cols):
                c = d["cols"][ci]
                if "." in c["name"]:
                    if ctx:
                        ctx.exclude("'.' in the name of a table/column referred to by a FK (known finding: reflected FK target string is split on dots)")
                    new = c["name"].replace(".", "_d_")
                    if new.lower() not in {x["name"].lower() for x in d["cols"]}:
                        c["name"] = new
    # known finding: '$' in identifiers that the regex-based parts of SQLite reflection must read (UNIQUE / FK column lists)
    if not pinned:
        for d in tabs:
            involved = set()
            for u in d["uqs"]:
                involved.update(u["cols"])
            for ci, c in enumerate(d["cols"]):
                if c["unique"]:
                    involved.add(ci)
            for f in d["fks"]:
                involved.update(f["cols"])
            for other in tabs:
                for f in other["fks"]:
                    if f["target"] == d["ti"]:
                        involved.update(f["rcols"])
            for ci in sorted(involved):
                c = d["cols"][ci]
                if c["nk"] == 5:
                    if ctx:
                        ctx.exclude("'$' in a UNIQUE/FK column name (known finding: SQLite reflection regexes treat unquoted identifiers as [a-z0-9_]+)")
                    new = c["name"].replace("$", "_s_")
                    if new.lower() not in {x["name"].lower() for x in d["cols"]}:
                        c["name"], c["nk"] = new, 0
    return tabs


def _default_clause(spec, pinned):
    from sqlalchemy import text

    if spec is None:
        return None, None
    kind, v = spec[0], spec[1]
    if kind == "int":
        return text(str(v)), str(v)
    if kind == "str":
        s = STR_DEFAULTS[v % len(STR_DEFAULTS)]
        return s, "'" + s.replace("'", "''") + "'"
    if kind == "expr":
        e = EXPR_DEFAULTS[v % len(EXPR_DEFAULTS)]
        return text(e), e
    if kind == "raw" and pinned:
        return text(v), v
    if kind == "rawstr" and pinned:
        return v, "'" + v.replace("'", "''") + "'"
    return None, None


def build(tabs, pinned=False):
    from sqlalchemy import CheckConstraint, Column, ForeignKeyConstraint, Index, MetaData, PrimaryKeyConstraint, Table, UniqueConstraint, func, text
    from sqlalchemy.dialects import sqlite

    q = sqlite.dialect().identifier_preparer.quote
    types = _types()
    md = MetaData()
    objs = []
    for d in tabs:
        cols = []
        for ci, c in enumerate(d["cols"]):
            sd, _ = _default_clause(c["default"], pinned)
            kw = {}
            if sd is not None:
                kw["server_default"] = sd
            if c["unique"]:
                kw["unique"] = True
            cols.append(Column(c["name"], types[c["type"]](), nullable=c["nullable"] and ci not in d["pk"], **kw))
        extra = []
        if d["pk"]:
            extra.append(PrimaryKeyConstraint(*[d["cols"][x]["name"] for x in d["pk"]], name=d["pkname"]))
        for u in d["uqs"]:
            extra.append(UniqueConstraint(*[d["cols"][x]["name"] for x in u["cols"]], name=u["name"]))
        for ck in d["cks"]:
            extra.append(CheckConstraint(CHECKS[ck["text"]].format(c=q(d["cols"][ck["col"]]["name"])), name=ck["name"]))
        for f in d["fks"]:
            tgt = tabs[f["target"]]
            prefix = (tgt["schema"] + "." if tgt["schema"] else "") + tgt["name"]
            from sqlalchemy import ForeignKey  # noqa

            # targets by Column object are resolved after all tables exist; use string spec with explicit refcolumns via table key
            extra.append(("fk", f, tgt))
        kw = {}
        if d["schema"]:
            kw["schema"] = d["schema"]
        if d["autoinc"]:
            kw["sqlite_autoincrement"] = True
        t = Table(d["name"], md, *cols, *[e for e in extra if not isinstance(e, tuple)], **kw)
        objs.append((t, [e for e in extra if isinstance(e, tuple)]))
    for (t, fks), d in zip(objs, tabs):
        for _, f, tgt in fks:
            tt = objs[f["target"]][0]
            kw = {k: f[k] for k in ("ondelete", "onupdate", "name", "deferrable", "initially") if f[k] is not None}
            t.append_constraint(ForeignKeyConstraint([t.c[d["cols"][x]["name"]] for x in f["cols"]], [tt.c[tgt["cols"][x]["name"]] for x in f["rcols"]], **kw))
        for ix in d["ixs"]:
            kw = {}
            c0 = d["cols"][ix["cols"][0]]["name"]
            if ix["where"] is not None:
                kw["sqlite_where"] = text(WHERES[ix["where"]].format(c=q(c0)))
            if ix["expr"]:
                Index(ix["name"], func.lower(t.c[c0]), unique=ix["unique"], **kw)
            else:
                Index(ix["name"], *[t.c[d["cols"][x]["name"]] for x in ix["cols"]], unique=ix["unique"], **kw)
    return md, [o[0] for o in objs]


# ----------------------------------------------------------------------------- expectation (oracle 1)
def expected(tabs, tables, pinned=False):
    from sqlalchemy.dialects import sqlite

    dia = sqlite.dialect()
    q = dia.identifier_preparer.quote
    out = {}
    for d, t in zip(tabs, tables):
        e = {}
        e["cols"] = []
        for ci, c in enumerate(d["cols"]):
            _, dtext = _default_clause(c["default"], pinned)
            rendered = dia.type_compiler_instance.process(t.c[c["name"]].type)
            pkpos = d["pk"].index(ci) + 1 if ci in d["pk"] else 0
            e["cols"].append((c["name"], affinity(rendered), bool(c["nullable"] and ci not in d["pk"]), strip_parens(dtext), pkpos))
        # sqlite_autoincrement renders "PRIMARY KEY AUTOINCREMENT" inline (no constraint name) unless the column also carries a FK
        inline_pk = d["autoinc"] and not any(d["pk"][0] in f["cols"] for f in d["fks"])
        named_pk = d["pkname"] if not inline_pk else None
        e["pk"] = ([d["cols"][x]["name"] for x in d["pk"]], named_pk if d["pk"] else None)
        fks = []
        for f in d["fks"]:
            tgt = tabs[f["target"]]
            opts = {}
            if f["ondelete"] and f["ondelete"] != "NO ACTION":
                opts["ondelete"] = f["ondelete"]
            if f["onupdate"] and f["onupdate"] != "NO ACTION":
                opts["onupdate"] = f["onupdate"]
            if f["deferrable"] is not None:
                opts["deferrable"] = f["deferrable"]
            if f["initially"] is not None:
                opts["initially"] = f["initially"]
            fks.append((f["name"], tuple(d["cols"][x]["name"] for x in f["cols"]), d["schema"], tgt["name"], tuple(tgt["cols"][x]["name"] for x in f["rcols"]), tuple(sorted(opts.items()))))
        e["fks"] = sorted(fks, key=repr)
        uqs = [(u["name"], tuple(d["cols"][x]["name"] for x in u["cols"])) for u in d["uqs"]]
        uqs += [(None, (c["name"],)) for c in d["cols"] if c["unique"]]
        e["uqs"] = sorted(uqs, key=repr)
        ixs = []
        for ix in d["ixs"]:
            if ix["expr"]:
                continue
            c0 = d["cols"][ix["cols"][0]]["name"]
            ixs.append((ix["name"], tuple(d["cols"][x]["name"] for x in ix["cols"]), int(ix["unique"]), WHERES[ix["where"]].format(c=q(c0)) if ix["where"] is not None else None))
        e["ixs"] = sorted(ixs, key=repr)
        e["cks"] = sorted([(ck["name"], CHECKS[ck["text"]].format(c=q(d["cols"][ck["col"]]["name"]))) for ck in d["cks"]], key=repr)
        e["n_expr_ix"] = any(ix["expr"] for ix in d["ixs"])
        out[(d["schema"], d["name"])] = e
    return out


# ----------------------------------------------------------------------------- observation
def observe(conn, keys, full=False):
    """Inspector output in a canonical comparable form; full=True keeps repr(type) and raw default (fixed-point comparison)"""
    from sqlalchemy import inspect
    from sqlalchemy.dialects import sqlite

    dia = sqlite.dialect()
    insp = inspect(conn)
    out = {}
    nwarn = {}
    for schema, name in keys:
        o = {}
        with warnings.catch_warnings(record=True) as w:
            warnings.simplefilter("always")
            cols = insp.get_columns(name, schema=schema)
            if full:
                o["cols"] = [(c["name"], repr(c["type"]), c["nullable"], c["default"], c["primary_key"]) for c in cols]
            else:
                o["cols"] = [(c["name"], affinity(dia.type_compiler_instance.process(c["type"])), c["nullable"], strip_parens(c["default"]), c["primary_key"]) for c in cols]
            pk = insp.get_pk_constraint(name, schema=schema)
            o["pk"] = (list(pk["constrained_columns"]), pk["name"])
            o["fks"] = sorted([(f["name"], tuple(f["constrained_columns"]), f["referred_schema"], f["referred_table"], tuple(f["referred_columns"]), tuple(sorted(f.get("options", {}).items())))
                               for f in insp.get_foreign_keys(name, schema=schema)], key=repr)
            o["uqs"] = sorted([(u["name"], tuple(u["column_names"])) for u in insp.get_unique_constraints(name, schema=schema)], key=repr)
            ixs = []
            for ix in insp.get_indexes(name, schema=schema):
                wh = ix.get("dialect_options", {}).get("sqlite_where")
                ixs.append((ix["name"], tuple(ix["column_names"]), int(ix["unique"]), str(wh) if wh is not None else None))
            o["ixs"] = sorted(ixs, key=repr)
            o["cks"] = sorted([(c["name"], c["sqltext"]) for c in insp.get_check_constraints(name, schema=schema)], key=repr)
        skipped = [x for x in w if "Skipped unsupported reflection of expression-based index" in str(x.message)]
        other = [str(x.message) for x in w if x not in skipped]
        o["n_expr_ix"] = bool(skipped)  # (the warning repeats for every internal get_indexes call)
        o["warnings"] = other
        out[(schema, name)] = o
    return out


def _engine():
    from sqlalchemy import create_engine, event
    from sqlalchemy.pool import StaticPool

    eng = create_engine("sqlite://", poolclass=StaticPool)

    @event.listens_for(eng, "connect")
    def _attach(dbapi_connection, rec):
        dbapi_connection.execute("ATTACH DATABASE ':memory:' AS att")

    return eng


ASPECTS = ["cols", "pk", "fks", "uqs", "ixs", "cks", "n_expr_ix"]


def _classify(aspect, exp, got, d):
    """root-cause refinement of a mismatch"""
    names = [d["name"], d["pkname"] or ""] + [c["name"] for c in d["cols"]] + [u["name"] or "" for u in d["uqs"]] + [f["name"] or "" for f in d["fks"]] + [f.get("tname", "") for f in d["fks"]]
    if aspect in ("fks", "uqs", "pk") and any("$" in x for x in names):
        return "dollar-in-unquoted-identifier"
    if aspect == "cks" and len(got) > len(exp) and any(c["default"] and c["default"][0] in ("str", "rawstr") and "CHECK" in str(c["default"][1]).upper() for c in d["cols"]):
        return "ck/phantom-check-in-string-literal"
    if aspect == "fks" and len(exp) == len(got):
        for a, b in zip(exp, got):
            if a[1:5] == b[1:5] and (a[0] != b[0] or a[5] != b[5]):
                return "fk/name-or-options-lost"
    if aspect == "uqs" and len(got) < len(exp):
        return "uq/constraint-missing"
    if aspect == "uqs":
        return "uq/wrong-name-or-columns"
    if aspect == "cks":
        return "ck/wrong-text-or-name" if len(got) == len(exp) else "ck/count"
    if aspect == "cols":
        for a, b in zip(exp, got):
            for i, f in enumerate(["name", "type-affinity", "nullable", "default", "primary_key"]):
                if a[i] != b[i]:
                    return "column/" + f
        return "column/count"
    return aspect


def check_sqlite(case, ctx):
    tabs = normalise(case, ctx)
    pinned = bool(case.get("pinned"))
    md, tables = build(tabs, pinned)
    keys = [(d["schema"], d["name"]) for d in tabs]
    exp = expected(tabs, tables, pinned)
    # classification
    quoted_kinds = {1, 2, 3, 4, 6, 7}
    nontrivial = False
    classes = set()
    for d in tabs:
        if any(len(f["cols"]) > 1 for f in d["fks"]):
            classes.add("composite-fk")
        if any(u["name"] and any(ix["cols"] == u["cols"] and not ix["expr"] for ix in d["ixs"]) for u in d["uqs"]):
            classes.add("named-uq+index-same-cols")
        if any(ix["expr"] for ix in d["ixs"]):
            classes.add("expression-index")
        if any(ix["where"] is not None for ix in d["ixs"]):
            classes.add("partial-index")
        if any(c["nk"] in quoted_kinds for c in d["cols"]):
            classes.add("quoted-identifier")
        if any(c["default"] and c["default"][0] == "str" and "'" in STR_DEFAULTS[c["default"][1] % len(STR_DEFAULTS)] for c in d["cols"]):
            classes.add("default-with-quote")
        if d["schema"]:
            classes.add("attached-schema")
        if d["fks"]:
            classes.add("fk")
        if any(f["ondelete"] or f["onupdate"] for f in d["fks"]):
            classes.add("fk-actions")
        if d["cks"]:
            classes.add("check")
        if d["uqs"]:
            classes.add("unique")
        if len(d["pk"]) > 1:
            classes.add("composite-pk")
    nontrivial = bool(classes & {"composite-fk", "named-uq+index-same-cols", "expression-index", "partial-index", "quoted-identifier", "default-with-quote"})
    ctx.note(case, nontrivial, classes=classes)

    e1 = _engine()
    e2 = _engine()
    try:
        with e1.connect() as conn:
            md.create_all(conn)
            conn.commit()
            got = observe(conn, keys)
            for d in tabs:
                k = (d["schema"], d["name"])
                if got[k]["warnings"] and "could not be located in PRAGMA" in got[k]["warnings"][0] and _classify("fks", [], [], d) == "dollar-in-unquoted-identifier":
                    raise Violation("C15/reflect/dollar-in-unquoted-identifier", f"table {k}: {got[k]['warnings'][0]}", observed=got[k]["warnings"])
                if got[k]["warnings"]:
                    raise Violation("C15/reflect/unexpected-warning", f"table {k}: {got[k]['warnings'][0]}", observed=got[k]["warnings"])
                for a in ASPECTS:
                    if got[k][a] != exp[k][a]:
                        raise Violation(f"C15/reflect/{_classify(a, exp[k][a], got[k][a], d)}", f"table {k}: Inspector {a} differs from the created definition: got {got[k][a]!r}, created {exp[k][a]!r}",
                                        observed=got[k][a], expected=exp[k][a])
            # fixed point
            full1 = observe(conn, keys, full=True)
            from sqlalchemy import MetaData

            md2 = MetaData()
            with warnings.catch_warnings():
                warnings.simplefilter("ignore")  # the expression-index warning is repeated here
                md2.reflect(conn)
                if any(d["schema"] for d in tabs):
                    md2.reflect(conn, schema="att")
        if sorted(md2.tables) != sorted((d["schema"] + "." if d["schema"] else "") + d["name"] for d in tabs):
            raise Violation("C15/fixedpoint/tables", f"MetaData.reflect found {sorted(md2.tables)}", observed=sorted(md2.tables))
        with e2.connect() as conn2:
            from sqlalchemy import exc as sa_exc

            try:
                md2.create_all(conn2)
            except sa_exc.NoReferencedTableError as e:
                dotted = any("." in tabs[f["target"]]["name"] or any("." in tabs[f["target"]]["cols"][x]["name"] for x in f["rcols"]) for d in tabs for f in d["fks"])
                if dotted:
                    raise Violation("C15/fixedpoint/fk-target-name-with-dot", f"reflected FK cannot be resolved because the referred table/column name contains a dot: {e}", observed=str(e)[:400])
                raise
            except sa_exc.OperationalError as e:
                if "syntax error" in str(e) and re.search(r"DEFAULT '[^\n]*' \|\|", str(e)):
                    raise Violation("C15/fixedpoint/quoted-expression-default-not-parenthesised",
                                    "an expression default that starts with a quote is reflected without its parentheses and re-created as DEFAULT 'a' || 'b' (syntax error)", observed=str(e)[:600])
                raise
            conn2.commit()
            full2 = observe(conn2, keys, full=True)
        for d in tabs:
            k = (d["schema"], d["name"])
            for a in ASPECTS[:-1]:
                if full1[k][a] != full2[k][a]:
                    raise Violation(f"C15/fixedpoint/{_classify(a, full1[k][a], full2[k][a], d)}", f"table {k}: reflect -> create_all -> reflect changed {a}: first {full1[k][a]!r}, second {full2[k][a]!r}",
                                    observed=full2[k][a], expected=full1[k][a])
    finally:
        e1.dispose()
        e2.dispose()


# ----------------------------------------------------------------------------- strategy
_nk = st.sampled_from([0, 0, 1, 2, 3, 4, 5, 6, 7])
_name = st.tuples(_nk, st.integers(0, 29)).map(list)
_optname = st.one_of(st.none(), _name)
_default = st.one_of(st.none(), st.none(), st.tuples(st.just("int"), st.integers(-5, 99)).map(list), st.tuples(st.just("str"), st.integers(0, 8)).map(list),
                     st.tuples(st.just("expr"), st.integers(0, 6)).map(list))
_ci = st.integers(0, 5)


@st.composite
def _schemas(draw):
    tables = []
    for ti in range(draw(st.integers(1, 3))):
        cols = [[draw(_name), draw(st.integers(0, 13)), int(draw(st.booleans())), draw(_default), int(draw(st.integers(0, 5)) == 0)] for _ in range(draw(st.integers(1, 6)))]
        t = {"name": draw(_name), "schema": int(draw(st.integers(0, 3)) == 0), "cols": cols,
             "pk": draw(st.lists(_ci, min_size=0, max_size=2)), "pkname": draw(_optname), "autoinc": draw(st.integers(0, 4)) == 0,
             "uqs": [[draw(st.lists(_ci, min_size=1, max_size=3)), draw(_optname)] for _ in range(draw(st.integers(0, 2)))],
             "ixs": [[draw(st.lists(_ci, min_size=1, max_size=3)), int(draw(st.booleans())), draw(st.one_of(st.none(), st.integers(0, 4))), int(draw(st.integers(0, 4)) == 0), draw(_optname)]
                     for _ in range(draw(st.integers(0, 3)))],
             "cks": [[draw(_ci), draw(st.integers(0, 6)), draw(_optname)] for _ in range(draw(st.integers(0, 2)))],
             "fks": [[draw(st.lists(_ci, min_size=1, max_size=2)), draw(st.integers(0, 2)), draw(st.integers(0, 5)), draw(st.integers(0, 5)), draw(_optname), draw(st.integers(0, 2)), draw(st.integers(0, 2))]
                     for _ in range(draw(st.integers(0, 2)))]}
        if t["uqs"] and draw(st.integers(0, 2)) == 0:
            # a named UNIQUE constraint and an index on exactly the same columns
            t["uqs"][0][1] = t["uqs"][0][1] or draw(_name)
            t["ixs"] = t["ixs"][:2] + [[list(t["uqs"][0][0]), int(draw(st.booleans())), None, 0, None]]
        if draw(st.integers(0, 2)) == 0 and len(cols) >= 2:
            # composite PK so that FKs pointing here are composite
            t["pk"] = draw(st.permutations([0, 1]))[:2]
            t["fks"] = t["fks"][:1] + [[[draw(_ci), draw(_ci)], ti, draw(st.integers(0, 5)), draw(st.integers(0, 5)), draw(_optname), draw(st.integers(0, 2)), draw(st.integers(0, 2))]]
        tables.append(t)
    return {"tables": tables}


# ============================================================================= MySQL SHOW CREATE TABLE parser round trip
MY_NAMES = ["id", "name", "user id", "Mixed", "order", "naïve", "a.b", "we'ird", "x-y", "col_7", "data", "ts", "sel ect"]
MY_STR = ["0", "abc", "it's", "a,b", "(x)", "", "100%", "NULL"]
MY_COMMENTS = ["plain", "it's", "a,b (c)", "COMMENT 'x'", "50% \\ done"]
MY_ACTIONS = [None, "CASCADE", "SET NULL", "RESTRICT", "NO ACTION", "SET DEFAULT"]


def _my_types():
    from sqlalchemy.dialects import mysql as my

    return [
        lambda: my.INTEGER(), lambda: my.BIGINT(), lambda: my.SMALLINT(), lambda: my.VARCHAR(30), lambda: my.TEXT(), lambda: my.DECIMAL(10, 2), lambda: my.DATETIME(),
        lambda: my.DATETIME(fsp=6), lambda: my.FLOAT(), lambda: my.DOUBLE(), lambda: my.ENUM("a", "b c", "it's", "x,y"), lambda: my.TINYINT(1), lambda: my.INTEGER(unsigned=True),
        lambda: my.VARCHAR(20, charset="latin1", collation="latin1_bin"), lambda: my.DATE(), lambda: my.BLOB(), lambda: my.CHAR(3), lambda: my.SET("r", "w"), lambda: my.TIMESTAMP(),
        lambda: my.BIGINT(unsigned=True, zerofill=True), lambda: my.LONGTEXT(), lambda: my.TIME(fsp=3), lambda: my.JSON(), lambda: my.VARBINARY(16),
    ]


def _bq(name):
    return "`" + name.replace("`", "``") + "`"


def _sq(s):
    return "'" + s.replace("'", "''") + "'"


def _my_norm(case):
    cols, seen = [], set()
    for c in case["cols"][:6]:
        nm = MY_NAMES[c[0] % len(MY_NAMES)] if not (case.get("pinned") and isinstance(c[0], str)) else c[0]
        if nm.lower() in seen:
            continue
        seen.add(nm.lower())
        cols.append({"name": nm, "type": c[1] % 24, "notnull": bool(c[2]), "default": c[3], "comment": c[4]})
    n = len(cols)
    pk = list(dict.fromkeys(x % n for x in case.get("pk", [])))[:2]
    keys = []
    for k, key in enumerate(case.get("keys", [])[:3]):
        kc = list(dict.fromkeys(x % n for x in key[0]))[:3]
        keys.append({"cols": kc, "type": [None, "UNIQUE", None, "FULLTEXT"][key[1] % 4], "length": key[2] if key[2] else None, "using": [None, "BTREE", "HASH"][key[3] % 3],
                     "name": "k%d_%s" % (k, MY_NAMES[key[4] % len(MY_NAMES)]), "comment": key[5]})
    fks = []
    for k, fk in enumerate(case.get("fks", [])[:2]):
        lc = list(dict.fromkeys(x % n for x in fk[0]))[:2]
        fks.append({"cols": lc, "table": MY_NAMES[fk[1] % len(MY_NAMES)] + "_p", "schema": "other db" if fk[2] else None, "rcols": [MY_NAMES[(fk[1] + i + 1) % len(MY_NAMES)] for i in range(len(lc))],
                    "ondelete": MY_ACTIONS[fk[3] % 6], "onupdate": MY_ACTIONS[fk[4] % 6], "name": "fk%d_%s" % (k, MY_NAMES[fk[5] % len(MY_NAMES)])})
    cks = [{"name": "ck%d" % k, "text": "(%s > %d)" % (_bq(cols[ck[0] % n]["name"]), ck[1])} for k, ck in enumerate(case.get("cks", [])[:2])]
    return {"table": MY_NAMES[case["table"] % len(MY_NAMES)] + "_t", "cols": cols, "pk": pk, "keys": keys, "fks": fks, "cks": cks, "comment": case.get("comment"), "mariadb": bool(case.get("mariadb"))}


def _my_render(d, ctx=None):
    """SHOW CREATE TABLE text in the server's documented layout (two-space indent, back-quoted names, one item per line)"""
    from sqlalchemy.dialects import mysql as my

    dia = my.dialect()
    types = _my_types()
    lines, exp_cols = [], []
    for ci, c in enumerate(d["cols"]):
        t = types[c["type"]]()
        tstr = dia.type_compiler_instance.process(t)
        m = re.match(r"^(\w+)(.*)$", tstr, re.S)
        tstr = m.group(1).lower() + m.group(2)  # the server prints the type keyword in lower case
        if not tstr.startswith(("enum", "set")):
            tstr = tstr.replace(", ", ",")  # ... and numeric arguments without a space: decimal(10,2)
        line = "  %s %s" % (_bq(c["name"]), tstr)
        autoinc = bool(d["pk"]) and d["pk"][0] == ci and c["type"] in (0, 1, 2, 12)
        notnull = c["notnull"] or ci in d["pk"]
        default = None
        if notnull:
            line += " NOT NULL"
        if c["default"] is not None and not autoinc and c["type"] not in (4, 15, 20, 22):
            kind, v = c["default"]
            if kind == "str":
                default = _sq(MY_STR[v % len(MY_STR)])
            elif kind == "ts" and c["type"] in (6, 7, 18):
                default = ["CURRENT_TIMESTAMP", "CURRENT_TIMESTAMP ON UPDATE CURRENT_TIMESTAMP"][v % 2] if c["type"] != 7 else "CURRENT_TIMESTAMP(6)"
            elif kind == "expr":
                default = ["(uuid())", "(now() + interval 1 day)" if d.get("pinned") else "(pi())", "(_utf8mb4'a')"][v % 3]
                if v % 3 == 1 and not d.get("pinned") and ctx is not None:
                    ctx.exclude("expression default with nested parentheses followed by a space (known finding: DEFAULT regex stops at the first ')')")
            elif kind == "num":
                default = _sq(str(v))
        if default is not None:
            line += " DEFAULT " + default
        elif not notnull:
            line += " DEFAULT NULL"
        if autoinc:
            line += " AUTO_INCREMENT"
        comment = MY_COMMENTS[c["comment"] % len(MY_COMMENTS)] if c["comment"] is not None else None
        if comment is not None:
            line += " COMMENT " + _sq(comment.replace("\\", "\\\\"))
        lines.append(line)
        e = {"name": c["name"], "type": repr(t), "nullable": not notnull, "default": default, "comment": comment}
        if autoinc:
            e["autoincrement"] = True
        elif c["type"] in (0, 1, 2, 11, 12, 19):
            e["autoincrement"] = False
        exp_cols.append(e)
    exp_keys = []
    if d["pk"]:
        lines.append("  PRIMARY KEY (%s)" % ",".join(_bq(d["cols"][x]["name"]) for x in d["pk"]))
        exp_keys.append(("PRIMARY", None, tuple((d["cols"][x]["name"], None) for x in d["pk"]), None, None))
    for k in d["keys"]:
        parts = []
        for j, x in enumerate(k["cols"]):
            ln = k["length"] if (j == 0 and k["length"] and d["cols"][x]["type"] in (3, 4, 13, 16, 20)) else None
            parts.append((d["cols"][x]["name"], ln))
        line = "  %sKEY %s (%s)" % ((k["type"] + " ") if k["type"] else "", _bq(k["name"]), ",".join(_bq(a) + ("(%d)" % b if b else "") for a, b in parts))
        using = k["using"] if k["type"] != "FULLTEXT" else None
        if using:
            line += " USING " + using
        kc = MY_COMMENTS[k["comment"] % len(MY_COMMENTS)] if k["comment"] is not None else None
        if kc is not None:
            line += " COMMENT " + _sq(kc.replace("\\", "\\\\"))
        lines.append(line)
        exp_keys.append((k["type"], k["name"], tuple(parts), None, kc))  # (USING is parsed but not consumed by the dialect: not compared)
    exp_fks = []
    for f in d["fks"]:
        tbl = (_bq(f["schema"]) + "." if f["schema"] else "") + _bq(f["table"])
        line = "  CONSTRAINT %s FOREIGN KEY (%s) REFERENCES %s (%s)" % (_bq(f["name"]), ",".join(_bq(d["cols"][x]["name"]) for x in f["cols"]), tbl, ",".join(_bq(x) for x in f["rcols"]))
        if f["ondelete"]:
            line += " ON DELETE " + f["ondelete"]
        if f["onupdate"]:
            line += " ON UPDATE " + f["onupdate"]
        lines.append(line)
        exp_fks.append((f["name"], tuple(d["cols"][x]["name"] for x in f["cols"]), tuple(([f["schema"]] if f["schema"] else []) + [f["table"]]), tuple(f["rcols"]), f["ondelete"], f["onupdate"]))
    exp_cks = []
    for ck in d["cks"]:
        lines.append("  CONSTRAINT %s CHECK (%s)" % (_bq(ck["name"]), ck["text"]))
        exp_cks.append((ck["name"], ck["text"]))
    tail = ") ENGINE=InnoDB AUTO_INCREMENT=7 DEFAULT CHARSET=utf8mb4 COLLATE=utf8mb4_0900_ai_ci"
    exp_opts = {"mysql_engine": "InnoDB", "mysql_default charset": "utf8mb4", "mysql_collate": "utf8mb4_0900_ai_ci"}
    tc = MY_COMMENTS[d["comment"] % len(MY_COMMENTS)] if d["comment"] is not None else None
    if tc is not None:
        tail += " COMMENT=" + _sq(tc.replace("\\", "\\\\"))
        exp_opts["mysql_comment"] = tc
    text = "CREATE TABLE %s (\n%s\n%s" % (_bq(d["table"]), ",\n".join(lines), tail)
    return text, {"cols": exp_cols, "keys": exp_keys, "fks": exp_fks, "cks": exp_cks, "opts": exp_opts}


def check_mysql(case, ctx):
    from sqlalchemy.dialects import mysql as my
    from sqlalchemy.dialects.mysql.reflection import MySQLTableDefinitionParser

    d = _my_norm(case)
    d["pinned"] = bool(case.get("pinned"))
    text, exp = _my_render(d, ctx)
    classes = set()
    if d["keys"]:
        classes.add("keys")
    if d["fks"]:
        classes.add("fks")
    if d["cks"]:
        classes.add("checks")
    if any(c["default"] is not None for c in d["cols"]):
        classes.add("defaults")
    if any(c["comment"] is not None for c in d["cols"]):
        classes.add("comments")
    if any(k["length"] for k in d["keys"]):
        classes.add("prefix-key")
    ctx.note(case, bool(d["keys"] or d["fks"]), classes=classes)
    dia = my.dialect()
    parser = MySQLTableDefinitionParser(dia, dia.identifier_preparer)
    with warnings.catch_warnings(record=True) as w:
        warnings.simplefilter("always")
        state = parser.parse(text, "utf8mb4")
    if w:
        raise Violation("C15/mysql-parser/warning", f"parser warned on well-formed SHOW CREATE TABLE text: {w[0].message}", observed=text, expected="no warning")
    if state.table_name != d["table"]:
        raise Violation("C15/mysql-parser/table-name", f"{state.table_name!r} != {d['table']!r}", observed=state.table_name, expected=d["table"])
    got_cols = []
    for c in state.columns:
        e = {"name": c["name"], "type": repr(c["type"]), "nullable": c["nullable"], "default": c["default"], "comment": c["comment"]}
        if "autoincrement" in c:
            e["autoincrement"] = c["autoincrement"]
        got_cols.append(e)
    if [c["name"].replace("``", "`") for c in got_cols] == [c["name"] for c in exp["cols"]] != [c["name"] for c in got_cols]:
        raise Violation("C15/mysql-parser/escaped-backtick-not-unescaped", f"column names {[c['name'] for c in got_cols]}: the doubled back-quote of the SHOW CREATE TABLE text is not unescaped (defined {[c['name'] for c in exp['cols']]})",
                        observed=[c["name"] for c in got_cols], expected=[c["name"] for c in exp["cols"]])
    if [c["name"] for c in got_cols] != [c["name"] for c in exp["cols"]]:
        raise Violation("C15/mysql-parser/column-names", f"columns {[c['name'] for c in got_cols]} != {[c['name'] for c in exp['cols']]}", observed=text)
    for g, e in zip(got_cols, exp["cols"]):
        for f in ("type", "nullable", "default", "comment", "autoincrement"):
            if f == "default" and g.get(f) != e.get(f) and e.get(f) and e[f].startswith("(") and e[f].startswith(g.get(f) or "\0") and e[f].count("(") > 1:
                raise Violation("C15/mysql-parser/default-nested-parens-truncated", f"column {e['name']!r}: expression default {e[f]!r} parsed as {g.get(f)!r} (the DEFAULT pattern stops at the first ')' that is followed by a space)",
                                observed=g.get(f), expected=e[f])
            if g.get(f) != e.get(f):
                raise Violation(f"C15/mysql-parser/column-{f}", f"column {e['name']!r}: parsed {f} = {g.get(f)!r}, defined {e.get(f)!r}; line: {[l for l in text.splitlines() if _bq(e['name']) in l][:1]}", observed=g.get(f), expected=e.get(f))
    got_keys = [(k["type"], k["name"], tuple((c[0], c[1]) for c in k["columns"]), None, (k["comment"][1:-1].replace("''", "'").replace("\\\\", "\\") if k.get("comment") else None)) for k in state.keys]
    if got_keys != exp["keys"]:
        raise Violation("C15/mysql-parser/keys", f"parsed keys {got_keys} != defined {exp['keys']}", observed=got_keys, expected=exp["keys"])
    got_fks = [(f["name"], tuple(f["local"]), tuple(f["table"]), tuple(f["foreign"]), f.get("ondelete"), f.get("onupdate")) for f in state.fk_constraints]
    if got_fks != exp["fks"]:
        raise Violation("C15/mysql-parser/foreign-keys", f"parsed FKs {got_fks} != defined {exp['fks']}", observed=got_fks, expected=exp["fks"])
    got_cks = [(c["name"], c["sqltext"]) for c in state.ck_constraints]
    if got_cks != exp["cks"]:
        raise Violation("C15/mysql-parser/checks", f"parsed CHECKs {got_cks} != defined {exp['cks']}", observed=got_cks, expected=exp["cks"])
    got_opts = {k: v for k, v in state.table_options.items()}
    if got_opts != exp["opts"]:
        raise Violation("C15/mysql-parser/table-options", f"parsed options {got_opts} != {exp['opts']}", observed=got_opts, expected=exp["opts"])


_mydefault = st.one_of(st.none(), st.tuples(st.sampled_from(["str", "ts", "expr", "num"]), st.integers(0, 9)).map(list))


@st.composite
def _my_cases(draw):
    cols = [[draw(st.integers(0, 12)), draw(st.integers(0, 23)), int(draw(st.booleans())), draw(_mydefault), draw(st.one_of(st.none(), st.integers(0, 4)))] for _ in range(draw(st.integers(1, 6)))]
    return {"table": draw(st.integers(0, 12)), "cols": cols, "pk": draw(st.lists(_ci, max_size=2)),
            "keys": [[draw(st.lists(_ci, min_size=1, max_size=3)), draw(st.integers(0, 3)), draw(st.sampled_from([0, 0, 5, 10])), draw(st.integers(0, 2)), draw(st.integers(0, 12)), draw(st.one_of(st.none(), st.integers(0, 4)))]
                     for _ in range(draw(st.integers(0, 3)))],
            "fks": [[draw(st.lists(_ci, min_size=1, max_size=2)), draw(st.integers(0, 12)), int(draw(st.integers(0, 3)) == 0), draw(st.integers(0, 5)), draw(st.integers(0, 5)), draw(st.integers(0, 12))]
                    for _ in range(draw(st.integers(0, 2)))],
            "cks": [[draw(_ci), draw(st.integers(0, 9))] for _ in range(draw(st.integers(0, 2)))],
            "comment": draw(st.one_of(st.none(), st.integers(0, 4)))}


def subs(tier):
    return [
        Generated("sqlite", check_sqlite, strategy=_schemas(), quick=400, thorough=30000),
        Generated("mysql_parser", check_mysql, strategy=_my_cases(), quick=1500, thorough=60000),
    ]
