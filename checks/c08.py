"""C08 - LIKE-based string operators with autoescape match literal semantics.

live (SQLite): contains / startswith / endswith and the i-variants (optionally negated with ~), with
autoescape=True (default or explicit escape character) or with an explicit escape character and a needle
escaped by the harness, are executed against a column of haystacks (and literal-vs-literal) and must match
exactly the rows for which Python's ``needle in hay`` / ``startswith`` / ``endswith`` holds (ASCII lower-cased
for the i-variants).  The connection runs PRAGMA case_sensitive_like=ON for the case-sensitive operators
(SQLite's LIKE is ASCII case-insensitive by default; the property demands the case-sensitive configuration).

pattern (postgresql, mysql, mariadb, mssql, oracle, sqlite): the statement compiled by the dialect is parsed
(checks/_sqlparse.py), the pattern expression (string concatenation / concat() / lower()) is evaluated on the
bound value, the ESCAPE literal decoded by the dialect's string-literal grammar, and a reference LIKE matcher
(standard %, _, ESCAPE semantics; ILIKE case-insensitive on PostgreSQL) decides each haystack.
"""
from __future__ import annotations

import itertools

from hypothesis import strategies as st

from vf.api import Enumerated, Generated, HarnessError, Violation

PROPERTY = "C08"
LEVEL = "exploration"
RULE = (
    "random: needle of 0-5 chars over {% _ / \\ ' \" a A b ^} and 1-6 haystacks built around it (exact embedding, wildcard expansions of the needle "
    "where % became a random string and _ a random char, escape-char doublings, case-swapped embeddings, random strings); operator in "
    "{contains,startswith,endswith,icontains,istartswith,iendswith} x negated x mode {autoescape default '/', autoescape + drawn escape char, "
    "explicit escape char with harness-escaped needle} x operand {column, bound literal}; exh: every needle of length <=3 (quick: <=2) over {% _ / a A} "
    "against the table of all 781 strings of length <=4 over the same alphabet, x 6 operators x 4 modes. "
    "Non-trivial: the needle contains %, _ or the escape character; distinct = canonical JSON of the case"
)
ASSUMPTIONS = [
    "ASCII strings only; i-variants are compared with Python str.lower() on both sides",
    "escape characters are drawn from / \\ ^ ' _ (non-letters: lower() applied to the pattern by the i-variants would rewrite a letter used as escape); "
    "'%' is not a usable escape character for these operators by construction (the compiler adds unescaped % wildcards around the needle)",
    "no NULL operands; no '[' in the alphabet (SQL Server bracket classes are outside the stated alphabet)",
    "PRAGMA case_sensitive_like=ON on the SQLite connection for the case-sensitive operators",
    "PostgreSQL / MySQL / MariaDB / MSSQL / Oracle are not executed: the emitted pattern + ESCAPE clause are interpreted by the reference LIKE matcher in this "
    "module (standard SQL LIKE semantics, trusted) after parsing with checks/_sqlparse.py",
    "confirmed finding excluded and pinned: autoescape with escape='_' double-escapes the underscore it inserts before %",
]

OPS = ["contains", "startswith", "endswith", "icontains", "istartswith", "iendswith"]
MODES = ["auto", "auto_esc", "manual"]
ESCAPES = ["/", "\\", "^", "'", "_"]
ALPHA = ["%", "_", "/", "\\", "'", '"', "a", "A", "b", "^"]


# ------------------------------------------------------------------ reference
def expected(op, hay, needle):
    if op.startswith("i"):
        hay, needle, op = hay.lower(), needle.lower(), op[1:]
    if op == "contains":
        return needle in hay
    if op == "startswith":
        return hay.startswith(needle)
    return hay.endswith(needle)


def harness_escape(needle, esc):
    return "".join((esc + ch) if ch in ("%", "_", esc) else ch for ch in needle)


def like_match(hay, pattern, esc, ci=False):
    """standard SQL LIKE: % any sequence, _ one character, esc+c the character c literally"""
    if ci:
        hay = hay.lower()
    toks = []
    i = 0
    while i < len(pattern):
        ch = pattern[i]
        if esc is not None and ch == esc:
            if i + 1 >= len(pattern):
                raise ValueError("pattern ends with escape character")
            toks.append(("c", pattern[i + 1].lower() if ci else pattern[i + 1]))
            i += 2
            continue
        if ch == "%":
            toks.append(("%",))
        elif ch == "_":
            toks.append(("_",))
        else:
            toks.append(("c", ch.lower() if ci else ch))
        i += 1
    # dynamic programming over (token index, hay index)
    reach = {0}
    for t in toks:
        nxt = set()
        if t[0] == "%":
            if reach:
                nxt = set(range(min(reach), len(hay) + 1))
        elif t[0] == "_":
            nxt = {p + 1 for p in reach if p < len(hay)}
        else:
            nxt = {p + 1 for p in reach if p < len(hay) and hay[p] == t[1]}
        reach = nxt
        if not reach:
            return False
    return len(hay) in reach


# ------------------------------------------------------------------ expression under test
def build(sa, left, case):
    op, mode, esc, needle = case["op"], case["mode"], case.get("esc"), case["needle"]
    fn = getattr(left, op)
    if mode == "auto":
        e = fn(needle, autoescape=True)
    elif mode == "auto_esc":
        e = fn(needle, escape=esc, autoescape=True)
    elif mode == "manual":
        e = fn(harness_escape(needle, esc), escape=esc)
    else:
        raise HarnessError(mode)
    return ~e if case.get("negate") else e


def eff_escape(case):
    return "/" if case["mode"] == "auto" else case["esc"]


def known_trigger(case):
    return None  # the escape="_" double-escaping defect was repaired in /repo (fix: 180c3b1): nothing is excluded any more
    if case["mode"] == "auto_esc" and case.get("esc") == "_" and "%" in case["needle"]:
        return "autoescape-underscore-escape-double-escaped"
    return None


def _classes(case):
    esc = eff_escape(case)
    n = case["needle"]
    feats = []
    if "%" in n:
        feats.append("needle-has-%")
    if "_" in n:
        feats.append("needle-has-_")
    if esc in n:
        feats.append("needle-has-escape-char")
    if "'" in n or '"' in n:
        feats.append("needle-has-quote")
    return feats


# ------------------------------------------------------------------ live
def run_live(case, ctx, hays):
    import sqlalchemy as sa
    from vf import sautil

    trig = known_trigger(case)
    if trig and not case.get("pinned"):
        ctx.exclude(trig)
        ctx.note(case, False, classes=["excluded"])
        return
    feats = _classes(case)
    ctx.note(case, bool(feats), classes=["op:" + case["op"], "mode:" + case["mode"], "lhs:" + case.get("lhs", "column")] + feats + (["negated"] if case.get("negate") else []))
    md = sa.MetaData()
    t = sa.Table("t", md, sa.Column("id", sa.Integer, primary_key=True), sa.Column("s", sa.String(40)))
    eng = sautil.mem_engine()
    try:
        with eng.connect() as conn:
            if not case["op"].startswith("i"):
                conn.exec_driver_sql("PRAGMA case_sensitive_like=ON")
            md.create_all(conn)
            conn.execute(t.insert(), [{"id": i + 1, "s": h} for i, h in enumerate(hays)])
            want = {i + 1 for i, h in enumerate(hays) if expected(case["op"], h, case["needle"]) != bool(case.get("negate"))}
            if case.get("lhs", "column") == "column":
                e = build(sa, t.c.s, case)
                got = {r[0] for r in conn.execute(sa.select(t.c.id).where(e))}
            else:
                got = set()
                for i, h in enumerate(hays[:3]):
                    e = build(sa, sa.literal(h, sa.String()), case)
                    v = conn.execute(sa.select(e)).scalar()
                    if v:
                        got.add(i + 1)
                want = {i for i in want if i <= 3}
            if got != want:
                extra = sorted(got - want)
                missing = sorted(want - got)
                sql = str(e.compile(eng))
                raise Violation(
                    f"C08/{trig or ('sqlite/' + ('false-positive' if extra else 'false-negative'))}",
                    f"{case['op']}({case['needle']!r}, mode={case['mode']}, escape={eff_escape(case)!r}, negate={bool(case.get('negate'))}) as {sql!r} "
                    f"with bound {e.compile(eng).params!r}: matched-but-should-not {[hays[i - 1] for i in extra][:5]!r}, missed {[hays[i - 1] for i in missing][:5]!r}",
                    observed=sorted(got), expected=sorted(want),
                )
    finally:
        eng.dispose()


@st.composite
def _random_cases(draw, with_dialect=False):
    ch = st.sampled_from(ALPHA)
    chars = draw(st.lists(ch, min_size=0, max_size=5))
    mode = draw(st.sampled_from(MODES))
    esc = draw(st.sampled_from(ESCAPES)) if mode != "auto" else None
    if draw(st.integers(0, 2)) > 0:
        # two needles in three hold a wildcard or the escape character by construction
        chars.insert(draw(st.integers(0, len(chars))), draw(st.sampled_from(["%", "_", esc or "/"])))
    needle = "".join(chars)
    rnd = st.lists(ch, max_size=3).map("".join)
    hays = []
    for _ in range(draw(st.integers(1, 6))):
        k = draw(st.integers(0, 6))
        if k == 0:
            core = needle
        elif k == 1:
            # what the needle would match if its wildcards were live
            core = "".join(draw(rnd) if c == "%" else (draw(ch) if c == "_" else c) for c in needle)
        elif k == 2:
            core = needle.swapcase()
        elif k == 3:
            e = esc or "/"
            core = needle.replace(e, e + e) if draw(st.booleans()) else harness_escape(needle, e)
        elif k == 4:
            core = needle[:-1] if needle else ""
        elif k == 5:
            core = draw(rnd)
        else:
            core = needle + draw(ch)
        where = draw(st.integers(0, 3))
        pre = draw(rnd) if where in (1, 3) else ""
        post = draw(rnd) if where in (2, 3) else ""
        hays.append(pre + core + post)
    case = {"needle": needle, "op": draw(st.sampled_from(OPS)), "mode": mode, "esc": esc, "negate": draw(st.integers(0, 3)) == 0, "hays": hays}
    if with_dialect:
        case["dialect"] = draw(st.sampled_from(P_DIALECTS))
    else:
        case["lhs"] = "literal" if draw(st.integers(0, 4)) == 0 else "column"
    return case


def check_random(case, ctx):
    run_live(case, ctx, case["hays"])


_EXH_ALPHA = ["%", "_", "/", "a", "A"]
_EXH_HAYS = ["".join(p) for n in range(0, 5) for p in itertools.product(_EXH_ALPHA, repeat=n)]
_EXH_MODES = [("auto", None), ("auto_esc", "\\"), ("auto_esc", "_"), ("manual", "/")]


def _exh_cases(tier):
    maxlen = 2 if tier == "quick" else 3
    for n in range(0, maxlen + 1):
        for p in itertools.product(_EXH_ALPHA, repeat=n):
            for op in OPS:
                for mode, esc in _EXH_MODES:
                    yield {"needle": "".join(p), "op": op, "mode": mode, "esc": esc}


def check_exh(case, ctx):
    run_live(case, ctx, _EXH_HAYS)


# ------------------------------------------------------------------ pattern tier (other dialects)
P_DIALECTS = ["sqlite", "postgresql", "mysql", "mariadb", "mssql", "oracle"]


def _decode_str(tok_text, dname, doubled_percent):
    body = tok_text[1:-1].replace("''", "'")
    if dname in ("mysql", "mariadb"):
        out, i = [], 0
        while i < len(body):
            if body[i] == "\\" and i + 1 < len(body):
                out.append(body[i + 1])
                i += 2
            else:
                out.append(body[i])
                i += 1
        body = "".join(out)
    if doubled_percent:
        body = body.replace("%%", "%")
    return body


def _str_eval(a, dname, resolve, doubled_percent):
    k = a[0]
    if k == "paren":
        return _str_eval(a[1], dname, resolve, doubled_percent)
    if k == "atom" and a[1] == "str":
        return _decode_str(a[2], dname, doubled_percent)
    if k == "param":
        return resolve(a[1])
    if k == "pgcast":
        return _str_eval(a[1], dname, resolve, doubled_percent)
    if k == "bin" and a[1] in ("||", "+"):
        return _str_eval(a[2], dname, resolve, doubled_percent) + _str_eval(a[3], dname, resolve, doubled_percent)
    if k == "func" and a[1] == "CONCAT":
        return "".join(_str_eval(x, dname, resolve, doubled_percent) for x in a[2])
    if k == "func" and a[1] == "LOWER" and len(a[2]) == 1:
        return _str_eval(a[2][0], dname, resolve, doubled_percent).lower()
    raise HarnessError(f"pattern evaluator: unsupported node {a[:2]}")


def check_pattern(case, ctx):
    import sqlalchemy as sa
    from checks import _sqlparse as P
    from checks.c01 import _dialect

    trig = known_trigger(case)
    if trig and not case.get("pinned"):
        ctx.exclude(trig)
        ctx.note(case, False, classes=["excluded"])
        return
    dname = case["dialect"]
    feats = _classes(case)
    ctx.note(case, bool(feats), classes=["dialect:" + dname, "op:" + case["op"], "mode:" + case["mode"]] + feats)
    d = _dialect(dname)
    col = sa.column("s", sa.String())
    e = build(sa, col, case)
    c = e.compile(dialect=d)
    sql = str(c)
    spec = P.SPECS[dname]
    doubled = bool(getattr(c.preparer, "_double_percents", False))
    try:
        ast = P.parse(sql, spec)
    except P.ParseError as err:
        raise Violation(f"C08/pattern/{dname}/unparseable", f"{sql!r}: {err}", observed=sql)
    while ast[0] == "paren":
        ast = ast[1]
    neg = False
    if ast[0] == "un" and ast[1] == "NOT":
        neg = True
        ast = ast[2]
        while ast[0] == "paren":
            ast = ast[1]
    if ast[0] != "like":
        raise Violation(f"C08/pattern/{dname}/not-a-like", f"expected a LIKE predicate, got {sql!r}", observed=sql)
    _, kw, n2, left, pat, escn = ast
    neg ^= bool(n2)
    params = c.params
    pos = list(c.positiontup) if c.positiontup else None

    def resolve(key):
        return params[pos[key]] if isinstance(key, int) else params[key]

    pattern = _str_eval(pat, dname, resolve, doubled)
    esc = _str_eval(escn, dname, resolve, doubled) if escn is not None else ("\\" if dname in ("mysql", "mariadb", "postgresql") else None)
    if esc is not None and len(esc) != 1:
        raise Violation(f"C08/pattern/{dname}/escape-not-one-char", f"ESCAPE clause decodes to {esc!r} in {sql!r}", observed=esc)
    # left operand: column s, or lower(s)
    lnode = left
    while lnode[0] == "paren":
        lnode = lnode[1]
    left_lower = lnode[0] == "func" and lnode[1] == "LOWER"
    ci = kw == "ILIKE"
    for h in case["hays"]:
        hv = h.lower() if left_lower else h
        try:
            got = like_match(hv, pattern, esc, ci=ci)
        except ValueError as err:
            raise Violation(f"C08/pattern/{dname}/dangling-escape", f"{sql!r} with pattern {pattern!r}: {err}", observed=pattern)
        got ^= neg
        want = expected(case["op"], h, case["needle"]) != bool(case.get("negate"))
        if got != want:
            raise Violation(
                f"C08/{trig or ('pattern/' + dname + '/' + ('false-positive' if got else 'false-negative'))}",
                f"{dname}: {case['op']}({case['needle']!r}, mode={case['mode']}, escape={eff_escape(case)!r}) renders {sql!r} with pattern {pattern!r} ESCAPE {esc!r}; "
                f"haystack {h!r} -> {got}, expected {want}",
                observed=got, expected=want,
            )


def subs(tier):
    return [
        Generated("random", check_random, strategy=_random_cases(), quick=6000, thorough=200000),
        Enumerated("exh", check_exh, cases=_exh_cases),
        Generated("pattern", check_pattern, strategy=_random_cases(with_dialect=True), quick=6000, thorough=200000),
    ]
