"""C08 - LIKE-based string operators with autoescape match literal semantics.

live (SQLite): contains / startswith / endswith and the i-variants (optionally negated with ~), with
autoescape=True (default or explicit escape character) or with an explicit escape character and a needle
escaped by the harness, are executed against a column of haystacks (and literal-vs-literal) and must match
exactly the rows for which Python's ``needle in hay`` / ``startswith`` / ``endswith`` holds (ASCII lower-cased
for the i-variants).  The connection runs PRAGMA case_sensitive_like=ON for the case-sensitive operators
(SQLite's LIKE is ASCII case-insensitive by default; the property demands the case-sensitive configuration).

pattern (postgresql, mysql, mariadb, mssql, oracle, sqlite): the statement compiled by the dialect is parsed
(checks/_sqlparse.py), the pattern expression (string concatenation / concat() / lower()) is evaluated on the
bound value, the ESCAPE literal decoded by the dialect's string-literal grammar, and a reference LIKE matcher
(standard %, _, ESCAPE semantics; ILIKE case-insensitive on PostgreSQL) decides each haystack.
"""
from __future__ import annotations

import itertools

from hypothesis import strategies as st

from vf.api import Enumerated, Generated, HarnessError, Violation

PROPERTY = "C08"
LEVEL = "exploration"
RULE = (
    "random: needle of 0-5 chars over {% _ / \\ ' \" a A b ^} and 1-6 haystacks built around it (exact embedding, wildcard expansions of the needle "
    "where % became a random string and _ a random char, escape-char doublings, case-swapped embeddings, random strings); operator in "
    "{contains,startswith,endswith,icontains,istartswith,iendswith} x negated x mode {autoescape default '/', autoescape + drawn escape char, "
    "explicit escape char with harness-escaped needle} x operand {column, bound literal}; exh: every needle of length <=3 (quick: <=2) over {% _ / a A} "
    "against the table of all 781 strings of length <=4 over the same alphabet, x 6 operators x 4 modes. "
    "Non-trivial: the needle contains %, _ or the escape character; distinct = canonical JSON of the case"
)
ASSUMPTIONS = [
    "ASCII strings only; i-variants are compared with Python str.lower() on both sides",
    "escape characters are drawn from / \\ ^ ' _ (non-letters: lower() applied to the pattern by the i-variants would rewrite a letter used as escape); "
    "'%' is not a usable escape character for these operators by construction (the compiler adds unescaped % wildcards around the needle)",
    "no NULL operands; no '[' in the alphabet (SQL Server bracket classes are outside the stated alphabet)",
    "PRAGMA case_sensitive_like=ON on the SQLite connection for the case-sensitive operators",
    "PostgreSQL / MySQL / MariaDB / MSSQL / Oracle are not executed: the emitted pattern + ESCAPE clause are interpreted by the reference LIKE matcher in this "
    "module (standard SQL LIKE semantics, trusted) after parsing with checks/_sqlparse.py",
    "confirmed finding excluded and pinned: autoescape with escape='_' double-escapes the underscore it inserts before %",
]

OPS = ["contains", "startswith", "endswith", "icontains", "istartswith", "iendswith"]
MODES = ["auto", "auto_esc", "manual"]
ESCAPES = ["/", "\\", "^", "'", "_"]
ALPHA = ["%", "_", "/", "\\", "'", '"', "a", "A", "b", "^"]


# ------------------------------------------------------------------ reference
def expected(op, hay, needle):
    if op.startswith("i"):
        hay, needle, op = hay.lower(), needle.lower(), op[1:]
    if op == "contains":
        return needle in hay
    if op == "startswith":
        return hay.startswith(needle)
    return hay.endswith(needle)


def harness_escape(needle, esc):
    return "".join((esc + ch) if ch in ("%", "_", esc) else ch for ch in needle)


def like_match(hay, pattern, esc, ci=False):
    """standard SQL LIKE: % any sequence, _ one character, esc+c the character c literally"""
    if ci:
        hay = hay.lower()
    toks = []
    i = 0
    while i < len(pattern):
        ch = pattern[i]
        if esc is not None and ch == esc:
            if i + 1 >= len(pattern):
                raise ValueError("pattern ends with escape character")
            toks.append(("c", pattern[i + 1].lower() if ci else pattern[i + 1]))
            i += 2
            continue
        if ch == "%":
            toks.append(("%",))
        elif ch == "_":
            toks.append(("_",))
        else:
            toks.append(("c", ch.lower() if ci else ch))
        i += 1
    # dynamic programming over (token index, hay index)
    reach = {0}
    for t in toks:
        nxt = set()
        if t[0] == "%":
            if reach:
                nxt = set(range(min(reach), len(hay) + 1))
        elif t[0] == "_":
            nxt = {p + 1 for p in reach if p < len(hay)}
        else:
            nxt = {p + 1 for p in reach if p < len(hay) and hay[p] == t[1]}
        reach = nxt
        if not reach:
            return False
    return len(hay) in reach


# ------------------------------------------------------------------ expression under test
LIKE_OPS = ["like", "not_like", "ilike", "not_ilike"]


def like_pattern(case):
    """the pattern handed to a plain like()/ilike(): optional live wildcards around the (harness-escaped) needle"""
    pre, post = case.get("wrap", ["", ""])
    body = harness_escape(case["needle"], case["esc"]) if case["mode"] == "manual" else case["needle"]
    return pre + body + post


def build(sa, left, case):
    op, mode, esc, needle = case["op"], case["mode"], case.get("esc"), case["needle"]
    fn = getattr(left, op)
    if op in LIKE_OPS:
        if mode not in ("none", "manual"):
            raise HarnessError(mode)
        e = fn(like_pattern(case), escape=esc if mode == "manual" else None)
        return ~e if case.get("negate") else e
    if mode == "auto":
        e = fn(needle, autoescape=True)
    elif mode == "auto_esc":
        e = fn(needle, escape=esc, autoescape=True)
    elif mode == "manual":
        e = fn(harness_escape(needle, esc), escape=esc)
    else:
        raise HarnessError(mode)
    return ~e if case.get("negate") else e


def eff_escape(case):
    if case["mode"] == "none":
        return None
    return "/" if case["mode"] == "auto" else case["esc"]


def expected_pred(case, hay):
    """truth of one predicate on one haystack, each predicate judged with its own escape setting"""
    op = case["op"]
    if op in LIKE_OPS:
        pat = like_pattern(case)
        if "ilike" in op:
            r = like_match(hay.lower(), pat.lower(), eff_escape(case))
        else:
            r = like_match(hay, pat, eff_escape(case))
        if op.startswith("not_"):
            r = not r
    else:
        r = expected(op, hay, case["needle"])
    return r != bool(case.get("negate"))


def known_trigger(case):
    return None  # the escape="_" double-escaping defect was repaired in /repo (fix: 180c3b1): nothing is excluded any more
    if case["mode"] == "auto_esc" and case.get("esc") == "_" and "%" in case["needle"]:
        return "autoescape-underscore-escape-double-escaped"
    return None


def _classes(case):
    esc = eff_escape(case)
    n = case["needle"]
    feats = []
    if "%" in n:
        feats.append("needle-has-%")
    if "_" in n:
        feats.append("needle-has-_")
    if esc in n:
        feats.append("needle-has-escape-char")
    if "'" in n or '"' in n:
        feats.append("needle-has-quote")
    return feats


# ------------------------------------------------------------------ live
def run_live(case, ctx, hays):
    import sqlalchemy as sa
    from vf import sautil

    trig = known_trigger(case)
    if trig and not case.get("pinned"):
        ctx.exclude(trig)
        ctx.note(case, False, classes=["excluded"])
        return
    feats = _classes(case)
    ctx.note(case, bool(feats), classes=["op:" + case["op"], "mode:" + case["mode"], "lhs:" + case.get("lhs", "column")] + feats + (["negated"] if case.get("negate") else []))
    md = sa.MetaData()
    t = sa.Table("t", md, sa.Column("id", sa.Integer, primary_key=True), sa.Column("s", sa.String(40)))
    eng = sautil.mem_engine()
    try:
        with eng.connect() as conn:
            if not case["op"].startswith("i"):
                conn.exec_driver_sql("PRAGMA case_sensitive_like=ON")
            md.create_all(conn)
            conn.execute(t.insert(), [{"id": i + 1, "s": h} for i, h in enumerate(hays)])
            want = {i + 1 for i, h in enumerate(hays) if expected(case["op"], h, case["needle"]) != bool(case.get("negate"))}
            if case.get("lhs", "column") == "column":
                e = build(sa, t.c.s, case)
                got = {r[0] for r in conn.execute(sa.select(t.c.id).where(e))}
            else:
                got = set()
                for i, h in enumerate(hays[:3]):
                    e = build(sa, sa.literal(h, sa.String()), case)
                    v = conn.execute(sa.select(e)).scalar()
                    if v:
                        got.add(i + 1)
                want = {i for i in want if i <= 3}
            if got != want:
                extra = sorted(got - want)
                missing = sorted(want - got)
                sql = str(e.compile(eng))
                raise Violation(
                    f"C08/{trig or ('sqlite/' + ('false-positive' if extra else 'false-negative'))}",
                    f"{case['op']}({case['needle']!r}, mode={case['mode']}, escape={eff_escape(case)!r}, negate={bool(case.get('negate'))}) as {sql!r} "
                    f"with bound {e.compile(eng).params!r}: matched-but-should-not {[hays[i - 1] for i in extra][:5]!r}, missed {[hays[i - 1] for i in missing][:5]!r}",
                    observed=sorted(got), expected=sorted(want),
                )
    finally:
        eng.dispose()


@st.composite
def _random_cases(draw, with_dialect=False):
    ch = st.sampled_from(ALPHA)
    chars = draw(st.lists(ch, min_size=0, max_size=5))
    mode = draw(st.sampled_from(MODES))
    esc = draw(st.sampled_from(ESCAPES)) if mode != "auto" else None
    if draw(st.integers(0, 2)) > 0:
        # two needles in three hold a wildcard or the escape character by construction
        chars.insert(draw(st.integers(0, len(chars))), draw(st.sampled_from(["%", "_", esc or "/"])))
    needle = "".join(chars)
    rnd = st.lists(ch, max_size=3).map("".join)
    hays = []
    for _ in range(draw(st.integers(1, 6))):
        k = draw(st.integers(0, 6))
        if k == 0:
            core = needle
        elif k == 1:
            # what the needle would match if its wildcards were live
            core = "".join(draw(rnd) if c == "%" else (draw(ch) if c == "_" else c) for c in needle)
        elif k == 2:
            core = needle.swapcase()
        elif k == 3:
            e = esc or "/"
            core = needle.replace(e, e + e) if draw(st.booleans()) else harness_escape(needle, e)
        elif k == 4:
            core = needle[:-1] if needle else ""
        elif k == 5:
            core = draw(rnd)
        else:
            core = needle + draw(ch)
        where = draw(st.integers(0, 3))
        pre = draw(rnd) if where in (1, 3) else ""
        post = draw(rnd) if where in (2, 3) else ""
        hays.append(pre + core + post)
    case = {"needle": needle, "op": draw(st.sampled_from(OPS)), "mode": mode, "esc": esc, "negate": draw(st.integers(0, 3)) == 0, "hays": hays}
    if with_dialect:
        case["dialect"] = draw(st.sampled_from(P_DIALECTS))
    else:
        case["lhs"] = "literal" if draw(st.integers(0, 4)) == 0 else "column"
    return case


def check_random(case, ctx):
    run_live(case, ctx, case["hays"])


# ------------------------------------------------------------------ several LIKE-family predicates in one statement
COMBO_POS = ["where", "case", "exists", "subq"]


@st.composite
def _one_pred(draw):
    """(predicate, haystacks built around it); operator, operand column, needle, escape character and autoescape flag all drawn independently"""
    ch = st.sampled_from(ALPHA)
    op = draw(st.sampled_from(OPS + OPS + LIKE_OPS))
    if op in LIKE_OPS:
        mode = draw(st.sampled_from(["none", "manual"]))
    else:
        mode = draw(st.sampled_from(MODES))
    esc = draw(st.sampled_from(ESCAPES)) if mode in ("auto_esc", "manual") else None
    alpha = [c for c in ALPHA if c != "\\"] if mode == "none" else ALPHA  # no ESCAPE clause: PostgreSQL/MySQL would default to backslash
    chars = draw(st.lists(st.sampled_from(alpha), min_size=0, max_size=4))
    if draw(st.integers(0, 2)) > 0:
        chars.insert(draw(st.integers(0, len(chars))), draw(st.sampled_from(["%", "_", esc or "/"])))
    needle = "".join(chars)
    pred = {"op": op, "needle": needle, "mode": mode, "esc": esc, "negate": draw(st.integers(0, 4)) == 0, "col": draw(st.integers(0, 1))}
    if op in LIKE_OPS:
        wild = ["", "%", "%"] if esc == "_" else ["", "%", "_", "%"]  # with ESCAPE '_' a bare underscore is no wildcard
        pred["wrap"] = [draw(st.sampled_from(wild)), draw(st.sampled_from(wild))]
    rnd = st.lists(ch, max_size=2).map("".join)
    hays = []
    for _ in range(draw(st.integers(1, 3))):
        k = draw(st.integers(0, 5))
        e = esc or "/"
        if k == 0:
            core = needle
        elif k == 1:
            core = "".join(draw(rnd) if c == "%" else (draw(ch) if c == "_" else c) for c in needle)
        elif k == 2:
            core = harness_escape(needle, e)
        elif k == 3:
            core = needle.replace(e, e + e)
        elif k == 4:
            core = needle.swapcase()
        else:
            core = draw(rnd)
        where = draw(st.integers(0, 3))
        hays.append((draw(rnd) if where in (1, 3) else "") + core + (draw(rnd) if where in (2, 3) else ""))
    return pred, hays


@st.composite
def _combo_cases(draw, with_dialect=False):
    n = draw(st.integers(2, 3))
    preds, pool = [], []
    for _ in range(n):
        p, hs = draw(_one_pred())
        preds.append(p)
        pool.extend(hs)
    pool.append("")
    rows = [[draw(st.sampled_from(pool)), draw(st.sampled_from(pool))] for _ in range(draw(st.integers(2, 6)))]
    # every haystack built for a predicate sits at least once in the column that predicate reads
    for p, h in zip(preds, pool):
        r = [draw(st.sampled_from(pool)), draw(st.sampled_from(pool))]
        r[p["col"]] = h
        rows.append(r)
    case = {"preds": preds, "ops": [draw(st.sampled_from(["and", "or"])) for _ in range(n - 1)], "outer_not": draw(st.integers(0, 4)) == 0, "rows": rows}
    if with_dialect:
        case["dialect"] = draw(st.sampled_from(P_DIALECTS))
    else:
        case["pos"] = draw(st.sampled_from(COMBO_POS))
    return case


def _combo_expected(case, row):
    vals = [expected_pred(p, row[p["col"]]) for p in case["preds"]]
    r = vals[0]
    for o, v in zip(case["ops"], vals[1:]):
        r = (r and v) if o == "and" else (r or v)
    return (not r) if case.get("outer_not") else r


def _combo_classes(case):
    escs = [repr(eff_escape(p)) for p in case["preds"]]
    cls = ["npreds:%d" % len(case["preds"])]
    differ = len(set(escs)) > 1
    if differ:
        cls.append("escapes-differ")
        if "None" in escs:
            cls.append("escape-vs-no-escape")
    if any(p["op"] in LIKE_OPS for p in case["preds"]):
        cls.append("has-plain-like")
    if any(p["op"].startswith("i") or "ilike" in p["op"] for p in case["preds"]):
        cls.append("has-case-insensitive")
    return differ, cls


def _combo_expr(sa, t, case, wrap_in_subquery=False):
    parts = []
    for i, p in enumerate(case["preds"]):
        e = build(sa, t.c.s1 if p["col"] == 0 else t.c.s2, p)
        if wrap_in_subquery and i > 0:
            # the predicate sits in a correlated scalar subquery of the same statement
            e = sa.select(sa.case((e, 1), else_=0)).correlate(t).scalar_subquery() == 1
        parts.append(e)
    full = parts[0]
    for o, e in zip(case["ops"], parts[1:]):
        full = sa.and_(full, e) if o == "and" else sa.or_(full, e)
    return sa.not_(full) if case.get("outer_not") else full


def check_combo(case, ctx):
    import sqlalchemy as sa
    from vf import sautil

    differ, cls = _combo_classes(case)
    ctx.note(case, differ, classes=cls + ["pos:" + case["pos"]])
    rows = case["rows"]
    md = sa.MetaData()
    t = sa.Table("t", md, sa.Column("id", sa.Integer, primary_key=True), sa.Column("s1", sa.String(40)), sa.Column("s2", sa.String(40)))
    eng = sautil.mem_engine()
    try:
        with eng.connect() as conn:
            conn.exec_driver_sql("PRAGMA case_sensitive_like=ON")  # the i-variants render lower(...) LIKE lower(...), unaffected
            md.create_all(conn)
            conn.execute(t.insert(), [{"id": i + 1, "s1": r[0], "s2": r[1]} for i, r in enumerate(rows)])
            want = {i + 1 for i, r in enumerate(rows) if _combo_expected(case, r)}
            pos = case["pos"]
            e = _combo_expr(sa, t, case, wrap_in_subquery=(pos == "subq"))
            if pos in ("where", "subq"):
                stmt = sa.select(t.c.id).where(e)
            elif pos == "case":
                stmt = sa.select(t.c.id).where(sa.case((e, 1), else_=0) == 1)
            else:
                stmt = sa.select(t.c.id).where(sa.exists(sa.select(sa.literal_column("1")).where(e).correlate(t)))
            got = {r[0] for r in conn.execute(stmt)}
            if got != want:
                c = stmt.compile(eng)
                extra, missing = sorted(got - want), sorted(want - got)
                raise Violation(
                    "C08/combo/sqlite/" + ("false-positive" if extra else "false-negative"),
                    f"{len(case['preds'])} LIKE-family predicates in one statement ({[(p['op'], p['needle'], p['mode'], eff_escape(p)) for p in case['preds']]!r}) as "
                    f"{str(c)!r} with {c.params!r}: matched-but-should-not {[rows[i - 1] for i in extra][:4]!r}, missed {[rows[i - 1] for i in missing][:4]!r}",
                    observed=sorted(got), expected=sorted(want),
                )
    finally:
        eng.dispose()


_EXH_ALPHA = ["%", "_", "/", "a", "A"]
_EXH_HAYS = ["".join(p) for n in range(0, 5) for p in itertools.product(_EXH_ALPHA, repeat=n)]
_EXH_MODES = [("auto", None), ("auto_esc", "\\"), ("auto_esc", "_"), ("manual", "/")]


def _exh_cases(tier):
    maxlen = 2 if tier == "quick" else 3
    for n in range(0, maxlen + 1):
        for p in itertools.product(_EXH_ALPHA, repeat=n):
            for op in OPS:
                for mode, esc in _EXH_MODES:
                    yield {"needle": "".join(p), "op": op, "mode": mode, "esc": esc}


def check_exh(case, ctx):
    run_live(case, ctx, _EXH_HAYS)


# ------------------------------------------------------------------ pattern tier (other dialects)
P_DIALECTS = ["sqlite", "postgresql", "mysql", "mariadb", "mssql", "oracle"]


def _decode_str(tok_text, dname, doubled_percent):
    body = tok_text[1:-1].replace("''", "'")
    if dname in ("mysql", "mariadb"):
        out, i = [], 0
        while i < len(body):
            if body[i] == "\\" and i + 1 < len(body):
                out.append(body[i + 1])
                i += 2
            else:
                out.append(body[i])
                i += 1
        body = "".join(out)
    if doubled_percent:
        body = body.replace("%%", "%")
    return body


def _str_eval(a, dname, resolve, doubled_percent):
    k = a[0]
    if k == "paren":
        return _str_eval(a[1], dname, resolve, doubled_percent)
    if k == "atom" and a[1] == "str":
        return _decode_str(a[2], dname, doubled_percent)
    if k == "param":
        return resolve(a[1])
    if k == "pgcast":
        return _str_eval(a[1], dname, resolve, doubled_percent)
    if k == "bin" and a[1] in ("||", "+"):
        return _str_eval(a[2], dname, resolve, doubled_percent) + _str_eval(a[3], dname, resolve, doubled_percent)
    if k == "func" and a[1] == "CONCAT":
        return "".join(_str_eval(x, dname, resolve, doubled_percent) for x in a[2])
    if k == "func" and a[1] == "LOWER" and len(a[2]) == 1:
        return _str_eval(a[2][0], dname, resolve, doubled_percent).lower()
    raise HarnessError(f"pattern evaluator: unsupported node {a[:2]}")


def check_pattern(case, ctx):
    import sqlalchemy as sa
    from checks import _sqlparse as P
    from checks.c01 import _dialect

    trig = known_trigger(case)
    if trig and not case.get("pinned"):
        ctx.exclude(trig)
        ctx.note(case, False, classes=["excluded"])
        return
    dname = case["dialect"]
    feats = _classes(case)
    ctx.note(case, bool(feats), classes=["dialect:" + dname, "op:" + case["op"], "mode:" + case["mode"]] + feats)
    d = _dialect(dname)
    col = sa.column("s", sa.String())
    e = build(sa, col, case)
    c = e.compile(dialect=d)
    sql = str(c)
    spec = P.SPECS[dname]
    doubled = bool(getattr(c.preparer, "_double_percents", False))
    try:
        ast = P.parse(sql, spec)
    except P.ParseError as err:
        raise Violation(f"C08/pattern/{dname}/unparseable", f"{sql!r}: {err}", observed=sql)
    while ast[0] == "paren":
        ast = ast[1]
    neg = False
    if ast[0] == "un" and ast[1] == "NOT":
        neg = True
        ast = ast[2]
        while ast[0] == "paren":
            ast = ast[1]
    if ast[0] != "like":
        raise Violation(f"C08/pattern/{dname}/not-a-like", f"expected a LIKE predicate, got {sql!r}", observed=sql)
    _, kw, n2, left, pat, escn = ast
    neg ^= bool(n2)
    params = c.params
    pos = list(c.positiontup) if c.positiontup else None

    def resolve(key):
        return params[pos[key]] if isinstance(key, int) else params[key]

    pattern = _str_eval(pat, dname, resolve, doubled)
    esc = _str_eval(escn, dname, resolve, doubled) if escn is not None else ("\\" if dname in ("mysql", "mariadb", "postgresql") else None)
    if esc is not None and len(esc) != 1:
        raise Violation(f"C08/pattern/{dname}/escape-not-one-char", f"ESCAPE clause decodes to {esc!r} in {sql!r}", observed=esc)
    # left operand: column s, or lower(s)
    lnode = left
    while lnode[0] == "paren":
        lnode = lnode[1]
    left_lower = lnode[0] == "func" and lnode[1] == "LOWER"
    ci = kw == "ILIKE"
    for h in case["hays"]:
        hv = h.lower() if left_lower else h
        try:
            got = like_match(hv, pattern, esc, ci=ci)
        except ValueError as err:
            raise Violation(f"C08/pattern/{dname}/dangling-escape", f"{sql!r} with pattern {pattern!r}: {err}", observed=pattern)
        got ^= neg
        want = expected(case["op"], h, case["needle"]) != bool(case.get("negate"))
        if got != want:
            raise Violation(
                f"C08/{trig or ('pattern/' + dname + '/' + ('false-positive' if got else 'false-negative'))}",
                f"{dname}: {case['op']}({case['needle']!r}, mode={case['mode']}, escape={eff_escape(case)!r}) renders {sql!r} with pattern {pattern!r} ESCAPE {esc!r}; "
                f"haystack {h!r} -> {got}, expected {want}",
                observed=got, expected=want,
            )


def _combo_eval(a, row, dname, resolve, doubled):
    """2-valued evaluation of AND / OR / NOT over LIKE predicates of the parsed statement text"""
    k = a[0]
    if k == "paren":
        return _combo_eval(a[1], row, dname, resolve, doubled)
    if k == "un" and a[1] == "NOT":
        return not _combo_eval(a[2], row, dname, resolve, doubled)
    if k == "bin" and a[1] in ("AND", "OR"):
        l = _combo_eval(a[2], row, dname, resolve, doubled)
        r = _combo_eval(a[3], row, dname, resolve, doubled)
        return (l and r) if a[1] == "AND" else (l or r)
    if k == "like":
        _, kw, neg, left, pat, escn = a
        lnode = left
        while lnode[0] == "paren":
            lnode = lnode[1]
        lower = lnode[0] == "func" and lnode[1] == "LOWER"
        if lower:
            lnode = lnode[2][0]
            while lnode[0] == "paren":
                lnode = lnode[1]
        cname = lnode[2].lower().split(".")[-1].strip('"`[]') if lnode[0] == "atom" else None
        if cname not in ("s1", "s2"):
            raise HarnessError(f"combo evaluator: left operand {lnode}")
        hay = row[0 if cname == "s1" else 1]
        if lower:
            hay = hay.lower()
        pattern = _str_eval(pat, dname, resolve, doubled)
        esc = _str_eval(escn, dname, resolve, doubled) if escn is not None else ("\\" if dname in ("mysql", "mariadb", "postgresql") else None)
        if esc is not None and len(esc) != 1:
            raise Violation(f"C08/pattern/{dname}/escape-not-one-char", f"ESCAPE clause decodes to {esc!r}", observed=esc)
        try:
            r = like_match(hay, pattern, esc, ci=(kw == "ILIKE"))
        except ValueError as err:
            raise Violation(f"C08/combo/pattern/{dname}/dangling-escape", f"pattern {pattern!r} ESCAPE {esc!r}: {err}", observed=pattern)
        return r != bool(neg)
    raise HarnessError(f"combo evaluator: unsupported node {a[:2]}")


def check_combo_pattern(case, ctx):
    import sqlalchemy as sa
    from checks import _sqlparse as P
    from checks.c01 import _dialect

    dname = case["dialect"]
    differ, cls = _combo_classes(case)
    ctx.note(case, differ, classes=cls + ["dialect:" + dname])
    t = sa.table("t", sa.column("s1", sa.String()), sa.column("s2", sa.String()))
    e = _combo_expr(sa, sa.table("t", sa.column("s1", sa.String()), sa.column("s2", sa.String())), case)
    del t
    c = e.compile(dialect=_dialect(dname))
    sql = str(c)
    doubled = bool(getattr(c.preparer, "_double_percents", False))
    try:
        ast = P.parse(sql, P.SPECS[dname])
    except P.ParseError as err:
        raise Violation(f"C08/combo/pattern/{dname}/unparseable", f"{sql!r}: {err}", observed=sql)
    params = c.params
    pos = list(c.positiontup) if c.positiontup else None

    def resolve(key):
        return params[pos[key]] if isinstance(key, int) else params[key]

    for row in case["rows"]:
        got = _combo_eval(ast, row, dname, resolve, doubled)
        want = _combo_expected(case, row)
        if got != want:
            raise Violation(
                f"C08/combo/pattern/{dname}/" + ("false-positive" if got else "false-negative"),
                f"{dname}: {[(p['op'], p['needle'], p['mode'], eff_escape(p)) for p in case['preds']]!r} renders {sql!r} with {params!r}; row {row!r} -> {got}, expected {want}",
                observed=got, expected=want,
            )


def subs(tier):
    return [
        Generated("random", check_random, strategy=_random_cases(), quick=6000, thorough=200000),
        Enumerated("exh", check_exh, cases=_exh_cases),
        Generated("pattern", check_pattern, strategy=_random_cases(with_dialect=True), quick=6000, thorough=200000),
        Generated("combo", check_combo, strategy=_combo_cases(), quick=4000, thorough=150000),
        Generated("combo_pattern", check_combo_pattern, strategy=_combo_cases(with_dialect=True), quick=3000, thorough=100000),
    ]
