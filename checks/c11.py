"""C11 - row lookup by column expression returns that expression's value.

Every selected expression carries an independently computable tagged value
((table_tag+1)*1000 + (column_tag+1)*100 + row_id [+ const | negated | ...]); the
statement is executed on live SQLite and for every row the check compares
``row[i]``, ``row._mapping[expression object]`` and ``row._mapping[string key]``
with the value computed for that expression.  A string key that names more than
one selected column must raise InvalidRequestError("Ambiguous column name"), never
answer.
"""
from __future__ import annotations

import re
import warnings

from hypothesis import strategies as st

from vf.api import Generated, HarnessError, Violation

PROPERTY = "C11"
LEVEL = "exploration"
RULE = (
    "case = (engine label_length None|6-30, shape join|sub|cte|union|cache_swap|text_pos|text_name|text_loose|text_plain, 1-3 FROM elements over 3 tables with colliding "
    "column names (named / anonymous aliases, self-joins; element k is joined with id offset k so every element yields different values), 1-6 "
    "select-list expressions of kind col|label|add|addlabel|neg|func|funclabel|lit|litlabel|bind with label names drawn from a colliding pool, label "
    "style none|tpc|dis, optional second execution of an identically rebuilt statement (compiled-cache path)). Non-trivial: >=2 selected expressions "
    "share a natural/result name, or a result key was truncated/deduplicated, or a textual column was matched positionally under a different name; "
    "distinct = canonical JSON of the case"
)
ASSUMPTIONS = [
    "positional delivery row[i] is trusted after it was compared with the independently computed values (SQL meaning is C01's subject)",
    "string keys checked: every name in result.keys() (unique name -> that position's value, repeated name -> must raise Ambiguous unless all positions are the very same expression object) "
    "and the natural names of the expressions (explicit label, column name, function name, legacy tablename_colname): a natural name that is not a result key may raise NoSuchColumnError, "
    "but if it answers it must be the value of an expression carrying that name and must not answer when >=2 expressions carry it",
    "inner selects of subqueries / CTEs use a de-duplicating label style (DISAMBIGUATE_ONLY / TABLENAME_PLUS_COL) so the derived table has unique column names",
    "cache_swap: anonymous aliases / anonymous subqueries of one table and anonymous labels over bound literals are built once; statement 2 is statement 1 with these objects trading roles throughout "
    "(same cache key); executed 1,2,1,2 on one engine, every lookup must follow the invoked statement's positions (class cache-swap-hit-objects-moved = all later executions were cache hits)",
    "union rows are matched as a multiset by their positional values; lookups are then compared with the same row's positional values",
    "text().columns(): positional form matches by position whatever the names; keyword (by-name) form requires the SQL names to match; text_loose = Table columns plus one keyword column "
    "(name matching, one context column per SQL column): a column name the SQL returns twice must make its Column objects raise Ambiguous, a legacy tablename_colname match is tolerated either way",
    "only live SQLite (pysqlite reports column names exactly as written); the recording tier with upper-cased / truncated cursor.description names is not implemented",
]

TDEFS = [
    ("t0", ["a", "b", "c", "quite_long_column_name"]),
    ("t1", ["a", "b", "d", "quite_long_column_name"]),
    ("a_long_table_name_two", ["a", "c", "d", "x_1"]),
]
LABELS = ["a", "b", "y", "t0_a", "t1_a", "id", "c", "d", "sq_a", "a_long_label_name_beyond_thirty_chars", "a_1", "anon_1"]
GENLIKE = ("a_1", "anon_1")
_NAMEIDX = st.sampled_from(list(range(10)) * 3 + [10, 11])
ALIASES = [None, None, "al", "t1", "anon", "bq"]
KINDS = ["col", "col", "col", "label", "label", "add", "addlabel", "neg", "func", "funclabel", "lit", "litlabel", "bind"]
STYLES = ["none", "tpc", "dis"]
NBASE = 3


def _val(k, j, rid):
    return (k + 1) * 1000 + (j + 1) * 100 + rid


def _style(name):
    from sqlalchemy.sql import LABEL_STYLE_DISAMBIGUATE_ONLY, LABEL_STYLE_NONE, LABEL_STYLE_TABLENAME_PLUS_COL

    return {"none": LABEL_STYLE_NONE, "tpc": LABEL_STYLE_TABLENAME_PLUS_COL, "dis": LABEL_STYLE_DISAMBIGUATE_ONLY}[name]


class _World:
    """fresh metadata + engine + data for one case"""

    def __init__(self, label_length):
        from sqlalchemy import Column, Integer, MetaData, Table, insert
        from vf.sautil import mem_engine

        self.md = MetaData()
        self.tables = []
        for name, cols in TDEFS:
            self.tables.append(Table(name, self.md, Column("id", Integer, primary_key=True), *[Column(c, Integer) for c in cols]))
        kw = {"label_length": label_length} if label_length else {}
        self.engine = mem_engine(**kw)
        self.conn = self.engine.connect()
        self.md.create_all(self.conn)
        for k, t in enumerate(self.tables):
            self.conn.execute(insert(t), [dict(id=r, **{c: _val(k, j, r) for j, c in enumerate(TDEFS[k][1])}) for r in range(1, 8)])

    def close(self):
        self.conn.close()
        self.engine.dispose()


def _resolve_froms(specs):
    out = []
    used = set()
    for idx, sp in enumerate(specs):
        k = sp["t"] % 3
        alias = sp["alias"]
        name = TDEFS[k][0]
        if alias is None and name in used:
            alias = f"al{idx}"
        if alias not in (None, "anon") and alias in used:
            alias = f"{alias}{idx}"
        ename = name if alias is None else (None if alias == "anon" else alias)
        if ename is not None:
            used.add(ename)
        out.append((k, alias, ename))
    return out


class _Expr:
    __slots__ = ("obj", "fn", "names", "spec", "base_col", "kind", "tq", "label")


def _build_exprs(world, fspecs, cspecs):
    """returns (elements, resolved, joined FROM, base element, [_Expr])"""
    from sqlalchemy import func, literal, literal_column

    resolved = _resolve_froms(fspecs)
    elems = []
    for k, alias, ename in resolved:
        t = world.tables[k]
        elems.append(t if alias is None else (t.alias() if alias == "anon" else t.alias(alias)))
    base = elems[0]
    frm = base
    for d, e in enumerate(elems[1:], start=1):
        frm = frm.join(e, e.c.id == base.c.id + d)
    exprs = []
    for n, sp in enumerate(cspecs):
        ei = sp["e"] % len(elems)
        k, alias, ename = resolved[ei]
        j = sp["c"] % 4
        cname = TDEFS[k][1][j]
        col = elems[ei].c[cname]
        kind = sp["kind"]
        label = LABELS[sp["name"] % len(LABELS)]
        m = 1 + sp["name"] % 3
        x = _Expr()
        x.spec = sp
        x.kind = kind
        x.base_col = col
        tq = f"{ename}_{cname}" if ename is not None else None
        x.tq = tq if kind in ("col", "neg") else None
        x.label = label if kind in ("label", "addlabel", "funclabel", "litlabel") else None

        def basev(r, k=k, j=j, ei=ei):
            return _val(k, j, r + ei)

        if kind == "col":
            x.obj, x.fn, x.names = col, basev, {cname} | ({tq} if tq else set())
        elif kind == "label":
            x.obj, x.fn, x.names = col.label(label), basev, {label}
        elif kind == "add":
            x.obj, x.fn, x.names = col + 10000 * m, (lambda r, f=basev, m=m: f(r) + 10000 * m), set()
        elif kind == "addlabel":
            x.obj, x.fn, x.names = (col + 10000 * m).label(label), (lambda r, f=basev, m=m: f(r) + 10000 * m), {label}
        elif kind == "neg":
            x.obj, x.fn, x.names = -col, (lambda r, f=basev: -f(r)), set()
        elif kind == "func":
            x.obj, x.fn, x.names = func.abs(col - 50000), (lambda r, f=basev: 50000 - f(r)), {"abs"}
        elif kind == "funclabel":
            x.obj, x.fn, x.names = func.abs(col - 50000).label(label), (lambda r, f=basev: 50000 - f(r)), {label}
        elif kind == "lit":
            v = 70000 + n
            x.obj, x.fn, x.names = literal_column(str(v)), (lambda r, v=v: v), {str(v)}
        elif kind == "litlabel":
            v = 70000 + n
            x.obj, x.fn, x.names = literal_column(str(v)).label(label), (lambda r, v=v: v), {label}
        elif kind == "bind":
            v = 80000 + n
            x.obj, x.fn, x.names = literal(v), (lambda r, v=v: v), set()
        else:
            raise HarnessError(kind)
        exprs.append(x)
    return elems, resolved, frm, base, exprs


EXCL_RC1_FUNCS = "two unlabeled functions of the same name in one select list (known finding: duplicate detection skipped, key answers with another column)"
EXCL_RC1_GENLIKE = "explicit label shaped like a generated / de-duplicated label (anon_1, a_1): may collide with one (known finding: duplicate detection skipped)"
EXCL_RC1_TRUNC = ">=3 select-list entries share one name and are not all distinct plain columns (repeated column, or explicit labels of that name): de-duplicated proxy keys (a_N) collide with result keys (known finding: duplicate detection skipped -> wrong column, or spurious Ambiguous)"
EXCL_RC1_ANONSHIFT = "de-duplicated column names (a_1, a_2) are anonymous labels re-numbered per compilation: next to a bind parameter named after the column (a + :a_1), or picked from a derived table in another order, the rendered keys differ from the proxy / collection keys and collide with them (known finding: duplicate detection skipped, key a_2 answers with another column)"
EXCL_RC2_UNARY = "unlabeled unary minus over a column that is also selected (known finding: both share one result-map entry, column object lookup raises Ambiguous)"
EXCL_RC3_TQ = "result key / explicit label equal to the legacy tablename_colname of another selected column (known finding: raises Ambiguous)"
EXCL_RC1_TEXTNAME = "text().columns(name=type) where the SQL returns that name more than once (known finding: duplicate detection skipped)"


def _exclude(info, reason):
    info["ctx"].exclude(reason)
    raise _Skip("known-finding trigger")


def _known_exclusions_simple(recs, case, info):
    """recs: list of dicts(kind, label, cname, tq, colid) for one select list; keeps confirmed findings out of the
    oracle (pinned replays bypass this and only record the trigger for the signature)"""
    trig = []
    labels = {r["label"] for r in recs if r["label"]}
    nfunc = sum(1 for r in recs if r["kind"] == "func")
    if nfunc >= 2:
        trig.append(EXCL_RC1_FUNCS)
    if labels & set(GENLIKE):
        trig.append(EXCL_RC1_GENLIKE)
    byname = {}
    for r in recs:
        nm = r["label"] if r["label"] else (r["cname"] if r["kind"] in ("col", "neg") else None)
        if nm is not None:
            byname.setdefault(nm, []).append(r)
    for nm, ents in byname.items():
        # three or more entries of one name are only de-duplicated consistently (a, a_1, a_2) when they are distinct plain columns
        if len(ents) >= 3 and not (all(e["kind"] == "col" and not e["label"] for e in ents) and len({e["colid"] for e in ents}) == len(ents)):
            trig.append(EXCL_RC1_TRUNC)
            break
    if case.get("label_length") == 7 and EXCL_RC1_TRUNC not in trig:
        # label_length 7 truncates generated names to <first letter>_<n>: anon_1 / abs_1 / a__1 all become a_N, the
        # shape of the de-duplicated (proxy) keys of columns named "a"
        a_like = [r for r in recs if (r["kind"] in ("col", "neg") and r["cname"] == "a" and not r["label"]) or r["kind"] in ("add", "func")]
        if len(a_like) >= 2 and any(r["kind"] in ("col", "neg") for r in a_like):
            trig.append(EXCL_RC1_TRUNC)
        elif len({r["colid"] for r in recs if r["kind"] in ("col", "neg") and r["cname"] == "x_1" and not r["label"]}) >= 2:
            # the de-duplicated second column x_1_1 is truncated to x_1, the first column's own name
            trig.append(EXCL_RC1_TRUNC)
    # the de-duplicated names a_1, a_2 .. are anonymous labels numbered by the compile-wide counter that bind parameters named
    # after the column (a + :a_1) also consume, while the secondary (proxy / collection) keys stay a_1, a_2: with >=2
    # de-duplicated columns of one base name and a bind of that name the rendered key a_2 of one column is the proxy key of the next
    bases = {}
    for r in recs:
        b = r.get("base", r["cname"])
        if b is None:
            continue
        ent = bases.setdefault(b, {"cols": set(), "dedup": set(), "binds": 0})
        if r["kind"] == "col" and not r["label"]:
            (ent["dedup"] if r.get("dedup") else ent["cols"]).add(r["colid"])
        elif r["kind"] in ("add", "addlabel", "func", "funclabel"):
            ent["binds"] += 1
    for ent in bases.values():
        if ent["binds"] >= 1 and len(ent["dedup"]) + max(len(ent["cols"]) - 1, 0) >= 2:
            trig.append(EXCL_RC1_ANONSHIFT)
            break
    else:
        # derived-table columns de-duplicated by the inner select are re-numbered in the order the outer select mentions
        # them (select(sq.c.a_2, sq.c.a_1) renders sq.a_1, sq.a_2): a rendered key equal to another picked column's
        # collection key is the same collision
        for b in bases:
            order = []
            for r in recs:
                if r.get("dedup") and r.get("base") == b and r["colid"] not in [c for c, _ in order]:
                    order.append((r["colid"], r["key"]))
            rendered = {cid: f"{b}_{n}" for n, (cid, _) in enumerate(order, start=1)}
            if any(rendered[ci] == kj for ci, _ in order for cj, kj in order if cj != ci):
                trig.append(EXCL_RC1_ANONSHIFT)
                break
    plain = [r for r in recs if r["kind"] == "col"] if EXCL_RC1_TRUNC not in trig else []
    for r in plain:
        if sum(1 for q in plain if q["colid"] == r["colid"]) > 1 and any(
            (q["kind"] in ("col", "neg") and q["cname"] == r["cname"] and q["colid"] != r["colid"]) or q["label"] == r["cname"] for q in recs
        ):
            trig.append(EXCL_RC1_TRUNC)
            break
    for i, r in enumerate(recs):
        if r["kind"] == "neg" and any(j != i and q["kind"] in ("col", "neg") and q["colid"] == r["colid"] for j, q in enumerate(recs)):
            trig.append(EXCL_RC2_UNARY)
            break
    tqs = {}
    for i, r in enumerate(recs):
        if r["tq"]:
            tqs.setdefault(r["tq"], set()).add(i)
    for i, r in enumerate(recs):
        if r["label"] is not None and r["label"] in tqs and tqs[r["label"]] != {i}:
            trig.append(EXCL_RC3_TQ)
            break
    else:
        # two different derived-table columns whose .name is equal (the inner select de-duplicated them as a, a_1):
        # both carry the same legacy tablename_colname
        if any(len({recs[i]["colid"] for i in idxs}) > 1 for idxs in tqs.values()):
            trig.append(EXCL_RC3_TQ)
    if not trig:
        return
    if case.get("pinned"):
        info.setdefault("triggers", []).extend(trig)
        return
    _exclude(info, trig[0])


def _known_exclusions(exprs, case, info):
    _known_exclusions_simple(
        [dict(kind=x.kind, label=x.label, cname=x.base_col.name, tq=x.tq, colid=id(x.base_col)) for x in exprs], case, info
    )


def _join_select(world, case_part, info=None, inner=False):
    from sqlalchemy import select

    elems, resolved, frm, base, exprs = _build_exprs(world, case_part["froms"], case_part["cols"])
    if info is not None:
        _known_exclusions(exprs, info["case"], info)
    stmt = select(*[x.obj for x in exprs]).select_from(frm).where(base.c.id <= NBASE).order_by(base.c.id).set_label_style(_style(case_part["style"]))
    return stmt, exprs, base


# ---------------------------------------------------------------- the oracle
def _lookup(row, key):
    from sqlalchemy import exc

    try:
        return ("val", row._mapping[key])
    except exc.NoSuchColumnError:
        return ("nokey", None)
    except exc.InvalidRequestError as e:
        if "Ambiguous column name" in str(e):
            return ("ambiguous", None)
        raise


def _is_plain_column_named(o, s):
    from sqlalchemy.sql.elements import ColumnClause

    return isinstance(o, ColumnClause) and o.name == s


def _verify(result, objs, names, expected, case, classes, info, ordered=True, where="", soft=None, tokens=None):
    """objs[i]: lookup object or None; names[i]: set of natural names; expected: list of row tuples;
    soft[i]: names that position i additionally answers to (positional text columns given under another name);
    tokens[i]: identity of the selected expression (equal tokens = the very same expression selected twice)"""
    soft = soft or [set() for _ in objs]
    tokens = tokens or [id(o) if o is not None else ("pos", i) for i, o in enumerate(objs)]
    n = len(expected[0]) if expected else len(objs)
    keys = list(result.keys())
    rows = result.all()
    got = [tuple(r) for r in rows]
    if ordered:
        if got != expected:
            raise Violation("C11/positional/values", f"{where}positional values {got!r} differ from the computed ones {expected!r}", observed=repr(got), expected=repr(expected))
    else:
        if sorted(got) != sorted(expected):
            raise Violation("C11/positional/values", f"{where}positional values (as multiset) {sorted(got)!r} differ from the computed ones {sorted(expected)!r}", observed=repr(got), expected=repr(expected))
    if len(keys) != n:
        raise Violation("C11/keys/count", f"{where}result.keys() has {len(keys)} names for {n} columns: {keys!r}")
    repeated = {s for s in keys if keys.count(s) > 1}
    if repeated:
        info["nontrivial"] = True
        classes.add("keys-repeated")
    allnames = set()
    for ns in names:
        allnames |= ns
    if any(sum(1 for ns in names if s in ns) > 1 for s in allnames):
        info["nontrivial"] = True
        classes.add("natural-name-shared")
    if any(re.search(r"_\d+$|^_[0-9a-f]+$", s) and not any(s in ns for ns in names) for s in keys):
        info["nontrivial"] = True
        classes.add("key-deduped-or-truncated")
    cfn = _classify(info)
    for row, exp in zip(rows, got):
        # 1. expression objects
        for i, o in enumerate(objs):
            if o is None:
                continue
            res = _lookup(row, o)
            same = [p for p, t2 in enumerate(tokens) if t2 == tokens[i]]
            if res[0] == "val":
                if res[1] != exp[i] and not any(res[1] == exp[p] for p in same):
                    raise Violation(cfn("object-key/wrong-value", None), f"{where}row._mapping[<expr #{i} {o!s}>] = {res[1]!r}, that expression's value is {exp[i]!r} (row {exp!r}, keys {keys!r})", observed=repr(res[1]), expected=repr(exp[i]))
            elif len(same) > 1:
                # the very same expression object selected more than once: no wrong value is possible, raising is tolerated
                classes.add("same-object-twice-" + res[0])
            else:
                raise Violation(cfn(f"object-key/{res[0]}", None), f"{where}row._mapping[<expr #{i} {o!s}>] raised {res[0]} (row {exp!r}, keys {keys!r})", observed=res[0], expected=repr(exp[i]))
        # 2. every reported key
        for s in set(keys):
            pos = [p for p, kname in enumerate(keys) if kname == s]
            res = _lookup(row, s)
            legacy = info.get("legacy_names") or ()
            softpos = [p for p in range(n) if p not in pos and (s in soft[p] or (s in names[p] and s not in legacy))]
            if softpos:
                # the name is also a natural name of another position (its column name while the key was truncated /
                # prefixed, or a positional text column bound under that name): raising is the safe answer; an answer
                # must be one of the columns carrying the name
                classes.add("result-key-is-also-natural-name-elsewhere")
                if res[0] == "ambiguous" or (res[0] == "val" and (len(pos) == 1 or info.get("raw_text_names")) and res[1] in [exp[p] for p in pos + softpos]):
                    continue
                raise Violation(cfn("string-key/positional-name-clash-wrong-value", s), f"{where}row._mapping[{s!r}] gave {res!r}; columns carrying that name: positions {pos + softpos} (row {exp!r}, keys {keys!r})", observed=repr(res))
            if len(pos) == 1:
                if res != ("val", exp[pos[0]]):
                    raise Violation(cfn("string-key/result-key-wrong-value", s), f"{where}row._mapping[{s!r}] gave {res!r}; keys() reports {s!r} once, at position {pos[0]} whose value is {exp[pos[0]]!r} (row {exp!r}, keys {keys!r})", observed=repr(res), expected=repr(exp[pos[0]]))
            else:
                sameobj = all(tokens[p] == tokens[pos[0]] for p in pos)
                if info.get("raw_text_names") and res[0] == "val" and res[1] in [exp[p] for p in pos]:
                    # plain text(): no documented duplicate-name rule for names that only come from cursor.description
                    classes.add("raw-text-duplicate-name-answered")
                    continue
                if res[0] == "ambiguous":
                    continue
                if sameobj and res[0] == "val" and res[1] == exp[pos[0]]:
                    classes.add("same-object-twice-answered")
                    continue
                raise Violation(cfn("string-key/ambiguous-result-key-answered", s), f"{where}row._mapping[{s!r}] gave {res!r} although keys() reports that name at positions {pos} (row {exp!r})", observed=repr(res), expected="InvalidRequestError: Ambiguous column name")
        # 3. natural names that are not result keys
        for s in allnames - set(keys):
            pos = [p for p, ns in enumerate(names) if s in ns]
            res = _lookup(row, s)
            if res[0] in ("nokey", "ambiguous"):
                continue
            if res[1] not in [exp[p] for p in pos]:
                raise Violation(cfn("string-key/natural-name-wrong-column", s), f"{where}row._mapping[{s!r}] = {res[1]!r} which is not the value of any expression named {s!r} (positions {pos}, row {exp!r}, keys {keys!r})", observed=repr(res[1]), expected=repr([exp[p] for p in pos]))
            if len(pos) > 1 and info.get("style") == "dis" and res[1] == exp[pos[0]] and _is_plain_column_named(objs[pos[0]], s):
                # DISAMBIGUATE_ONLY: the first column keeps its name, later ones are renamed name_N; when label_length
                # truncates the keys the plain name still designates the first one
                classes.add("natural-name-first-of-deduplicated")
                continue
            if len(pos) > 1 and len({tokens[p] for p in pos}) > 1 and len({tuple(e[p] for e in expected) for p in pos}) > 1:
                raise Violation(cfn("string-key/shared-natural-name-answered", s), f"{where}row._mapping[{s!r}] answered {res[1]!r} although {len(pos)} selected expressions carry that name (positions {pos}, row {exp!r}, keys {keys!r})", observed=repr(res[1]), expected="InvalidRequestError: Ambiguous column name (or NoSuchColumnError)")
            classes.add("natural-name-answered")
        # 4. integer index
        for i in range(n):
            if row[i] != exp[i]:
                raise Violation("C11/int-index", f"{where}row[{i}] = {row[i]!r} != {exp[i]!r}")
    return keys


def _classify(info):
    """signature builder; a pinned known-finding case is classified by the trigger it contains"""

    def cfn(what, key):
        trig = info.get("triggers") or []
        if any(t in (EXCL_RC1_FUNCS, EXCL_RC1_GENLIKE, EXCL_RC1_TEXTNAME, EXCL_RC1_TRUNC, EXCL_RC1_ANONSHIFT) for t in trig) and what.startswith("string-key/"):
            return "C11/string-key/duplicate-detection-skipped"
        if EXCL_RC2_UNARY in trig and (what.startswith("object-key/") or what.startswith("string-key/")):
            return "C11/object-key/unlabeled-unary-shares-column-entry"
        if EXCL_RC3_TQ in trig and what.startswith("string-key/"):
            return "C11/string-key/legacy-tablename-label-collision"
        return f"C11/{what}"

    return cfn


# ---------------------------------------------------------------- shapes
def _run_compiled(world, case, classes, info, build):
    """build() -> (stmt, objs, names, expected, ordered). executed once or twice (second: identical rebuilt statement, cache hit)"""
    reps = 2 if case.get("twice") else 1
    for rep in range(reps):
        from sqlalchemy import exc

        try:
            built = build()
            stmt, objs, names, expected, ordered = built[:5]
            tokens = built[5] if len(built) > 5 else None
            res = world.conn.execute(stmt)
        except exc.InvalidRequestError as e:
            if "is being renamed to an anonymous label due to disambiguation" in str(e):
                raise _Skip("documented rejection: duplicate explicit label in a derived table")
            raise
        _verify(res, objs, names, expected, case, classes, info, ordered=ordered, where=f"[exec {rep + 1}] " if reps > 1 else "", tokens=tokens)
    if reps > 1:
        classes.add("second-exec-cached")


def _shape_join(world, case, classes, info):
    def build():
        stmt, exprs, base = _join_select(world, case, info)
        info["legacy_names"] = {x.tq for x in exprs if x.tq}
        info["style"] = case["style"]
        expected = [tuple(x.fn(r) for x in exprs) for r in range(1, NBASE + 1)]
        return stmt, [x.obj for x in exprs], [x.names for x in exprs], expected, True

    _run_compiled(world, case, classes, info, build)


def _shape_sub(world, case, classes, info):
    from sqlalchemy import select

    def build():
        cols = [dict(c, kind="litlabel") if c["kind"] == "lit" else c for c in case["cols"]]  # a derived table needs addressable column names
        elems, resolved, frm, base, exprs = _build_exprs(world, case["froms"], cols)
        _known_exclusions(exprs, case, info)
        inner = select(*[x.obj for x in exprs], base.c.id.label("rid__")).select_from(frm).where(base.c.id <= NBASE).set_label_style(_style(case["style"] if case["style"] != "none" else "dis"))
        name = case["outer"]["name"]
        sub = inner.cte(name) if case["shape"] == "cte" else inner.subquery(name)
        sc = list(sub.c)
        if len(sc) != len(exprs) + 1:
            raise _Skip("derived-table column collection collapsed repeated columns")
        objs, names, fns = [], [], []
        seen = set()
        for p in case["outer"]["pick"]:
            i = p["i"] % len(exprs)
            c = sc[i]
            kind = p["kind"]
            label = LABELS[p["name"] % len(LABELS)]
            if kind == "col":
                objs.append(c)
                names.append({c.name} | ({f"{name}_{c.name}"} if name else set()))
                fns.append(exprs[i].fn)
            elif kind == "label":
                objs.append(c.label(label))
                names.append({label})
                fns.append(exprs[i].fn)
            else:
                objs.append((c + 20000).label(label) if kind == "addlabel" else c + 20000)
                names.append({label} if kind == "addlabel" else set())
                fns.append(lambda r, f=exprs[i].fn: f(r) + 20000)
        recs = []
        for p in case["outer"]["pick"]:
            c = sc[p["i"] % len(exprs)]
            kind = p["kind"]
            anon_named = str(c.name) != str(c.key)  # derived column de-duplicated by the inner select: .name is an anonymous label
            recs.append(dict(kind=kind, label=(LABELS[p["name"] % len(LABELS)] if kind in ("label", "addlabel") else None), cname=c.name,
                             base=(re.sub(r"_\d+$", "", str(c.key)) if anon_named else str(c.name)), dedup=anon_named, key=str(c.key),
                             tq=(f"{name}_{c.name}" if (name and kind == "col") else None), colid=id(c)))
        _known_exclusions_simple(recs, case, info)
        info["legacy_names"] = {r["tq"] for r in recs if r["tq"]}
        info["style"] = case["outer"]["style"]
        outer = select(*objs).order_by(sc[-1]).set_label_style(_style(case["outer"]["style"]))
        expected = [tuple(f(r) for f in fns) for r in range(1, NBASE + 1)]
        return outer, objs, names, expected, True

    _run_compiled(world, case, classes, info, build)


def _shape_cache_swap(world, case, classes, info):
    """compiled-cache hit with the SAME column / label objects at DIFFERENT positions: n anonymous aliases (or anonymous
    subqueries) of one table and m anonymous labels over bound literals are built once and kept alive; statement 1 uses
    them in order, statement 2 is the same construction with the elements / literals trading roles throughout (same cache
    key, anonymous names are positional in it).  Lookups on each result must follow the INVOKED statement's positions."""
    from sqlalchemy import literal, select
    from sqlalchemy.engine.default import CacheStats

    cs = case["swap"]
    k = cs["t"] % 3
    t = world.tables[k]
    n = 2 + cs["n"] % 2
    elems = [(select(t).subquery() if cs["sub"] else t.alias()) for _ in range(n)]
    nlit = 2 + cs["nlit"] % 2
    lits = [literal(80000 + q).label(None) for q in range(nlit)]
    specs = []  # (kind, role/literal index, column index)
    for sp in case["cols"]:
        kind = {"col": "col", "label": "col", "neg": "col", "func": "col", "funclabel": "col", "add": "add", "addlabel": "add", "lit": "lit", "litlabel": "lit", "bind": "lit"}[sp["kind"]]
        specs.append((kind, sp["e"], sp["c"] % 4))
    # anonymous labels over an expression of each element's column: one object per (element, column), reused at other positions
    addlabels = {}

    def addlabel(e, j):
        if (e, j) not in addlabels:
            addlabels[(e, j)] = (elems[e].c[TDEFS[k][1][j]] + 10000).label(None)
        return addlabels[(e, j)]

    def perm_of(seed, size):
        items = list(range(size))
        out = []
        for i in range(size, 0, -1):
            out.append(items.pop(seed % i))
            seed //= i
        return out

    perms = [(list(range(n)), list(range(nlit))), (perm_of(cs["perm"], n), perm_of(cs["lperm"], nlit))]
    if perms[1] == perms[0]:
        perms[1] = (list(reversed(range(n))), list(reversed(range(nlit))))

    def build(pe, pl):
        role = [elems[i] for i in pe]
        frm = role[0]
        for d in range(1, n):
            frm = frm.join(role[d], role[d].c.id == role[0].c.id + d)
        objs, fns, names, recs = [], [], [], []
        for kind, idx, j in specs:
            cname = TDEFS[k][1][j]
            if kind == "lit":
                q = pl[idx % nlit]
                objs.append(lits[q])
                fns.append(lambda r, q=q: 80000 + q)
                names.append(set())
                recs.append(dict(kind="bind", label=None, cname=None, tq=None, colid=id(lits[q])))
                continue
            r_i = idx % n
            e = pe[r_i]
            if kind == "col":
                o = elems[e].c[cname]
                objs.append(o)
                fns.append(lambda r, j=j, r_i=r_i: _val(k, j, r + r_i))
                names.append({cname})
                recs.append(dict(kind="col", label=None, cname=cname, tq=None, colid=id(o)))
            else:
                o = addlabel(e, j)
                objs.append(o)
                fns.append(lambda r, j=j, r_i=r_i: _val(k, j, r + r_i) + 10000)
                names.append(set())
                recs.append(dict(kind="add", label=None, cname=cname, tq=None, colid=id(o)))
        _known_exclusions_simple(recs, case, info)
        stmt = select(*objs).select_from(frm).where(role[0].c.id <= NBASE).order_by(role[0].c.id).set_label_style(_style(case["style"]))
        expected = [tuple(f(r) for f in fns) for r in range(1, NBASE + 1)]
        return stmt, objs, names, expected

    built = [build(*perms[0]), build(*perms[1])]
    moved = any(o1 is not o2 for o1, o2 in zip(built[0][1], built[1][1]))
    info["legacy_names"] = set()
    info["style"] = case["style"]
    hits = 0
    for step, which in enumerate((0, 1, 0, 1)):
        stmt, objs, names, expected = built[which]
        res = world.conn.execute(stmt)
        if step > 0 and res.context.cache_hit is CacheStats.CACHE_HIT:
            hits += 1
        try:
            _verify(res, objs, names, expected, case, classes, info, where=f"[cache-swap exec {step + 1}: statement {which + 1}] ")
        except Violation as v:
            if step > 0 and v.signature.startswith("C11/object-key/"):
                raise Violation("C11/object-key/cache-hit-uses-cached-statement-positions", v.message, observed=v.observed, expected=v.expected)
            raise
    if moved and hits == 3:
        info["nontrivial"] = True
        classes.add("cache-swap-hit-objects-moved")
    elif hits == 3:
        classes.add("cache-swap-hit-same-positions")
    else:
        classes.add("cache-swap-cache-miss")


def _shape_union(world, case, classes, info):
    from sqlalchemy import union_all

    def build():
        s1, e1, _ = _join_select(world, case, info)
        info["legacy_names"] = {x.tq for x in e1 if x.tq}
        info["style"] = case["style"]
        second = {"froms": case["union"]["froms"], "cols": case["union"]["cols"][: len(e1)], "style": case["union"]["style"]}
        while len(second["cols"]) < len(e1):
            second["cols"] = second["cols"] + case["union"]["cols"]
            second["cols"] = second["cols"][: len(e1)]
        s2, e2, _ = _join_select(world, second, info)
        u = union_all(s1.order_by(None), s2.order_by(None))
        objs = list(u.selected_columns)
        if len(objs) != len(e1):
            raise _Skip("compound selected_columns collapsed repeated columns")
        expected = [tuple(x.fn(r) for x in e1) for r in range(1, NBASE + 1)] + [tuple(x.fn(r) for x in e2) for r in range(1, NBASE + 1)]
        return u, objs, [x.names for x in e1], expected, False, [id(x.obj) for x in e1]

    _run_compiled(world, case, classes, info, build)


def _sql_text(world, case):
    """hand-written SQL for the text() shapes: returns (sql, value fns, description names as written, elements)"""
    resolved = _resolve_froms([dict(f, alias=(f["alias"] if f["alias"] != "anon" else "an")) for f in case["froms"]])
    enames = [ename for _, _, ename in resolved]
    parts = []
    fns = []
    dnames = []
    for n, sp in enumerate(case["cols"]):
        ei = sp["e"] % len(resolved)
        k = resolved[ei][0]
        j = sp["c"] % 4
        cname = TDEFS[k][1][j]
        label = LABELS[sp["name"] % len(LABELS)]
        kind = sp["kind"]

        def basev(r, k=k, j=j, ei=ei):
            return _val(k, j, r + ei)

        ref = f"{enames[ei]}.{cname}"
        if kind in ("label", "funclabel", "litlabel"):
            parts.append(f"{ref} AS {label}")
            fns.append(basev)
            dnames.append(label)
        elif kind in ("add", "addlabel", "bind"):
            parts.append(f"{ref} + 10000 AS {label}")
            fns.append(lambda r, f=basev: f(r) + 10000)
            dnames.append(label)
        else:
            parts.append(ref)
            fns.append(basev)
            dnames.append(cname)
    frm = TDEFS[resolved[0][0]][0] + (f" AS {enames[0]}" if resolved[0][1] else "")
    for d, (k, alias, ename) in enumerate(resolved[1:], start=1):
        frm += f" JOIN {TDEFS[k][0]}" + (f" AS {ename}" if alias else "") + f" ON {ename}.id = {enames[0]}.id + {d}"
    sql = f"SELECT {', '.join(parts)} FROM {frm} WHERE {enames[0]}.id <= {NBASE} ORDER BY {enames[0]}.id"
    return sql, fns, dnames, resolved


def _shape_text(world, case, classes, info):
    from sqlalchemy import Integer, column, text

    shape = case["shape"]
    if shape == "text_loose":
        # one SQL column per distinct table column (a Table column may be given only once to text().columns())
        resolved0 = _resolve_froms([dict(f, alias=(f["alias"] if f["alias"] != "anon" else "an")) for f in case["froms"]])
        seen, cols = set(), []
        for sp in case["cols"]:
            ident = (resolved0[sp["e"] % len(resolved0)][0], sp["c"] % 4)
            if ident not in seen:
                seen.add(ident)
                cols.append(sp)
        case = dict(case, cols=cols)
    sql, fns, dnames, resolved = _sql_text(world, case)
    expected = [tuple(f(r) for f in fns) for r in range(1, NBASE + 1)]
    n = len(fns)
    info["raw_text_names"] = True
    if shape == "text_plain":
        res = world.conn.execute(text(sql))
        _verify(res, [None] * n, [{d} for d in dnames], expected, case, classes, info)
        return
    if shape == "text_pos":
        objs = []
        used_tablecols = set()
        for i, tc in enumerate(case["textcols"][:n]):
            if tc["how"] == "table":
                sp = case["cols"][i]
                ei = sp["e"] % len(resolved)
                k = resolved[ei][0]
                c = world.tables[k].c[TDEFS[k][1][sp["c"] % 4]]
                if c in used_tablecols:
                    c = column(LABELS[tc["name"] % len(LABELS)], Integer)
                used_tablecols.add(c)
                objs.append(c)
            else:
                objs.append(column(LABELS[tc["name"] % len(LABELS)], Integer))
        if not objs:
            objs = [column("y", Integer)]
        ts = text(sql).columns(*objs)
        if any(o.name != dnames[i] for i, o in enumerate(objs)):
            info["nontrivial"] = True
            classes.add("text-positional-name-differs")
        soft = [(({o.name} | ({f"{o.table.name}_{o.name}"} if getattr(o, "table", None) is not None else set())) - {dnames[i]}) for i, o in enumerate(objs)] + [set()] * (n - len(objs))
        res = world.conn.execute(ts)
        _verify(res, objs + [None] * (n - len(objs)), [{d} for d in dnames], expected, case, classes, info, soft=soft)
        # the TextualSelect's own column collection must work as well
        sc = list(ts.selected_columns)
        if len(sc) == len(objs):
            res = world.conn.execute(ts)
            _verify(res, sc + [None] * (n - len(sc)), [{d} for d in dnames], expected, case, classes, info, where="[selected_columns] ", soft=soft)
        return
    if shape == "text_loose":
        # Table columns given without positions (a keyword column switches text().columns() to name matching):
        # one context column per SQL column, so a name repeated in the SQL must make its columns ambiguous
        sql2 = sql.replace(" FROM ", ", 424242 AS zz_last FROM ", 1)
        objs = []
        for sp in case["cols"]:
            ei = sp["e"] % len(resolved)
            k = resolved[ei][0]
            objs.append(world.tables[k].c[TDEFS[k][1][sp["c"] % 4]])
        uniq_objs = list(dict.fromkeys(objs))
        if len(uniq_objs) != len(objs):
            raise _Skip("same table column twice in a textual column list")
        ts = text(sql2).columns(*objs, zz_last=Integer)
        res = world.conn.execute(ts)
        keys = list(res.keys())
        rows = res.all()
        got = [tuple(r)[:-1] for r in rows]
        if got != expected or keys != dnames + ["zz_last"]:
            raise Violation("C11/positional/values", f"text_loose: rows {got!r} / keys {keys!r} differ from {expected!r} / {dnames!r}")
        if len(set(dnames)) < len(dnames):
            info["nontrivial"] = True
            classes.add("keys-repeated")
        for row, exp in zip(rows, got):
            for i, o in enumerate(objs):
                exact = [p for p, d in enumerate(dnames) if d == o.name]
                pos = exact + [p for p, d in enumerate(dnames) if d == f"{o.table.name}_{o.name}" and p not in exact]
                r = _lookup(row, o)
                if len(exact) >= 2:
                    if r[0] != "ambiguous":
                        raise Violation("C11/text-loose/ambiguous-column-answered", f"text(..).columns({o!s}, .., zz_last=Integer): row._mapping[{o!s}] gave {r!r} although the SQL returns the name {o.name!r} at positions {exact} (names {dnames!r}, row {exp!r})", observed=repr(r), expected="InvalidRequestError: Ambiguous column name")
                    classes.add("text-loose-ambiguous")
                elif pos:
                    if r[0] == "val" and r[1] not in [exp[p] for p in pos]:
                        raise Violation("C11/text-loose/wrong-value", f"row._mapping[{o!s}] = {r[1]!r}, SQL columns of a matching name are positions {pos} (names {dnames!r}, row {exp!r})", observed=repr(r[1]), expected=repr([exp[p] for p in pos]))
                    if r[0] != "val" and len(pos) == 1:
                        others = [o2 for o2 in objs if o2 is not o and dnames[pos[0]] in (o2.name, f"{o2.table.name}_{o2.name}")]
                        if not others:
                            raise Violation(f"C11/text-loose/{r[0]}", f"row._mapping[{o!s}] raised {r[0]} although exactly one SQL column (position {pos[0]}) and no other given column matches its name (names {dnames!r})", observed=r[0], expected=repr(exp[pos[0]]))
                    classes.add("text-loose-matched")
                else:
                    if r[0] == "val":
                        raise Violation("C11/text-loose/unmatched-answered", f"row._mapping[{o!s}] = {r[1]!r} although no SQL column carries its name (names {dnames!r})", observed=repr(r[1]))
            for d in set(dnames):
                pos = [p for p, x in enumerate(dnames) if x == d]
                r = _lookup(row, d)
                if len(pos) == 1 and r[0] == "val" and r[1] != exp[pos[0]]:
                    raise Violation("C11/text-loose/string-key-wrong-value", f"row._mapping[{d!r}] = {r[1]!r}, expected {exp[pos[0]]!r} (names {dnames!r}, row {exp!r})")
                if len(pos) > 1 and r[0] == "val" and r[1] not in [exp[p] for p in pos]:
                    raise Violation("C11/text-loose/string-key-wrong-column", f"row._mapping[{d!r}] = {r[1]!r}, not among positions {pos} (row {exp!r})")
        return
    # text_name: keyword form, matched by name
    uniq = list(dict.fromkeys(dnames))
    take = [d for i, d in enumerate(uniq) if case["textcols"][i % len(case["textcols"])]["how"] != "skip"] or uniq[:1]
    if any(dnames.count(d) > 1 for d in take):
        if not case.get("pinned"):
            _exclude(info, EXCL_RC1_TEXTNAME)
        info.setdefault("triggers", []).append(EXCL_RC1_TEXTNAME)
    ts = text(sql).columns(**{d: Integer for d in take})
    res = world.conn.execute(ts)
    keys = list(res.keys())
    rows = res.all()
    got = [tuple(r) for r in rows]
    if got != expected:
        raise Violation("C11/positional/values", f"positional values {got!r} differ from the computed ones {expected!r}")
    if keys != dnames:
        raise Violation("C11/text-by-name/keys", f"keys {keys!r} != names in the SQL {dnames!r}")
    if len(set(dnames)) < len(dnames):
        info["nontrivial"] = True
        classes.add("keys-repeated")
    for row, exp in zip(rows, got):
        for d in take:
            pos = [p for p, x in enumerate(dnames) if x == d]
            for key, what in ((ts.selected_columns[d], "column"), (d, "string")):
                r = _lookup(row, key)
                if len(pos) == 1:
                    if r != ("val", exp[pos[0]]):
                        raise Violation(f"C11/text-by-name/{what}-key-wrong-value", f"text().columns({d}=Integer): row._mapping[{what} {d!r}] gave {r!r}, expected {exp[pos[0]]!r} (names {dnames!r}, row {exp!r})", observed=repr(r), expected=repr(exp[pos[0]]))
                elif r[0] != "ambiguous":
                    raise Violation(_classify(info)(f"string-key/text-by-name-{what}-key-ambiguous-answered", d), f"text().columns({d}=Integer): row._mapping[{what} {d!r}] gave {r!r} although the SQL returns {d!r} at positions {pos} (row {exp!r})", observed=repr(r), expected="InvalidRequestError: Ambiguous column name")
        for d in set(dnames) - set(take):
            pos = [p for p, x in enumerate(dnames) if x == d]
            r = _lookup(row, d)
            if len(pos) == 1 and r != ("val", exp[pos[0]]):
                raise Violation("C11/text-by-name/unmatched-name-wrong-value", f"row._mapping[{d!r}] gave {r!r}, expected {exp[pos[0]]!r}")
            if len(pos) > 1 and r[0] != "ambiguous" and not (r[0] == "val" and r[1] in [exp[p] for p in pos]):
                raise Violation("C11/text-by-name/unmatched-name-wrong-column", f"row._mapping[{d!r}] gave {r!r}; the SQL returns that name at positions {pos} (row {exp!r})")


class _Skip(Exception):
    pass


def check_select(case, ctx):
    classes = set()
    info = {"nontrivial": False, "ctx": ctx, "case": case}
    classes.add("shape:" + case["shape"])
    classes.add("style:" + case["style"])
    classes.add("label_length:" + ("default" if not case["label_length"] else ("<=12" if case["label_length"] <= 12 else ">12")))
    with warnings.catch_warnings():
        warnings.simplefilter("ignore")
        world = _World(case["label_length"])
        try:
            shape = case["shape"]
            if shape == "join":
                _shape_join(world, case, classes, info)
            elif shape in ("sub", "cte"):
                _shape_sub(world, case, classes, info)
            elif shape == "union":
                _shape_union(world, case, classes, info)
            elif shape == "cache_swap":
                _shape_cache_swap(world, case, classes, info)
            else:
                _shape_text(world, case, classes, info)
        except _Skip as e:
            classes.add("skip:" + str(e))
        except Violation:
            ctx.note(case, True, classes=classes)
            raise
        finally:
            world.close()
    ctx.note(case, info["nontrivial"], classes=classes)


# ---------------------------------------------------------------- generator
_from = st.fixed_dictionaries({"t": st.integers(0, 2), "alias": st.sampled_from(ALIASES)})
_col = st.fixed_dictionaries({"e": st.integers(0, 2), "c": st.integers(0, 3), "kind": st.sampled_from(KINDS), "name": _NAMEIDX})
_pick = st.fixed_dictionaries({"i": st.integers(0, 5), "kind": st.sampled_from(["col", "col", "label", "add", "addlabel"]), "name": _NAMEIDX})
_textcol = st.fixed_dictionaries({"how": st.sampled_from(["table", "fresh", "fresh", "skip"]), "name": _NAMEIDX})


@st.composite
def _cases(draw):
    shape = draw(st.sampled_from(["join", "join", "join", "sub", "cte", "union", "text_pos", "text_name", "text_plain", "text_loose", "cache_swap", "cache_swap"]))
    case = {
        "shape": shape,
        "label_length": draw(st.sampled_from([None, None, 6, 7, 8, 10, 12, 16, 20, 24, 30])),
        "froms": draw(st.lists(_from, min_size=1, max_size=3)),
        "cols": draw(st.lists(_col, min_size=2, max_size=6)),
        "style": draw(st.sampled_from(STYLES)),
        "twice": draw(st.booleans()),
    }
    if shape in ("sub", "cte"):
        case["outer"] = {
            "name": draw(st.sampled_from(["sq", "tz", None, "al_"])),
            "pick": draw(st.lists(_pick, min_size=1, max_size=5)),
            "style": draw(st.sampled_from(STYLES)),
        }
    if shape == "union":
        case["union"] = {"froms": draw(st.lists(_from, min_size=1, max_size=2)), "cols": draw(st.lists(_col, min_size=1, max_size=6)), "style": draw(st.sampled_from(STYLES))}
    if shape == "cache_swap":
        case["swap"] = {"t": draw(st.integers(0, 2)), "n": draw(st.integers(0, 1)), "sub": draw(st.booleans()), "nlit": draw(st.integers(0, 1)),
                        "perm": draw(st.integers(1, 5)), "lperm": draw(st.integers(0, 5))}
    if shape.startswith("text"):
        case["textcols"] = draw(st.lists(_textcol, min_size=1, max_size=6))
    return case


def subs(tier):
    return [
        Generated("selects", check_select, strategy=_cases(), quick=5000, thorough=100000),
    ]
