"""C21 - generated and truncated names are bounded, deterministic and unique.

ddl     naming conventions built from the documented tokens x names of length 1-200 x dialect / max_identifier_length;
        every rendered constraint / index name is predicted by a reference model (token expansion + the documented
        md5-suffix truncation), bounded by the dialect limit, IdentifierError for explicit over-long names,
        identical over 3 independent builds.
labels  SELECTs with many labelled / anonymous / table-qualified columns, anonymous binds and aliases with long
        colliding prefixes under a small label_length: result-column names pairwise distinct, bind parameters not
        merged, generated names within label_length, 3 compilations identical, and on live SQLite every value is
        retrievable by position and by its label.
xproc   a sample of both kinds re-rendered in fresh child processes under two other PYTHONHASHSEED values.
"""
from __future__ import annotations

import json
import os
import subprocess
import sys
import warnings

from hypothesis import strategies as st

from checks import _c21lib as L
from vf.api import Generated, HarnessError, Violation

PROPERTY = "C21"
LEVEL = "exploration"
RULE = (
    "ddl: 1-2 tables, names of length 1-200 from 6 colliding prefix families (ascii, mixed case, non-ascii), naming_convention templates drawn from the documented tokens "
    "(table_name, column_0[_N]_{name,key,label}, column_1_name, referred_*, constraint_name, custom callable) plus literal padding, explicit plain / conv() names, "
    "6 dialects x max_identifier_length in {native, 10..128}. labels: 1-3 one-row tables, 1-4 FROM objects (table, anonymous/named alias, subquery, anonymous/named CTE), "
    "5-60 select items (column, anonymous label, explicit label, unlabelled expression, literal, named bindparam), 0-8 anonymous WHERE binds, label style default / "
    "TABLENAME_PLUS_COL, label_length in {None, 1..40}; WHERE comparisons are '=' or expanding IN; one CAST item per column; in a third of the cases a user-named non-unique bindparam (with a value or required) "
    "is given exactly the name the compiler generated for an anonymous bind of the same statement (plain or label_length-truncated form) and placed before/after it in WHERE, in the SELECT list or in a scalar subquery "
    "(class named-bind-vs-anon-name; accepted outcomes: CompileError, or distinct names with every value reaching its own placeholder). Non-trivial: >=2 generated names of the case exceed the limit and share the retained prefix (truncation alone must "
    "disambiguate) - ddl: constraint names vs max length; labels: generated labels/binds vs label_length; distinct = canonical JSON of the case"
)
ASSUMPTIONS = [
    "rendered DDL names are read back from the SQL text; identifier quoting itself is C06's subject (quotes are stripped, names contain no quote characters)",
    "explicit (plain str) names are the user's responsibility: only IdentifierError beyond dialect.max_identifier_length is required; MySQL's narrower 64-char index/constraint limit for explicit names is not demanded",
    "uniqueness of md5-truncated constraint names is not documented and not required (counted as info)",
    "labels: real column names and explicit labels never end in '_<hex>' (known finding: generated disambiguation labels do not avoid existing real names)",
    "a CompileError ('conflicts with unique bind parameter' / 'reserved for automatic usage' / 'Can't reuse bound parameter name') is the accepted loud outcome for bind-name clashes; two distinct elements silently sharing one bind name/value is the violation",
    "known findings excluded by construction and pinned: expanding-IN item names ('a_1_1') colliding with an anonymous bind of a real column named 'a_1' (real names never end in _<hex>); more than one CAST of a column in a SELECT list",
    "cross-process determinism is sampled (xproc), not run for every case",
]

MAXLENS = [0, 0, 10, 12, 16, 20, 24, 30, 31, 32, 48, 63, 64, 100, 128]


# ----------------------------------------------------------------------------- reference model for convention names
def _expand(parts, tname, cols, keys, ref_t, ref_cols, cname):
    out = []
    for p in parts:
        if p[0] == "lit":
            out.append(L.mkname([p[1], p[2], p[3] if len(p) > 3 else 0]))
            continue
        tok = p[1]
        labels = [tname + "_" + c for c in cols]
        fam = {"name": cols, "key": keys, "label": labels}
        if tok == "table_name":
            out.append(tname)
        elif tok == "constraint_name":
            out.append(cname)
        elif tok == "custom_tok":
            out.append("cu" + tname[::-1][:6])
        elif tok == "referred_table_name":
            out.append(ref_t)
        elif tok.startswith("referred_column_"):
            mid = tok[len("referred_column_"):-len("_name")]
            out.append(_pick(mid, ref_cols))
        elif tok.startswith("column_"):
            rest = tok[len("column_"):]
            mid, _, attr = rest.rpartition("_")
            out.append(_pick(mid, fam[attr]))
        else:
            raise HarnessError(f"unknown token {tok}")
    return "_".join(out)


def _pick(mid, seq):
    if mid == "0N":
        return "".join(seq)
    if mid == "0_N":
        return "_".join(seq)
    i = int(mid)
    return seq[i] if i < len(seq) else ""


def _model_names(c):
    """-> {key: (full_name | None, kind, generated: bool)}"""
    tn = []
    for t in c["tables"]:
        n = L.mkname(t["name"])
        if n in tn:
            n += "q"
        tn.append(n)
    colnames = [[L.mkname(col) for col in t["cols"]] for t in c["tables"]]
    keys = [[("k" + str(ci) + colnames[ti][ci][:5]) if (len(col) > 3 and col[3]) else colnames[ti][ci] for ci, col in enumerate(t["cols"])] for ti, t in enumerate(c["tables"])]
    conv = c["conv"]

    def has_cn(kind):
        return bool(conv.get(kind)) and any(p[0] == "tok" and p[1] == "constraint_name" for p in conv[kind])

    def decide(kind, ti, cis, ns, ref=None):
        cols = [colnames[ti][x] for x in cis]
        ks = [keys[ti][x] for x in cis]
        ref_t, ref_cols = (tn[0], colnames[0][: len(cis)]) if ref else ("", [])
        if ns is not None and ns[0] == "conv":
            return L.mkname([ns[1], ns[2], ns[3] if len(ns) > 3 else 1]), True
        explicit = L.mkname([ns[1], ns[2], ns[3] if len(ns) > 3 else 1]) if ns is not None else None
        tmpl = conv.get(kind)
        if tmpl and (explicit is None or has_cn(kind)):
            if has_cn(kind) and explicit is None:
                return "NEEDS-NAME", True
            full = _expand(tmpl, tn[ti], cols, ks, ref_t, ref_cols, explicit)
            if full == "":  # an empty convention result assigns no name
                return (explicit, False) if not has_cn(kind) else (None, False)
            return full, True
        return explicit, False

    res = {}
    npk = max(1, min(len(colnames[0]), c["pk"][0]))
    full, gen = decide("pk", 0, list(range(npk)), c["pk"][1])
    res["pk0"] = (full, "pk", gen)
    for j, (kind, ti, cis, ns) in enumerate(c["cons"]):
        base = {"colunique": "uq", "colindex": "ix"}.get(kind, kind)
        full, gen = decide(base, ti, cis, ns, ref=(kind == "fk"))
        res[f"c{j}"] = (full, base, gen)
    return res


def _limit(dialect, kind):
    if kind == "ix":
        return dialect.max_index_name_length or dialect.max_identifier_length
    return dialect.max_constraint_name_length or dialect.max_identifier_length


def _expect_rendered(full, gen, lim, dialect):
    """-> ("name", predicate description, fn) | ("error",)"""
    if not gen:
        if len(full) > dialect.max_identifier_length:
            return ("error",)
        return ("exact", full)
    if len(full) <= lim:
        return ("exact", full)
    return ("trunc", full)


def check_ddl(case, ctx):
    from sqlalchemy import exc

    c = L.norm_ddl_case(case)
    dialect = L.make_dialect(c["dialect"], c["maxlen"])
    model = _model_names(c)
    classes = {"dialect=" + L.DIALECTS[c["dialect"] % len(L.DIALECTS)], "maxlen=" + ("native" if not c["maxlen"] else "set")}
    needs = [k for k, (full, kind, gen) in model.items() if full == "NEEDS-NAME"]
    # non-trivial: >=2 generated names beyond the limit sharing the retained prefix
    groups = {}
    for k, (full, kind, gen) in model.items():
        if full and gen and full != "NEEDS-NAME":
            lim = _limit(dialect, kind)
            if len(full) > lim:
                groups.setdefault(full[: max(lim - 8, 0)], set()).add(full)
                classes.add("truncated")
        if full and not gen and len(full) > dialect.max_identifier_length:
            classes.add("explicit-too-long")
    nontrivial = any(len(v) >= 2 for v in groups.values())
    if needs:
        classes.add("constraint_name-token-without-name")
    for k, (full, kind, gen) in model.items():
        classes.add("kind=" + kind)
    ctx.note(case, nontrivial, classes=classes)

    if needs:
        try:
            L.build_ddl(c)
        except exc.InvalidRequestError as e:
            if "requires that constraint is explicitly named" not in str(e):
                raise
            return
        raise Violation("C21/naming/constraint_name-token-unnamed-accepted", f"convention uses %(constraint_name)s, constraints {needs} have no name, but no InvalidRequestError was raised")

    renders = []
    for rep in range(3):
        renders.append(L.render_ddl(c, dialect))
    if not (L_canon(renders[0]) == L_canon(renders[1]) == L_canon(renders[2])):
        raise Violation("C21/ddl/non-deterministic-across-builds", "three independent builds of the same schema rendered different DDL", observed=[r["names"] for r in renders])
    r = renders[0]
    for k, (full, kind, gen) in model.items():
        got_err = r["errors"].get(k)
        got = r["names"].get(k)
        if full is None and kind == "ix":
            if got_err != "IndexWithoutName":
                raise Violation("C21/ddl/unexpected-name", f"{k}: index without any name rendered {got!r} / {got_err}", observed=got, expected="CompileError (index needs a name)")
            continue
        if full is None:
            if got is not None or got_err:
                raise Violation("C21/ddl/unexpected-name", f"{k}: no convention and no explicit name, but rendered {got!r} / {got_err}", observed=got, expected=None)
            continue
        lim = _limit(dialect, kind)
        exp = _expect_rendered(full, gen, lim, dialect)
        if exp[0] == "error":
            if got_err != "IdentifierError":
                raise Violation("C21/ddl/explicit-overlong-name-accepted", f"{k}: explicit name of {len(full)} chars > max_identifier_length {dialect.max_identifier_length} rendered as {got!r} without IdentifierError",
                                observed=got, expected="IdentifierError")
            continue
        if got_err:
            raise Violation("C21/ddl/spurious-IdentifierError", f"{k}: {got_err} for {'generated' if gen else 'explicit'} name of {len(full)} chars (limit {lim})", observed=got_err, expected=full[:80])
        if got is None:
            raise Violation("C21/ddl/name-not-rendered", f"{k}: expected name {full[:80]!r} does not appear in the DDL", observed=r["ddl"][-1] if r["ddl"] else None, expected=full[:120])
        if gen and len(got) > lim:
            raise Violation("C21/ddl/name-exceeds-limit", f"{k}: rendered {kind} name has {len(got)} chars, limit {lim}: {got!r}", observed=got, expected=f"<= {lim} chars")
        if exp[0] == "exact":
            if got != full:
                raise Violation(f"C21/ddl/{kind}/wrong-name", f"{k}: rendered {got!r}, convention/explicit name is {full!r}", observed=got, expected=full)
        else:
            tail = "_" + L.md5_tail(full)
            if not (got.endswith(tail) and full.startswith(got[: -len(tail)]) and len(got) >= min(lim, 8) - 8):
                raise Violation(f"C21/ddl/{kind}/wrong-truncation", f"{k}: over-long name ({len(full)} > {lim}) rendered {got!r}; documented form is <prefix of the name>_<last 4 of md5 = {tail[1:]}>",
                                observed=got, expected=full[: max(lim - 8, 0)] + tail)
        inl = r["names"].get("inline-" + k)
        if inl is not None and inl != got:
            raise Violation("C21/ddl/inline-name-differs", f"{k}: name inside CREATE TABLE differs from ALTER TABLE ADD CONSTRAINT: {inl} vs {got!r}", observed=str(inl), expected=got)
    seen = {}
    for k, (full, kind, gen) in model.items():
        got = r["names"].get(k)
        if got and gen and full != got:
            if got in seen and seen[got] != full:
                ctx.info("md5-truncated names of two different constraints coincide")
            seen[got] = full


def L_canon(r):
    return json.dumps(r, sort_keys=True, default=str)


# ----------------------------------------------------------------------------- labels
def _sqlite_engine(label_length):
    from sqlalchemy import create_engine
    from sqlalchemy.pool import StaticPool

    kw = {}
    if label_length:
        kw["label_length"] = label_length
    return create_engine("sqlite://", poolclass=StaticPool, **kw)


def check_labels(case, ctx):
    from sqlalchemy import exc

    c = case
    ll = c.get("label_length") or None
    md, tables, tvals, stmt, expected, info = L.build_select(c)
    eng = _sqlite_engine(ll)
    nb_classes = []
    try:
        dialect = eng.dialect
        eff = ll or dialect.max_identifier_length
        nb = c.get("nbind")
        if nb:
            # resolve the name the compiler generates for one anonymous bind of this very statement and give it to a user-named bind
            base = stmt.compile(dialect=dialect)
            anon = [p for p in base.params if p not in info["explicit"]]
            if anon:
                pos = NB_POS[nb[1] % len(NB_POS)]
                c = dict(c, nbind_resolved={"name": anon[nb[0] % len(anon)], "pos": pos, "required": bool(nb[2])})
                md, tables, tvals, stmt, expected, info = L.build_select(c)
                nb_classes = ["named-bind-vs-anon-name", "nbind:" + pos, "nbind:required" if nb[2] else "nbind:valued"]
                if len(anon[nb[0] % len(anon)]) > (eff - 6) and ll:
                    nb_classes.append("nbind:truncated-name")
        for _ in range(info["excluded_casts"]):
            ctx.exclude("second CAST of one column in a SELECT list (known finding: CAST de-duplication label ignores the occurrence index)")
        nbr = c.get("nbind_resolved")
        extra = {nbr["name"]: L.NBIND_VALUE} if nbr and nbr.get("required") else {}
        comps = []
        try:
            for rep in range(3):
                comp = (stmt if rep < 2 else L.build_select(c)[3]).compile(dialect=dialect)
                comps.append((str(comp), sorted(comp.params.items())))
        except exc.CompileError as e:
            if "conflicts with unique bind parameter" in str(e) or "is reserved for automatic usage" in str(e) or "Can't reuse bound parameter name" in str(e):
                # documented loud outcome (a); counted non-trivial when the clash was constructed on purpose
                ctx.note(case, bool(nb_classes), classes=["bind-conflict-CompileError"] + nb_classes)
                return
            raise
        comp = stmt.compile(dialect=dialect)
        keys = [rc.keyname for rc in comp._result_columns]
        pnames = list(comp.params)
        generated = [k for k in keys if k not in info["explicit"] and k not in info["real"]] + [p for p in pnames if p not in info["explicit"]]
        groups = {}
        for g in generated:
            if len(g) > eff - 6:
                groups.setdefault(g[: max(eff - 6, 0)], set()).add(g)
        nontrivial = any(len(v) >= 2 for v in groups.values())
        classes = {"style=" + (c.get("style") or "default"), "label_length=" + ("none" if not ll else ("<6" if ll < 6 else "set"))}
        if nontrivial:
            classes.add("truncation-disambiguates")
        kinds = {f[0] for f in c["froms"]}
        classes.update("from=" + k for k in kinds)
        classes.add("items>=20" if len(expected) >= 20 else "items<20")
        classes.update(nb_classes)
        if nb_classes:
            classes.add("nbind-compiled-without-error")
        if any(len(w) > 2 and w[2] for w in c.get("where", [])):
            classes.add("expanding-in")
        if any(it[0] == "cast" for it in c["items"]):
            classes.add("cast-item")
        for r in info["rep"]:
            classes.add("repeat:" + r["form"])
            classes.add("repeat>=3" if r["count"] >= 3 else "repeat=2")
            if r["lead"]:
                classes.add("repeat:after-same-named-column-of-other-from")
                if r["count"] >= 3 and r["form"] != "anon" and not r["interleaved"]:
                    classes.add("repeat:second-level-dedupe-x3")
            if r["interleaved"]:
                classes.add("repeat:interleaved")
        ctx.note(case, nontrivial or bool(nb_classes) or any(r["count"] >= 3 for r in info["rep"]), classes=classes)

        if not (comps[0] == comps[1] == comps[2]):
            raise Violation("C21/labels/non-deterministic-compile", "three compilations of the same statement differ", observed=[x[0][:400] for x in comps])
        if len(keys) != len(expected):
            raise HarnessError(f"result columns {len(keys)} != items {len(expected)}")
        # (a) result column names pairwise distinct
        # (one Label object selected several times keeps its single name by design; generated de-duplication labels of repeated
        # columns / casts must be "unique within the single columns clause" (selectable.py); LABEL_STYLE_NONE does not disambiguate)
        style_none = c.get("style") == "none"
        lg = info["label_groups"]
        dup = set()
        for k in set(keys):
            pos = [i for i, kk in enumerate(keys) if kk == k]
            if len(pos) > 1 and not (all(i in lg for i in pos) and len({lg[i] for i in pos}) == 1):
                dup.add(k)
        tolerated = {k for k in keys if keys.count(k) > 1} - dup
        if style_none:
            tolerated |= dup
            dup = set()
        if dup:
            real_clash = [k for k in dup if k in info["real"] or k in info["explicit"]]
            sig = "C21/labels/generated-label-collides-with-real-name" if real_clash else "C21/labels/duplicate-result-column-name"
            if not real_clash and any(it[0] == "cast" for it in c["items"]) and all("__" in k for k in dup):
                sig = "C21/labels/repeated-cast-dedupe-label-ignores-index"
            raise Violation(sig, f"result-column names are not distinct: {sorted(dup)[:5]} in {keys[:12]}...", observed=keys[:40], expected="pairwise distinct")
        # (b) generated names within label_length (documented: '_<counter>' when label_length < 6)
        if ll and ll >= 6:
            over = [g for g in generated if len(g) > ll]
            if over:
                raise Violation("C21/labels/generated-name-exceeds-label_length", f"label_length={ll}: generated names {over[:4]}", observed=over[:10], expected=f"<= {ll} chars")
        # (c) bind parameters: one per distinct element, values intact
        exp_params = [v for v in expected if v >= 100000 and not (nbr and nbr["pos"].startswith("select") and v == L.NBIND_VALUE)]
        for k, w in enumerate(c.get("where", [])):
            exp_params.append(_where_val(c, w, tvals))
            if len(w) > 2 and w[2]:
                exp_params.append(900000 + k)
        exp_params += [it[3] % 50 for it in _kept_exprs(c)]
        if nbr:
            exp_params.append(L.NBIND_VALUE)
        exp_params.sort()
        # names as they reach the cursor (expanding IN parameters rendered): one name per distinct element, values intact
        pc = stmt.compile(dialect=dialect, compile_kwargs={"render_postcompile": True})
        got_params = sorted(pc.construct_params(extra).values())
        if got_params != exp_params:
            sig = "C21/labels/bind-parameters-merged-or-lost"
            if nbr and got_params.count(L.NBIND_VALUE) != 1 or (nbr and len(got_params) < len(exp_params)):
                sig = "C21/binds/named-bind-shares-name-with-anonymous-bind"
            elif any(len(w) > 2 and w[2] for w in c.get("where", [])) and len(got_params) < len(exp_params):
                sig = "C21/binds/expanding-in-name-collides-with-anonymous-bind"
            raise Violation(sig, f"bind values reaching the cursor {got_params[:20]} != one per distinct element {exp_params[:20]} (names {list(pc.params)[:12]}; SQL {str(pc)[:300]!r})",
                            observed=got_params[:60], expected=exp_params[:60])
        # (d) behaviour on live SQLite
        with warnings.catch_warnings():
            warnings.simplefilter("ignore")
            with eng.connect() as conn:
                md.create_all(conn)
                for t, vals in zip(tables, tvals):
                    conn.execute(t.insert().values(**{k: v for k, v in vals.items()}))
                res = conn.execute(stmt, extra) if extra else conn.execute(stmt)
                rkeys = list(res.keys())
                rows = res.all()
        if len(rows) != 1:
            raise Violation("C21/labels/wrong-rows", f"the statement selects the single row of each table but returned {len(rows)} rows: a bind value reached the wrong placeholder", observed=[list(r) for r in rows][:5], expected=[expected[:20]])
        row = rows[0]
        if rkeys != keys:
            raise Violation("C21/labels/result-keys-differ-from-compiled", f"{rkeys[:8]} vs {keys[:8]}", observed=rkeys[:40], expected=keys[:40])
        # known finding: the Select-level de-duplication key ("x_1") of another column is also registered as a string key of
        # the result and shadows an identically named compile-level anonymous label
        sel_keys = [str(k) for k in stmt.selected_columns.keys()]
        shadowed = {k for i, k in enumerate(keys) if any(sk == k and j != i for j, sk in enumerate(sel_keys))}
        for i, (k, ev) in enumerate(zip(keys, expected)):
            if k in tolerated or style_none:
                if row[i] != ev:
                    raise Violation("C21/labels/wrong-value-at-position", f"position {i} ({k}): {row[i]!r} != {ev!r}", observed=row[i], expected=ev)
                continue
            if k in shadowed and not c.get("pinned"):
                ctx.exclude("label equals the select-level proxy key of another column (known finding: string lookup returns the other column)")
                continue
            if row[i] != ev:
                raise Violation("C21/labels/wrong-value-at-position", f"position {i} ({k}): {row[i]!r} != {ev!r}", observed=row[i], expected=ev)
            try:
                v = row._mapping[k]
            except exc.InvalidRequestError as e:
                if info["rep"] and "Ambiguous column name" in str(e):
                    # one column selected several times in several guises: a loud ambiguity error for a string key is accepted
                    ctx.info("ambiguous string lookup among repeated elements (loud)")
                    continue
                raise Violation("C21/labels/value-not-retrievable-by-label", f"row._mapping[{k!r}] raised {type(e).__name__}: {e}", observed=str(e)[:300], expected=ev)
            except exc.SQLAlchemyError as e:
                raise Violation("C21/labels/value-not-retrievable-by-label", f"row._mapping[{k!r}] raised {type(e).__name__}: {e}", observed=str(e)[:300], expected=ev)
            if v != ev and k in shadowed:
                raise Violation("C21/labels/select-proxy-key-shadows-generated-label",
                                f"row._mapping[{k!r}] = {v!r} but the column rendered 'AS {k}' has value {ev!r}: another column's select-level key {k!r} is registered for string lookup too",
                                observed=v, expected=ev)
            if v != ev:
                raise Violation("C21/labels/wrong-value-by-label", f"row._mapping[{k!r}] = {v!r}, the element labelled so has value {ev!r}", observed=v, expected=ev)
    finally:
        eng.dispose()


NB_POS = ["first", "last", "select_first", "select_last", "subq_first", "subq_last"]


def _where_val(c, w, tvals):
    # value bound in the WHERE comparison number w (mirrors build_select)
    nt = len(c["tables"])
    f = c["froms"][w[0] % len(c["froms"])]
    vals = tvals[f[1] % nt]
    names = list(vals)
    return vals[names[w[1] % len(names)]]


def _kept_exprs(c):
    return [it for it in c["items"] if it[0] in ("expr", "expr_lbl")]


# ----------------------------------------------------------------------------- strategies
_namespec = st.tuples(st.sampled_from([1, 2, 3, 5, 8, 12, 20, 29, 30, 31, 40, 60, 63, 64, 65, 100, 128, 129, 200]), st.integers(0, 255), st.integers(0, 5)).map(list)
_shortname = st.tuples(st.integers(1, 12), st.integers(0, 255), st.integers(0, 5)).map(list)


@st.composite
def _ddl_cases(draw):
    collide = draw(st.integers(0, 3)) > 0  # long table name + conventions that start with it + a small limit
    long_bias = collide or draw(st.booleans())
    nm = _namespec if long_bias else st.one_of(_namespec, _shortname)
    share = collide or draw(st.booleans())  # columns share one prefix family and length -> colliding prefixes

    def col():
        s = draw(nm)
        return s + [int(draw(st.integers(0, 4)) == 0)]

    tables = []
    for ti in range(draw(st.sampled_from([1, 2, 2]))):
        ncols = draw(st.integers(1, 5))
        cols = [col() for _ in range(ncols)]
        if share and ncols > 1:
            for cc in cols[1:]:
                cc[0], cc[2] = cols[0][0], cols[0][2]
        tname = draw(nm)
        if collide:
            tname[0] = draw(st.sampled_from([40, 64, 100, 130, 200]))
        tables.append({"name": tname, "cols": cols})
    lead = draw(st.sampled_from([["tok", "table_name"], ["tok", "table_name"], ["lit", 130, 7, draw(st.integers(0, 5))], ["tok", "column_0_label"]]))

    def tmpl(kind):
        toks = L.TOKENS_COMMON + (L.TOKENS_FK if kind == "fk" else [])
        n = draw(st.integers(1, 4))
        parts = [list(lead)] if collide else []
        for _ in range(n):
            if draw(st.integers(0, 3)) == 0:
                parts.append(["lit", draw(st.sampled_from([2, 3, 10, 30, 60])), draw(st.integers(0, 255)), draw(st.integers(0, 5))])
            else:
                t = draw(st.sampled_from(toks))
                if t == "constraint_name" and draw(st.integers(0, 2)):
                    t = "column_0_N_name"
                parts.append(["tok", t])
        return parts

    conv = {}
    for kind in ("ix", "uq", "ck", "fk", "pk"):
        if collide or draw(st.integers(0, 4)) > 0:
            conv[kind] = tmpl(kind)
    dialect = draw(st.integers(0, 5))
    maxlen = draw(st.sampled_from(MAXLENS[2:] if collide and draw(st.booleans()) else MAXLENS))
    lim = 64 if dialect == 2 else (maxlen or [199, 63, 64, 199, 128, 128][dialect])  # effective constraint/index name limit
    # explicit / conv() names, a third of them exactly at the limit -1 / 0 / +1
    ns = st.one_of(st.none(), st.none(), st.tuples(st.sampled_from(["plain", "conv"]), st.sampled_from([3, 9, 10, 11, 30, 63, 64, 65, 127, 128, 129, 200]), st.integers(0, 255)).map(list),
                   st.tuples(st.sampled_from(["plain", "conv", "conv"]), st.sampled_from([lim - 1, lim, lim + 1]), st.integers(0, 255)).map(list))
    cons = []
    for _ in range(draw(st.integers(3 if collide else 1, 7))):
        kind = draw(st.sampled_from(["uq", "ix", "ck", "fk", "fk", "colunique", "colindex", "uq", "ix"]))
        cons.append([kind, draw(st.integers(0, 1)), draw(st.lists(st.integers(0, 4), min_size=1, max_size=3)), draw(ns)])
    return {"dialect": dialect, "maxlen": maxlen, "conv": conv, "tables": tables, "cons": cons,
            "pk": [draw(st.integers(1, 2)), draw(ns)], "strict_err": draw(st.integers(0, 9)) == 0}


@st.composite
def _label_cases(draw):
    ll = draw(st.sampled_from([0, 0, 1, 5, 6, 7, 8, 10, 12, 16, 20, 30, 40]))
    fam = draw(st.integers(0, 5))
    ln = draw(st.sampled_from([3, 8, 15, 30, 60, 120, 200]))
    pool = [[draw(st.sampled_from([ln, ln, ln + 1, 4])), draw(st.integers(0, 255)), fam] for _ in range(draw(st.integers(1, 6)))]
    tables = []
    for ti in range(draw(st.integers(1, 3))):
        cols = draw(st.lists(st.sampled_from(pool), min_size=1, max_size=6))
        tables.append({"name": [draw(st.sampled_from([ln, 5, 40])), draw(st.integers(0, 255)), fam], "cols": cols})
    froms = []
    for fi in range(draw(st.integers(1, 4))):
        kind = draw(st.sampled_from(["plain", "plain", "anon_alias", "anon_alias", "named_alias", "subq", "cte", "named_cte"]))
        froms.append([kind, draw(st.integers(0, 2)), draw(st.sampled_from([3, 30, 120])), draw(st.integers(0, 255))])
    items = []
    nitems = draw(st.sampled_from([5, 8, 12, 20, 35, 60]))
    for _ in range(nitems):
        k = draw(st.sampled_from(["col", "col", "col_anon", "col_anon", "col_lbl", "expr", "expr", "expr_lbl", "lit", "lit", "bind", "cast"]))
        if draw(st.integers(0, 7)) == 0:
            items.append(["rep", draw(st.integers(0, 2)), draw(st.integers(0, 3)), draw(st.integers(0, 5)), draw(st.integers(0, 3)), draw(st.integers(0, 3))])
            continue
        if k == "cast":
            items.append([k, draw(st.integers(0, 3)), draw(st.integers(0, 5)), draw(st.integers(1, 2))])
            continue
        if k in ("col", "col_anon"):
            items.append([k, draw(st.integers(0, 3)), draw(st.integers(0, 5))])
        elif k == "col_lbl":
            items.append([k, draw(st.integers(0, 3)), draw(st.integers(0, 5)), draw(st.sampled_from([2, 30, 100])), draw(st.integers(0, 255))])
        elif k == "expr":
            items.append([k, draw(st.integers(0, 3)), draw(st.integers(0, 5)), draw(st.integers(1, 49))])
        elif k == "expr_lbl":
            items.append([k, draw(st.integers(0, 3)), draw(st.integers(0, 5)), draw(st.integers(1, 49)), draw(st.sampled_from([2, 30, 100])), draw(st.integers(0, 255))])
        elif k == "lit":
            items.append([k])
        else:
            items.append([k, draw(st.sampled_from([2, 30, 100])), draw(st.integers(0, 255))])
    where = [[draw(st.integers(0, 3)), draw(st.integers(0, 5)), int(draw(st.integers(0, 3)) == 0)] for _ in range(draw(st.integers(0, 8)))]
    nbind = [draw(st.integers(0, 20)), draw(st.integers(0, 5)), int(draw(st.integers(0, 2)) == 0)] if draw(st.integers(0, 2)) == 0 else None
    return {"dialect": 3, "maxlen": 0, "label_length": ll, "style": draw(st.sampled_from(["default", "default", "tq", "tq", "none"])), "tables": tables, "froms": froms, "items": items, "where": where, "nbind": nbind}


# ----------------------------------------------------------------------------- cross-process determinism
_CHILD = "import sys; sys.path.insert(0, %r); from vf import purehook; purehook.install(); from checks import _c21lib; _c21lib.child_main()"


def _run_child(batch, hashseed, scratch):
    verif = os.path.dirname(os.path.dirname(os.path.abspath(__file__)))
    # bytecode of the (pure-Python) library is cached under the shard's scratch dir so that only the first child compiles it
    env = dict(os.environ, PYTHONHASHSEED=str(hashseed), PYTHONPYCACHEPREFIX=os.path.join(scratch, "pyc"))
    env.pop("PYTHONDONTWRITEBYTECODE", None)
    p = subprocess.run([sys.executable, "-c", _CHILD % verif], input=json.dumps(batch), capture_output=True, text=True, env=env, cwd=verif)
    if p.returncode != 0:
        raise HarnessError(f"child failed rc={p.returncode}: {p.stderr[-1500:]}")
    return json.loads(p.stdout)


def check_xproc(case, ctx):
    batch = [["ddl", c] for c in case["ddl"]] + [["sel", c] for c in case["sel"]]
    mine = []
    for kind, c in batch:
        try:
            if kind == "ddl":
                r = L.render_ddl(L.norm_ddl_case(c), L.make_dialect(c["dialect"], c["maxlen"]))
                mine.append({"names": r["names"], "errors": r["errors"], "ddl": r["ddl"]})
            else:
                mine.append(L.render_select(c, L.make_dialect(c["dialect"], c["maxlen"], c.get("label_length"))))
        except Exception as e:
            mine.append({"exception": type(e).__name__ + ": " + str(e)[:200]})
    mine = json.loads(json.dumps(mine))
    n_named = sum(1 for m in mine for v in (m.get("names") or {}).values() if v)
    ctx.note(case, n_named >= 2 or len(case["sel"]) > 0, classes=[f"batch={len(batch)}"])
    for hs in (1, 424242):
        theirs = _run_child(batch, hs, ctx.scratch)
        for i, (a, b) in enumerate(zip(mine, theirs)):
            if a != b:
                what = batch[i][0]
                if "exception" in a or "exception" in b:
                    if a.get("exception", "").split(":")[0] == b.get("exception", "").split(":")[0]:
                        continue
                diff = [k for k in set(a) | set(b) if a.get(k) != b.get(k)]
                raise Violation(f"C21/xproc/{what}-differs-across-processes", f"item {i} ({what}) rendered differently in a fresh process with PYTHONHASHSEED={hs}: fields {diff}",
                                observed=json.dumps(b, default=str)[:1500], expected=json.dumps(a, default=str)[:1500])


@st.composite
def _xproc_cases(draw):
    # one child process per hash seed re-renders the whole batch (process start-up dominates the cost)
    return {"ddl": draw(st.lists(_ddl_cases(), min_size=12, max_size=12)), "sel": draw(st.lists(_label_cases(), min_size=8, max_size=8))}


def subs(tier):
    return [
        Generated("ddl", check_ddl, strategy=_ddl_cases(), quick=500, thorough=50000),
        Generated("labels", check_labels, strategy=_label_cases(), quick=400, thorough=30000),
        Generated("xproc", check_xproc, strategy=_xproc_cases(), quick=16, thorough=320),
    ]
