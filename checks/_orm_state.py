"""Shared ORM fixture for the C34-C37 group (identity map, lifecycle, history, backrefs).

One fixed family of mapped classes is built once per process in a private
``registry()``; the classes are never altered afterwards, so they are shared by
all cases.  Every case builds its own engine (SQLite), tables and sessions.
"""
from __future__ import annotations

import contextlib
import warnings

from sqlalchemy import Column, ForeignKey, Integer, String, Table, event, inspect
from sqlalchemy.orm import Session, attribute_keyed_dict, backref, mapped_column, registry, relationship

from vf import sautil

reg = registry()
Base = reg.generate_base()


class Thing(Base):
    """plain row; mutable integer primary key (C34 PK switch, C35 lifecycle)"""

    __tablename__ = "thing"
    id = mapped_column(Integer, primary_key=True)
    x = mapped_column(Integer)

    def __repr__(self):
        return f"Thing#{self.__dict__.get('id', '?')}"


# --- one-to-many / many-to-one, list collection, backref -------------------------------
class UserL(Base):
    __tablename__ = "user_l"
    id = mapped_column(Integer, primary_key=True)
    name = mapped_column(String)  # active_history off
    nick = mapped_column(String, active_history=True)
    addresses = relationship("AddrL", backref="user")


class AddrL(Base):
    __tablename__ = "addr_l"
    id = mapped_column(Integer, primary_key=True)
    user_id = mapped_column(ForeignKey("user_l.id"))
    email = mapped_column(String)


# --- one-to-many / many-to-one, set collection, back_populates, active_history m2o ------
class UserS(Base):
    __tablename__ = "user_s"
    id = mapped_column(Integer, primary_key=True)
    addresses = relationship("AddrS", back_populates="user", collection_class=set)


class AddrS(Base):
    __tablename__ = "addr_s"
    id = mapped_column(Integer, primary_key=True)
    user_id = mapped_column(ForeignKey("user_s.id"))
    user = relationship("UserS", back_populates="addresses", active_history=True)


# --- one-to-one ---------------------------------------------------------------------------
class Person(Base):
    __tablename__ = "person"
    id = mapped_column(Integer, primary_key=True)
    passport = relationship("Passport", back_populates="person", uselist=False)


class Passport(Base):
    __tablename__ = "passport"
    id = mapped_column(Integer, primary_key=True)
    person_id = mapped_column(ForeignKey("person.id"))
    person = relationship("Person", back_populates="passport")


# --- many-to-many, list both sides, backref -----------------------------------------------
item_keyword = Table(
    "item_keyword",
    Base.metadata,
    Column("item_id", ForeignKey("item.id"), primary_key=True),
    Column("keyword_id", ForeignKey("keyword.id"), primary_key=True),
)


class Item(Base):
    __tablename__ = "item"
    id = mapped_column(Integer, primary_key=True)
    keywords = relationship("Keyword", secondary=item_keyword, backref="items")


class Keyword(Base):
    __tablename__ = "keyword"
    id = mapped_column(Integer, primary_key=True)


# --- many-to-many, set both sides, back_populates -----------------------------------------
item_keyword_s = Table(
    "item_keyword_s",
    Base.metadata,
    Column("item_id", ForeignKey("item_s.id"), primary_key=True),
    Column("keyword_id", ForeignKey("keyword_s.id"), primary_key=True),
)


class ItemS(Base):
    __tablename__ = "item_s"
    id = mapped_column(Integer, primary_key=True)
    keywords = relationship("KeywordS", secondary=item_keyword_s, back_populates="items", collection_class=set)


class KeywordS(Base):
    __tablename__ = "keyword_s"
    id = mapped_column(Integer, primary_key=True)
    items = relationship("ItemS", secondary=item_keyword_s, back_populates="keywords", collection_class=set)


# --- dict collection -------------------------------------------------------------------------
class UserD(Base):
    __tablename__ = "user_d"
    id = mapped_column(Integer, primary_key=True)
    notes = relationship("Note", collection_class=attribute_keyed_dict("key"), backref=backref("owner"))


class Note(Base):
    __tablename__ = "note"
    id = mapped_column(Integer, primary_key=True)
    owner_id = mapped_column(ForeignKey("user_d.id"))
    key = mapped_column(String)


# --- one-to-many collections WITHOUT a backref (list / set / keyed dict on one parent class) --------------
class PlainP(Base):
    __tablename__ = "plain_p"
    id = mapped_column(Integer, primary_key=True)
    items_list = relationship("PItemL", order_by="PItemL.id")
    items_set = relationship("PItemS", collection_class=set)
    items_dict = relationship("PItemD", collection_class=attribute_keyed_dict("key"))


class PItemL(Base):
    __tablename__ = "p_item_l"
    id = mapped_column(Integer, primary_key=True)
    parent_id = mapped_column(ForeignKey("plain_p.id"))


class PItemS(Base):
    __tablename__ = "p_item_s"
    id = mapped_column(Integer, primary_key=True)
    parent_id = mapped_column(ForeignKey("plain_p.id"))


class PItemD(Base):
    __tablename__ = "p_item_d"
    id = mapped_column(Integer, primary_key=True)
    parent_id = mapped_column(ForeignKey("plain_p.id"))
    key = mapped_column(String)


reg.configure()

STATE_FLAGS = ("transient", "pending", "persistent", "deleted", "detached")

LIFECYCLE_EVENTS = (
    "transient_to_pending",
    "pending_to_persistent",
    "pending_to_transient",
    "persistent_to_deleted",
    "deleted_to_detached",
    "deleted_to_persistent",
    "persistent_to_detached",
    "persistent_to_transient",
    "detached_to_persistent",
    "loaded_as_persistent",
)


def flags(obj):
    """names of the InstanceState lifecycle flags that are True"""
    st = inspect(obj)
    return [n for n in STATE_FLAGS if getattr(st, n)]


def new_db(tables=None):
    """fresh in-memory engine with the family's tables created"""
    eng = sautil.mem_engine()
    if tables is None:
        Base.metadata.create_all(eng)
    else:
        Base.metadata.create_all(eng, tables=tables)
    return eng


def tables_of(*classes):
    out = []
    for c in classes:
        if isinstance(c, Table):
            out.append(c)
        else:
            out.append(c.__table__)
    return out


class LifecycleLog:
    """records (event name, instance) for every lifecycle event of one session"""

    def __init__(self, session, tag):
        self.rows = []
        self.tag = tag
        for name in LIFECYCLE_EVENTS:
            event.listen(session, name, self._mk(name))

    def _mk(self, name):
        def go(session, instance):
            self.rows.append((name, instance))

        return go


class SqlCounter:
    """counts / records statements at the cursor level"""

    def __init__(self, engine):
        self.cap = sautil.Capture(engine)

    @property
    def n(self):
        return len(self.cap.rows)

    def statements(self):
        return [r[0] for r in self.cap.rows]

    def rows(self):
        return list(self.cap.rows)

    def clear(self):
        self.cap.clear()

    def close(self):
        self.cap.close()


@contextlib.contextmanager
def quiet():
    """suppress SAWarnings that the harness provokes on purpose (0-row DELETE etc.)"""
    with warnings.catch_warnings():
        warnings.simplefilter("ignore")
        yield


def mk_session(engine, **kw):
    return Session(engine, **kw)
