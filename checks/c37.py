"""C37 - both sides of a bidirectional relationship always agree.

Mutation programs are applied to either side of a backref / back_populates
pair (one-to-many list + set, one-to-one, many-to-many list + set).  A plain
Python reference model of the relation (lists / sets / parent pointers) gets
the same op with builtin list / set semantics.  After every mutation the two
sides of the real objects must describe the same relation
(``B in A.coll <=> B.parent is A`` / ``A in B.coll``) and equal the model;
after flush + expire_all + reload the database must hold the same relation.
"""
from __future__ import annotations

from hypothesis import strategies as st

from vf.api import Generated, HarnessError, Violation

PROPERTY = "C37"
LEVEL = "exploration"
RULE = (
    "programs (<=30 ops) over 2-4 objects per side of one relationship kind (one-to-many list/backref, one-to-many set/back_populates, one-to-one, "
    "many-to-many list/backref, many-to-many set/back_populates), objects pending or persisted+loaded: collection side append/insert/setitem/"
    "slice assign (any start/stop/step)/slice delete/delitem/remove/pop/extend/+=/clear/whole replacement/`del obj.coll` (0-4 members), set add/discard/remove/pop/update/|=/&=/-=/^=/"
    "clear/replacement; scalar side set/None/del; interleaved flush+expire_all+reload. Non-trivial: the program uses a whole-collection replacement or "
    "slice op together with a scalar-side set, or moves a child from one parent to another (many-to-many: mutates one association from both sides); "
    "distinct = canonical JSON of the program"
)
ASSUMPTIONS = [
    "the relation is asserted over loaded collections only: objects start pending or are fully loaded by the harness, and after every expire_all the harness reloads every attribute before mutating again (backref events are documented to skip unloaded collections)",
    "a list never receives an object it already holds (duplicates make `remove` fire the backref while one copy stays; outside this property)",
    "slice assignment takes its new items from non-members so that the other side's list order is defined by plain list semantics",
    "kept out by construction because they are C38 findings: `coll *= n`, `coll.remove(absent)`, set.update with several arguments",
    "list order is not persisted: after reload lists are compared as sets",
]

KINDS = {
    "o2m_list": dict(A="UserL", B="AddrL", acoll="addresses", bref="user", ctype="list"),
    "o2m_set": dict(A="UserS", B="AddrS", acoll="addresses", bref="user", ctype="set"),
    "o2o": dict(A="Person", B="Passport", aref="passport", bref="person"),
    "m2m_list": dict(A="Item", B="Keyword", acoll="keywords", bcoll="items", ctype="list"),
    "m2m_set": dict(A="ItemS", B="KeywordS", acoll="keywords", bcoll="items", ctype="set"),
}

SIG_DEL = "C37/del-collection-attribute/removal-not-persisted"
SIG_SWAP = "C37/o2m_list/duplicate-displacement-after-move-loses-foreign-key"
SIG_O2O = "C37/o2o/reassignment-leaves-previous-owner-referencing"

LIST_OPS = ["append", "insert", "setitem", "slice_set", "slice_del", "delitem", "remove", "pop", "extend", "iadd", "clear", "replace", "del_attr", "del_attr"]
# one-to-many list only: ops whose values overlap the current members (a member twice in the list is a legal intermediate state)
OVERLAP_OPS = ["slice_set_overlap"] * 5 + ["setitem_member", "swap", "swap", "reverse", "sort"]
LIST_OPS_O2M = LIST_OPS + OVERLAP_OPS * 2
SET_OPS = ["add", "discard", "remove", "pop", "update", "ior", "iand", "isub", "ixor", "clear", "replace", "difference_update", "intersection_update",
           "symmetric_difference_update", "del_attr", "del_attr"]
SCALAR_OPS = ["set", "set", "set", "none", "del"]


def _apply_list(coll, L, objs, op, x, y, z, items, n, attr_owner, attr_name, others=()):
    """apply op to real list collection `coll` and model list L (indexes into objs). returns False if the op is skipped.
    `others`: model lists of the other parents (values may be taken from them when they hold the value exactly once)"""
    if op == "slice_set_overlap":
        step = [1, 2, -1, 3, 1, -1, 2][z % 7]
        rng_ = len(L) + 1
        starts = [None] + list(range(-rng_, rng_ + 1))
        sl = slice(starts[x % len(starts)], starts[y % len(starts)], None if step == 1 and z % 2 else step)
        idx = list(range(*sl.indices(len(L))))
        elsewhere = [i for o_ in others for i in o_ if o_.count(i) == 1]
        free = [i for i in range(n) if i not in L and not any(i in o_ for o_ in others)]
        pool_ = list(L) + elsewhere + free  # members first: most draws overlap the current contents
        if not pool_:
            return False
        k = len(idx) if (step != 1 or z % 3 == 0) else len(items) % 5
        seq = (list(items) + [x, y, z, x + y, x + z])[:k]
        vals = [pool_[v % len(pool_)] for v in seq]
        if z % 5 == 0 and idx:
            # pure permutation / identity assignment of the slice itself: p.children[::2] = p.children[::2], p.children[::-1] = list(p.children)
            vals = [L[i] for i in idx]
            if z % 2:
                vals.reverse()
        if step != 1 and len(vals) != len(idx):
            return False
        if any(v in elsewhere and (vals.count(v) > 1 or v in L) for v in vals):
            return False  # a member taken over from another parent enters once (see SIG_SWAP)
        coll[sl] = [objs[i] for i in vals]
        L[sl] = vals
        return True
    if op == "setitem_member":
        if len(L) < 1:
            return False
        i_, j_ = x % len(L), y % len(L)
        coll[i_] = coll[j_]
        L[i_] = L[j_]
        return True
    if op == "swap":
        if len(L) < 2:
            return False
        i_, j_ = x % len(L), y % len(L)
        coll[i_], coll[j_] = coll[j_], coll[i_]
        L[i_], L[j_] = L[j_], L[i_]
        return True
    if op == "reverse":
        coll.reverse()
        L.reverse()
        return True
    if op == "sort":
        coll.sort(key=lambda o_: -o_.id if z % 2 else o_.id)
        L.sort(key=lambda i: -(i + 1) if z % 2 else i + 1)
        return True
    non = [i for i in range(n) if i not in L]
    new = [i for i in dict.fromkeys(v % n for v in items) if i not in L]
    if op == "append":
        if not non:
            return False
        i = non[x % len(non)]
        coll.append(objs[i])
        L.append(i)
    elif op == "insert":
        if not non:
            return False
        i = non[x % len(non)]
        pos = (y % (2 * len(L) + 3)) - len(L) - 1
        coll.insert(pos, objs[i])
        L.insert(pos, i)
    elif op == "setitem":
        if not non or not L:
            return False
        i = non[x % len(non)]
        pos = (y % (2 * len(L))) - len(L)
        coll[pos] = objs[i]
        L[pos] = i
    elif op in ("slice_set", "slice_del"):
        rng = len(L) + 2
        start = [None] + list(range(-rng, rng + 1))
        a = start[x % len(start)]
        b = start[y % len(start)]
        step = [None, 1, 1, 2, -1, -2, 3][z % 7]
        sl = slice(a, b, step)
        if op == "slice_del":
            del coll[sl]
            del L[sl]
        else:
            if step not in (None, 1):
                k = len(range(*sl.indices(len(L))))
                new = new[:k]
                if len(new) != k:
                    return False
            coll[sl] = [objs[i] for i in new]
            L[sl] = new
    elif op == "delitem":
        if not L:
            return False
        pos = (y % (2 * len(L))) - len(L)
        del coll[pos]
        del L[pos]
    elif op == "remove":
        if not L:
            return False
        i = L[x % len(L)]
        coll.remove(objs[i])
        L.remove(i)
    elif op == "pop":
        if not L:
            return False
        if z % 2:
            got = coll.pop()
            exp = L.pop()
        else:
            pos = (y % (2 * len(L))) - len(L)
            got = coll.pop(pos)
            exp = L.pop(pos)
        if got is not objs[exp]:
            raise Violation("C37/list-pop/wrong-element", f"pop returned {got!r}, list semantics say element {exp}")
    elif op == "extend":
        coll.extend([objs[i] for i in new])
        L.extend(new)
    elif op == "iadd":
        coll += [objs[i] for i in new]
        if getattr(attr_owner, attr_name) is not coll:
            raise Violation("C37/iadd/rebinds", "`coll += items` no longer is the instrumented collection of the attribute")
        L += new
    elif op == "clear":
        coll.clear()
        del L[:]
    elif op == "replace":
        repl = list(dict.fromkeys(v % n for v in items))
        setattr(attr_owner, attr_name, [objs[i] for i in repl])
        L[:] = repl
    elif op == "del_attr":
        delattr(attr_owner, attr_name)  # `del parent.children`: every member must be released on its own side too
        del L[:]
    else:
        raise HarnessError(op)
    return True


def _apply_set(coll, L, objs, op, x, y, z, items, n, attr_owner, attr_name):
    """model L is a list without duplicates used as a set"""
    sel = list(dict.fromkeys(v % n for v in items))
    S = set(L)
    arg_kind = z % 3  # set / list / instrumented collection of the same kind is not available here: set, list, frozenset
    mk = [set, list, frozenset][arg_kind]
    arg = mk(objs[i] for i in sel)
    if op == "add":
        i = x % n
        coll.add(objs[i])
        S.add(i)
    elif op == "discard":
        i = x % n
        coll.discard(objs[i])
        S.discard(i)
    elif op == "remove":
        if not L:
            return False
        i = L[x % len(L)]
        coll.remove(objs[i])
        S.discard(i)
    elif op == "pop":
        if not L:
            return False
        got = coll.pop()
        i = next((j for j in range(n) if objs[j] is got), None)
        if i is None or i not in S:
            raise Violation("C37/set-pop/not-a-member", f"pop returned {got!r}")
        S.discard(i)
    elif op == "update":
        coll.update(arg)
        S |= set(sel)
    elif op == "difference_update":
        coll.difference_update(arg)
        S -= set(sel)
    elif op == "intersection_update":
        coll.intersection_update(arg)
        S &= set(sel)
    elif op == "symmetric_difference_update":
        coll.symmetric_difference_update(arg)
        S ^= set(sel)
    elif op in ("ior", "iand", "isub", "ixor"):
        sarg = (frozenset if z % 2 else set)(objs[i] for i in sel)  # operator forms: set-like operands only
        if op == "ior":
            coll |= sarg
            S |= set(sel)
        elif op == "iand":
            coll &= sarg
            S &= set(sel)
        elif op == "isub":
            coll -= sarg
            S -= set(sel)
        else:
            coll ^= sarg
            S ^= set(sel)
        if getattr(attr_owner, attr_name) is not coll:
            raise Violation("C37/inplace-operator/rebinds", f"`coll {op}= other` no longer is the instrumented collection of the attribute")
    elif op == "clear":
        coll.clear()
        S.clear()
    elif op == "replace":
        setattr(attr_owner, attr_name, set(objs[i] for i in sel))
        S = set(sel)
    elif op == "del_attr":
        delattr(attr_owner, attr_name)
        S = set()
    else:
        raise HarnessError(op)
    L[:] = [i for i in L if i in S] + sorted(S - set(L))
    return True


def check(case, ctx):
    from checks import _orm_state as F

    kind = case["kind"]
    K = KINDS[kind]
    A, B = getattr(F, K["A"]), getattr(F, K["B"])
    m2m = kind.startswith("m2m")
    o2o = kind == "o2o"
    ctype = K.get("ctype")
    na, nb = case["na"], case["nb"]
    tables = F.tables_of(A, B)
    if kind == "m2m_list":
        tables.append(F.item_keyword)
    if kind == "m2m_set":
        tables.append(F.item_keyword_s)
    eng = F.new_db(tables)
    sess = F.mk_session(eng)  # autoflush stays on
    classes = {"kind:" + kind, "start:" + case["start"]}
    used = set()
    moved = False
    both_sides = set()
    try:
        As = [A(id=i + 1) for i in range(na)]
        Bs = [B(id=i + 1) for i in range(nb)]
        sess.add_all(As + Bs)
        # ---- model
        ac = [[] for _ in range(na)]  # A.coll as list of b indexes (o2m, m2m)
        bc = [[] for _ in range(nb)]  # B.coll as list of a indexes (m2m)
        par = [None] * nb  # B.parent (o2m, o2o)
        ap = [None] * na  # A.ref (o2o)

        def load_all():
            for a in As:
                getattr(a, K.get("acoll") or K["aref"])
            for b in Bs:
                getattr(b, K.get("bcoll") or K["bref"])

        # initial relation, built through the same instrumented paths (checked by the first verify)
        for a_, b_ in case.get("init", []):
            a_, b_ = a_ % na, b_ % nb
            if o2o:
                if ap[a_] is None and par[b_] is None:
                    setattr(As[a_], K["aref"], Bs[b_])
                    ap[a_], par[b_] = b_, a_
            elif b_ not in ac[a_] and (m2m or par[b_] is None):
                c_ = getattr(As[a_], K["acoll"])
                c_.append(Bs[b_]) if ctype == "list" else c_.add(Bs[b_])
                ac[a_].append(b_)
                if m2m:
                    bc[b_].append(a_)
                else:
                    par[b_] = a_
        persisted_now = [case["start"] == "persisted"]
        fragile = {}  # many-to-many: unflushed removed pair -> the owners whose collection history still records the removal
        lost_del = [False]
        moved_children = set()  # one-to-many children that changed parent since the last flush
        if case["start"] == "persisted":
            want = {(a_, b_) for a_ in range(na) for b_ in ac[a_]} if not o2o else {(a_, q) for a_, q in enumerate(ap) if q is not None}
            sess.commit()
            load_all()
            if _rows(sess, kind, K) != want:
                raise Violation(f"C37/{kind}/rows-differ", f"initial commit: rows {sorted(_rows(sess, kind, K))} vs relation {sorted(want)}")
            if not o2o:
                for ai, a in enumerate(As):
                    ac[ai] = [Bs.index(q) for q in getattr(a, K["acoll"])]
                if m2m:
                    for bi, b in enumerate(Bs):
                        bc[bi] = [As.index(p) for p in getattr(b, K["bcoll"])]

        def real_relation():
            """(pairs seen from the A side, pairs seen from the B side)"""
            from_a, from_b = set(), set()
            for ai, a in enumerate(As):
                if o2o:
                    q = getattr(a, K["aref"])
                    if q is not None:
                        from_a.add((ai, Bs.index(q)))
                else:
                    for q in getattr(a, K["acoll"]):
                        from_a.add((ai, Bs.index(q)))
            for bi, b in enumerate(Bs):
                if m2m:
                    for p in getattr(b, K["bcoll"]):
                        from_b.add((As.index(p), bi))
                else:
                    p = getattr(b, K["bref"])
                    if p is not None:
                        from_b.add((As.index(p), bi))
            return from_a, from_b

        def model_relation():
            if o2o:
                return {(a, q) for a, q in enumerate(ap) if q is not None}
            return {(a, b) for a in range(na) for b in ac[a]}

        def verify(step, op, side, exact=True, sig=None):
            from_a, from_b = real_relation()
            if from_a != from_b and sig:
                raise Violation(sig, f"step {step} {side}.{op}: A side says {sorted(from_a)}, B side says {sorted(from_b)}; the previous owner still references the object "
                                "(second hop of the backref is suppressed by the recursion token)", observed=[sorted(from_a), sorted(from_b)], expected=sorted(model_relation()))
            if from_a != from_b:
                only_a = sorted(from_a - from_b)
                only_b = sorted(from_b - from_a)
                raise Violation(f"C37/{kind}/sides-disagree/{side}-{op}", f"step {step} {side}.{op}: A side says {sorted(from_a)}, B side says {sorted(from_b)} "
                                f"(only on A side {only_a}, only on B side {only_b})", observed=[sorted(from_a), sorted(from_b)], expected=sorted(model_relation()))
            mr = model_relation()
            if from_a != mr:
                raise Violation(f"C37/{kind}/relation-differs-from-model/{side}-{op}", f"step {step} {side}.{op}: relation {sorted(from_a)}, reference semantics give {sorted(mr)}",
                                observed=sorted(from_a), expected=sorted(mr))
            if not exact or o2o:
                return
            for ai, a in enumerate(As):
                real = [Bs.index(q) for q in getattr(a, K["acoll"])]
                if (real != ac[ai]) if ctype == "list" else (sorted(real) != sorted(ac[ai])):
                    raise Violation(f"C37/{kind}/contents/{side}-{op}", f"step {step} {side}.{op}: A{ai}.{K['acoll']} is {real}, reference list semantics give {ac[ai]}", observed=real, expected=ac[ai])
            if m2m:
                for bi, b in enumerate(Bs):
                    real = [As.index(p) for p in getattr(b, K["bcoll"])]
                    if (real != bc[bi]) if ctype == "list" else (sorted(real) != sorted(bc[bi])):
                        raise Violation(f"C37/{kind}/contents/{side}-{op}", f"step {step} {side}.{op}: B{bi}.{K['bcoll']} is {real}, reference list semantics give {bc[bi]}", observed=real, expected=bc[bi])

        verify(-1, "init", "A")
        for step, opd in enumerate(case["ops"]):
            side, op, o, x, y, z, items = opd
            sig = None
            if op == "reload":
                before = model_relation()
                sess.flush()
                sess.expire_all()
                load_all()
                from_a, from_b = real_relation()
                fragile.clear()
                moved_children.clear()
                if from_a != before or from_b != before:
                    raise Violation((lost_del[0] if isinstance(lost_del[0], str) else SIG_DEL) if lost_del[0] else f"C37/{kind}/reload-differs", f"step {step}: relation before flush {sorted(before)}; reloaded A side {sorted(from_a)}, B side {sorted(from_b)}",
                                    observed=[sorted(from_a), sorted(from_b)], expected=sorted(before))
                # list order is not persisted: adopt the loaded order
                if not o2o:
                    for ai, a in enumerate(As):
                        ac[ai] = [Bs.index(q) for q in getattr(a, K["acoll"])]
                    if m2m:
                        for bi, b in enumerate(Bs):
                            bc[bi] = [As.index(p) for p in getattr(b, K["bcoll"])]
                classes.add("reload")
                persisted_now[0] = True
                continue
            if side == "A" and not o2o:
                fn = _apply_list if ctype == "list" else _apply_set
                ops = (LIST_OPS_O2M if kind == "o2m_list" else LIST_OPS) if ctype == "list" else SET_OPS
                op = ops[op % len(ops)]
                ai = o % na
                if op in OVERLAP_OPS and y % 4:
                    ai = max(range(na), key=lambda j: (len(ac[j]), -j))
                if kind == "o2m_list" and op in ("append", "insert", "setitem", "slice_set", "extend", "iadd", "replace", "slice_set_overlap") and any(
                        len(set(ac[j])) != len(ac[j]) for j in range(na) if j != ai):
                    ctx.info("skipped:adding-while-another-parent-holds-a-member-twice")  # moving that member would remove one occurrence only
                    continue
                if kind == "o2m_list" and op in ("slice_set_overlap", "setitem_member", "swap") and any(b in moved_children for b in ac[ai]):
                    sig = SIG_SWAP
                    if not case.get("pinned"):
                        ctx.exclude("overlapping assignment on a list holding a child moved from another parent since the last flush (known finding)")
                        continue
                    lost_del[0] = SIG_SWAP
                if len(set(ac[ai])) != len(ac[ai]) and op in ("pop", "slice_del", "clear"):
                    ctx.info("skipped:pop/clear/slice-delete-on-a-list-holding-a-member-twice")  # documented exception in the backref dupe check
                    continue
                if op == "del_attr" and y % 2:
                    ai = max(range(na), key=lambda j: (len(ac[j]), -j))  # prefer the fullest collection
                if op == "del_attr" and m2m and any(pr[0] == ai and cr <= {("A", ai)} for pr, cr in fragile.items()):
                    sig = SIG_DEL
                    if not case.get("pinned"):
                        ctx.exclude("del of a many-to-many collection whose pending removals are only recorded on this side (known finding)")
                        continue
                    lost_del[0] = True
                a = As[ai]
                coll = getattr(a, K["acoll"])
                old = list(ac[ai])
                kw_ = {"others": [ac[j] for j in range(na) if j != ai]} if kind == "o2m_list" else {}
                if not fn(coll, ac[ai], Bs, op, x, y, z, items, nb, a, K["acoll"], **kw_):
                    continue
                if op in OVERLAP_OPS:
                    classes.add("overlap-op")
                    if set(old) & set(ac[ai]) and op == "slice_set_overlap":
                        classes.add("slice-assign-overlapping-members")
                    if len(set(ac[ai])) != len(ac[ai]):
                        classes.add("member-twice-in-list")
                if op == "del_attr":
                    classes.add("del-collection-attr")
                    classes.add(f"del-collection-attr:{min(len(old), 2)}{'+' if len(old) >= 2 else ''}-members:{'persistent' if persisted_now[0] else 'pending'}")
                added = [b for b in ac[ai] if b not in old]
                removed = [b for b in old if b not in ac[ai]]
                if m2m:
                    for b in added:
                        fragile.pop((ai, b), None)
                    for b in removed:
                        fragile[(ai, b)] = {("B", b)} if op == "del_attr" else {("A", ai), ("B", b)}
                    if op == "del_attr":
                        for pr, cr in fragile.items():
                            if pr[0] == ai:
                                cr.discard(("A", ai))
                for b in removed:
                    if m2m:
                        bc[b].remove(ai)
                    else:
                        par[b] = None
                for b in added:
                    if m2m:
                        bc[b].append(ai)
                    else:
                        if par[b] is not None and par[b] != ai:
                            ac[par[b]].remove(b)
                            moved_children.add(b)
                            moved = True
                            classes.add("moved-between-parents")
                        par[b] = ai
                for b in added + removed:
                    both_sides.add(("A", ai, b))
            elif side == "B" and m2m:
                fn = _apply_list if ctype == "list" else _apply_set
                ops = LIST_OPS if ctype == "list" else SET_OPS
                op = ops[op % len(ops)]
                bi = o % nb
                if op == "del_attr" and y % 2:
                    bi = max(range(nb), key=lambda j: (len(bc[j]), -j))
                if op == "del_attr" and any(pr[1] == bi and cr <= {("B", bi)} for pr, cr in fragile.items()):
                    sig = SIG_DEL
                    if not case.get("pinned"):
                        ctx.exclude("del of a many-to-many collection whose pending removals are only recorded on this side (known finding)")
                        continue
                    lost_del[0] = True
                b = Bs[bi]
                coll = getattr(b, K["bcoll"])
                old = list(bc[bi])
                if not fn(coll, bc[bi], As, op, x, y, z, items, na, b, K["bcoll"]):
                    continue
                if op == "del_attr":
                    classes.add("del-collection-attr")
                    classes.add(f"del-collection-attr:{min(len(old), 2)}{'+' if len(old) >= 2 else ''}-members:{'persistent' if persisted_now[0] else 'pending'}")
                for a_ in [a_ for a_ in old if a_ not in bc[bi]]:
                    ac[a_].remove(bi)
                    both_sides.add(("B", a_, bi))
                    fragile[(a_, bi)] = {("A", a_)} if op == "del_attr" else {("A", a_), ("B", bi)}
                if op == "del_attr":
                    for pr, cr in fragile.items():
                        if pr[1] == bi:
                            cr.discard(("B", bi))
                for a_ in [a_ for a_ in bc[bi] if a_ not in old]:
                    fragile.pop((a_, bi), None)
                    ac[a_].append(bi)
                    both_sides.add(("B", a_, bi))
            elif side == "B":
                # scalar side of one-to-many / one-to-one
                bi = o % nb
                b = Bs[bi]
                op = SCALAR_OPS[op % len(SCALAR_OPS)]
                if op == "set":
                    tgt = x % na
                    if o2o and ap[tgt] is not None and ap[tgt] != bi:
                        sig = SIG_O2O
                        if not case.get("pinned"):
                            ctx.exclude("one-to-one: assigning an owner that already has another partner (known finding)")
                            continue
                elif par[bi] is None and op == "del":
                    continue
                if not o2o and par[bi] is not None and ac[par[bi]].count(bi) > 1:
                    ctx.info("skipped:scalar-op-on-child-held-twice")  # the backref removes one occurrence only
                    continue
                else:
                    tgt = None
                if op == "del":
                    delattr(b, K["bref"])
                else:
                    setattr(b, K["bref"], None if tgt is None else As[tgt])
                if par[bi] != tgt:
                    if o2o:
                        if par[bi] is not None and tgt is not None:
                            moved = True
                            classes.add("o2o-partner-replaced")
                        if par[bi] is not None:
                            ap[par[bi]] = None
                        if tgt is not None:
                            if ap[tgt] is not None:
                                par[ap[tgt]] = None
                            ap[tgt] = bi
                    else:
                        if par[bi] is not None:
                            ac[par[bi]].remove(bi)
                            if tgt is not None:
                                moved_children.add(bi)
                                moved = True
                                classes.add("moved-between-parents")
                        if tgt is not None:
                            ac[tgt].append(bi)
                    par[bi] = tgt
                op = "scalar-" + op
            else:
                # scalar side A of one-to-one
                ai = o % na
                a = As[ai]
                op = SCALAR_OPS[op % len(SCALAR_OPS)]
                if op == "set":
                    tgt = x % nb
                    if par[tgt] is not None and par[tgt] != ai:
                        sig = SIG_O2O
                        if not case.get("pinned"):
                            ctx.exclude("one-to-one: assigning a partner that already belongs to another owner (known finding)")
                            continue
                elif ap[ai] is None and op == "del":
                    continue
                else:
                    tgt = None
                if op == "del":
                    delattr(a, K["aref"])
                else:
                    setattr(a, K["aref"], None if tgt is None else Bs[tgt])
                if ap[ai] != tgt:
                    if ap[ai] is not None and tgt is not None:
                        moved = True
                        classes.add("o2o-partner-replaced")
                    if ap[ai] is not None:
                        par[ap[ai]] = None
                    if tgt is not None:
                        if par[tgt] is not None:
                            ap[par[tgt]] = None
                            moved = True
                            classes.add("moved-between-parents")
                        par[tgt] = ai
                    ap[ai] = tgt
                op = "scalar-" + op
            used.add((side, op))
            classes.add(f"{side}.{op}")
            verify(step, op, side, sig=sig)
        # ---- final: flush + expire_all + reload
        before = model_relation()
        sess.flush()
        sess.expire_all()
        from_a, from_b = real_relation()
        if from_a != before or from_b != before:
            raise Violation((lost_del[0] if isinstance(lost_del[0], str) else SIG_DEL) if lost_del[0] else f"C37/{kind}/reload-differs", f"final: relation before flush {sorted(before)}; reloaded A side {sorted(from_a)}, B side {sorted(from_b)}",
                            observed=[sorted(from_a), sorted(from_b)], expected=sorted(before))
        rows = _rows(sess, kind, K)
        if rows != before:
            raise Violation(f"C37/{kind}/rows-differ", f"final: rows {sorted(rows)} vs relation {sorted(before)}", observed=sorted(rows), expected=sorted(before))
    finally:
        bulk = any(op in ("replace", "slice_set", "slice_del") for _s, op in used)
        scalar = any(op.startswith("scalar-set") for _s, op in used)
        if m2m:
            pairs_a = {(a_, b_) for s_, a_, b_ in both_sides if s_ == "A"}
            pairs_b = {(a_, b_) for s_, a_, b_ in both_sides if s_ == "B"}
            nontrivial = bool(pairs_a & pairs_b) or (bulk and bool(pairs_b))
            if pairs_a & pairs_b:
                classes.add("association-touched-from-both-sides")
        else:
            nontrivial = moved or (bulk and scalar)
        if bulk and scalar:
            classes.add("bulk+scalar")
        ctx.note(case, nontrivial, classes=classes)
        sess.close()
        eng.dispose()


def _rows(sess, kind, K):
    conn = sess.connection()
    if kind == "m2m_list":
        q = "SELECT item_id, keyword_id FROM item_keyword"
    elif kind == "m2m_set":
        q = "SELECT item_id, keyword_id FROM item_keyword_s"
    elif kind == "o2o":
        q = "SELECT person_id, id FROM passport WHERE person_id IS NOT NULL"
    elif kind == "o2m_list":
        q = "SELECT user_id, id FROM addr_l WHERE user_id IS NOT NULL"
    else:
        q = "SELECT user_id, id FROM addr_s WHERE user_id IS NOT NULL"
    return {(r[0] - 1, r[1] - 1) for r in conn.exec_driver_sql(q)}


_i = st.integers(0, 11)


@st.composite
def _programs(draw):
    kind = draw(st.sampled_from(sorted(KINDS) + ["o2m_list", "o2m_list"]))  # the list one-to-many carries the overlapping-value ops
    side = st.sampled_from(["A", "A", "B"]) if not kind.startswith("m2m") else st.sampled_from(["A", "B"])
    op = st.tuples(side, st.integers(0, 559), _i, _i, _i, _i, st.lists(_i, max_size=4))
    reload_ = st.just(("A", "reload", 0, 0, 0, 0, []))
    ops = draw(st.lists(st.one_of(*([op] * 19 + [reload_])), min_size=2, max_size=30))
    init = draw(st.lists(st.tuples(st.integers(0, 3), st.integers(0, 3)), max_size=7))
    return {"kind": kind, "init": [list(p) for p in init], "na": draw(st.integers(2, 4)), "nb": draw(st.integers(2, 4)), "start": draw(st.sampled_from(["pending", "persisted"])), "ops": [list(o) for o in ops]}


def subs(tier):
    return [Generated("backrefs", check, strategy=_programs(), quick=1200, thorough=100000)]
