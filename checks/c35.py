"""C35 - object lifecycle states and events follow the documented state machine.

Histories of session operations over a few ``Thing`` objects and one or two
sessions are run against the real ORM and against a reference automaton that
encodes doc/build/orm/session_state_management.rst ("Quickie Intro to Object
States") and doc/build/orm/session_events.rst ("Object Lifecycle Events").
After every operation the five ``inspect(obj)`` flags, the session collections
and the recorded lifecycle events must equal the automaton's prediction.
"""
from __future__ import annotations

from hypothesis import strategies as st

from vf.api import Generated, HarnessError, Violation

PROPERTY = "C35"
LEVEL = "exploration"
RULE = (
    "op programs (<=40 ops) over 1-5 initial Thing objects (+ objects created by new/get/merge, operands by index mod count) and 1-2 sessions "
    "(each on its own in-memory SQLite DB, expire_on_commit on/off): add, delete, flush, commit, rollback, begin_nested, nested commit/rollback, "
    "expunge, expunge_all, close, merge(load on/off), make_transient, make_transient_to_detached, get, new. "
    "Non-trivial: at least one object visits >=4 distinct lifecycle states and takes a rollback edge (pending->transient, persistent->transient "
    "or deleted->persistent by rollback); distinct = canonical JSON of the program"
)
ASSUMPTIONS = [
    "autoflush is off so that flush points are explicit ops; sessions are bound to separate databases (SQLite cannot interleave two writers)",
    "transition table and events are those of session_events.rst 'Object Lifecycle Events'; legal inputs per the Session.add/delete/expunge, make_transient and make_transient_to_detached docstrings",
    "Session.delete() on an object already in the deleted state, merge() of a pending object, and get() of an expired identity whose row is absent are outside the documented input domain and are skipped (counted in notes)",
    "Session.add() on an object marked with Session.delete() un-marks it (code behaviour, docs silent; only observable at the next flush)",
    "primary keys are assigned by the harness (fresh value at every transient->pending add) so that flushes cannot fail on constraints; the model tracks rows per database incl. savepoints only to keep programs valid",
    "six confirmed divergences from the documented automaton are excluded from generation by construction and pinned as replays (see findings/C35)",
]

STATES = {"T": "transient", "P": "pending", "S": "persistent", "D": "deleted", "X": "detached"}

# ---------------------------------------------------------------------------------------------
# documented transition table: (from, to) -> event name (session_events.rst, one section per edge)
EDGE_EVENT = {
    ("T", "P"): "transient_to_pending",  # "Transient to Pending": Session.add / cascade
    ("P", "S"): "pending_to_persistent",  # flush INSERT
    ("P", "T"): "pending_to_transient",  # rollback before flush, or expunge
    ("S", "T"): "persistent_to_transient",  # rollback of the transaction that INSERTed it
    ("S", "D"): "persistent_to_deleted",  # flush DELETE
    ("D", "X"): "deleted_to_detached",  # commit; also expunge / expunge_all / close of a deleted object
    ("S", "X"): "persistent_to_detached",  # expunge / expunge_all / close
    ("X", "S"): "detached_to_persistent",  # Session.add (or delete) of a detached object
    ("D", "S"): "deleted_to_persistent",  # rollback of the transaction that DELETEd it
    (None, "S"): "loaded_as_persistent",  # loaded from the database
}

SIG_EOC = "C35/commit/expire_on_commit-false-keeps-deleted-attached"
SIG_CLOSE = "C35/close-expunge_all/deleted-object-not-detached"
SIG_MARKED = "C35/rollback/deleted_to_persistent-for-unflushed-delete"
SIG_INSDEL = "C35/rollback/inserted-then-deleted-gets-deleted_to_detached"
SIG_REDELETE = "C35/delete/was-deleted-detached-object-reattached-as-deleted"
SIG_STALE = "C35/transaction-snapshot/keeps-states-that-left-the-session"


class MObj:
    __slots__ = ("st", "sess", "marked", "was_deleted", "id", "visited", "rb_edge", "dirty", "gen")

    def __init__(self, ident):
        self.st = "T"
        self.sess = None
        self.marked = False
        self.was_deleted = False
        self.id = ident
        self.visited = {"T"}
        self.rb_edge = False
        self.gen = 0  # bumped every time the object leaves a session through expunge / expunge_all / close / make_transient
        self.dirty = True  # may carry unflushed attribute changes (constructor / harness assignments / merge target)

    def snap(self):
        return (self.st, self.sess, self.marked, self.was_deleted)


class Frame:
    __slots__ = ("new", "deleted", "rows", "gen")

    def __init__(self, rows):
        self.new = []  # object indexes INSERTed within this frame
        self.deleted = []  # object indexes DELETEd within this frame
        self.rows = set(rows)  # database rows when the frame began
        self.gen = {}  # object index -> its generation when it was recorded in this frame


class MSess:
    def __init__(self):
        self.rows = set()
        self.frames = [Frame(self.rows)]
        self.idmap = {}  # pk -> object index


class Model:
    def __init__(self, nsess, eoc):
        self.objs = []
        self.sess = [MSess() for _ in range(nsess)]
        self.eoc = eoc
        self.events = []
        self.next_id = 1_000_000
        self.edges = set()

    # -- helpers
    def fresh_id(self):
        self.next_id -= 1
        return self.next_id

    def move(self, i, to, rollback=False, silent=False):
        o = self.objs[i]
        frm = o.st
        if not silent:
            self.events.append((EDGE_EVENT[(frm, to)], i))
        self.edges.add(frm + ">" + to + ("/rb" if rollback else ""))
        o.st = to
        o.visited.add(to)
        if rollback:
            o.rb_edge = True

    def in_sess(self, s, states):
        return [i for i, o in enumerate(self.objs) if o.sess == s and o.st in states]

    def marked(self, s):
        return [i for i, o in enumerate(self.objs) if o.sess == s and o.st == "S" and o.marked]

    def pending_ids(self, s):
        return [self.objs[i].id for i in self.in_sess(s, "P")]

    # -- composite operations
    def flush(self, s):
        ms = self.sess[s]
        fr = ms.frames[-1]
        pend = self.in_sess(s, "P")
        ids = [self.objs[i].id for i in pend if self.objs[i].id is not None]
        if len(ids) != len(set(ids)) or set(ids) & ms.rows or set(ids) & set(ms.idmap):
            raise HarnessError(f"generator let a conflicting INSERT through: pending ids {ids}, rows {sorted(ms.rows)}")
        for i in pend:
            self.move(i, "S")
            fr.new.append(i)
            fr.gen[i] = self.objs[i].gen
        for i in self.marked(s):
            o = self.objs[i]
            self.move(i, "D")
            o.marked = False
            o.was_deleted = True
            ms.rows.discard(o.id)
            ms.idmap.pop(o.id, None)
            fr.deleted.append(i)
            fr.gen[i] = o.gen
        for o in self.objs:
            if o.sess == s and o.st == "S":
                o.dirty = False
        return pend  # caller registers ids (may need to read autogenerated ones)

    def register_inserted(self, s, pend):
        ms = self.sess[s]
        for i in pend:
            o = self.objs[i]
            ms.rows.add(o.id)
            ms.idmap[o.id] = i

    def detach(self, i, s):
        """expunge semantics for one object of session s"""
        o = self.objs[i]
        ms = self.sess[s]
        if o.st == "P":
            self.move(i, "T")
        elif o.st == "S":
            self.move(i, "X")
            ms.idmap.pop(o.id, None)
            o.marked = False
        elif o.st == "D":
            self.move(i, "X")
            # code: only the innermost transaction's record is dropped
            if i in ms.frames[-1].deleted:
                ms.frames[-1].deleted.remove(i)
        o.sess = None
        o.gen += 1

    def stale_on_rollback(self, s, nframes):
        ms = self.sess[s]
        for fr in ms.frames[len(ms.frames) - nframes:]:
            for i in fr.new:
                o = self.objs[i]
                if o.sess != s or o.st not in "PSD" or o.gen != fr.gen.get(i):
                    return True  # left the session (possibly came back since: the record still refers to the earlier membership)
            for i in fr.deleted:
                o = self.objs[i]
                if o.sess == s and o.st == "D" and o.gen == fr.gen.get(i):
                    continue
                if o.sess == s and o.gen != fr.gen.get(i):
                    return True
                # only a detached state that still carries the was-deleted flag is ignored by the restore; a transient one (key gone)
                # raises, one attached elsewhere raises, and a detached one whose flag was reset (make_transient +
                # make_transient_to_detached) is silently re-attached as persistent
                if o.sess is not None or o.st == "T" or (o.st == "X" and not o.was_deleted):
                    return True
        return False

    def stale_on_commit(self, s):
        ms = self.sess[s]
        for fr in ms.frames:
            for i in fr.deleted:
                o = self.objs[i]
                if not (o.sess == s and o.st == "D" and o.gen == fr.gen.get(i)):
                    return True
        return False

    def insdel_on_rollback(self, s, nframes):
        ms = self.sess[s]
        for fr in ms.frames[len(ms.frames) - nframes:]:
            for i in fr.new:
                o = self.objs[i]
                if o.sess == s and o.st == "D":
                    return True
        return False

    def identity_conflict_on_rollback(self, s, nframes):
        ms = self.sess[s]
        evicted = set(self.in_sess(s, "P"))
        for fr in ms.frames[len(ms.frames) - nframes:]:
            evicted |= set(fr.new)
        for fr in ms.frames[len(ms.frames) - nframes:]:
            for i in fr.deleted:
                o = self.objs[i]
                other = ms.idmap.get(o.id)
                if other is not None and other != i and other not in evicted:
                    return True
        return False

    def rollback_frame(self, s):
        """documented effect of rolling back the innermost frame"""
        ms = self.sess[s]
        fr = ms.frames[-1]
        evict = list(dict.fromkeys(fr.new + self.in_sess(s, "P")))
        for i in evict:
            o = self.objs[i]
            if o.sess != s:
                continue  # left the session earlier: not this session's business any more
            if o.st == "P":
                self.move(i, "T", rollback=True)
                o.sess = None
            elif o.st == "S":
                self.move(i, "T", rollback=True)
                ms.idmap.pop(o.id, None)
                o.marked = False
                o.sess = None
            elif o.st == "D":
                # no documented edge (see SIG_INSDEL); deleted->persistent->transient is the composition the docs imply
                self.move(i, "S", rollback=True)
                self.move(i, "T", rollback=True)
                o.was_deleted = False
                o.sess = None
        for i in list(dict.fromkeys(fr.deleted)):
            o = self.objs[i]
            if o.sess == s and o.st == "D":
                self.move(i, "S", rollback=True)
                o.was_deleted = False
                ms.idmap[o.id] = i
        for i in self.marked(s):
            self.objs[i].marked = False
        for o in self.objs:
            if o.sess == s and o.st == "S":
                o.dirty = False  # expired by the rollback
        ms.rows = set(fr.rows)
        if len(ms.frames) > 1:
            ms.frames.pop()
        else:
            ms.frames = [Frame(ms.rows)]

    def commit_root(self, s):
        ms = self.sess[s]
        dele = []
        for fr in ms.frames:
            dele += fr.deleted
        for i in dict.fromkeys(dele):
            o = self.objs[i]
            if o.sess == s and o.st == "D":
                self.move(i, "X")
                o.sess = None
        ms.frames = [Frame(ms.rows)]


def _preferred(model, op, s):
    """object indexes for which `op` (on session s) is a legal, state-changing request"""
    objs = model.objs
    if op == "add":
        return [i for i, o in enumerate(objs) if o.st == "T" or (o.st == "X" and not o.was_deleted)]
    if op == "delete":
        return [i for i, o in enumerate(objs) if (o.st == "S" and not o.marked) or (o.st == "X" and not o.was_deleted)]
    if op == "expunge":
        return [i for i, o in enumerate(objs) if o.st in "PSD"]
    if op == "make_transient":
        return [i for i, o in enumerate(objs) if o.st in "SDX"]
    if op == "mttd":
        return [i for i, o in enumerate(objs) if o.st == "T"]
    if op == "merge":
        return [i for i, o in enumerate(objs) if o.st in "TX" or (o.st == "S" and o.sess != s)]
    if op == "get":
        return [i for i, o in enumerate(objs) if o.id in model.sess[s].rows]
    return []


OPS = ["add", "delete", "flush", "commit", "rollback", "begin_nested", "nested_commit", "nested_rollback", "expunge", "expunge_all",
       "close", "merge", "make_transient", "mttd", "get", "new"]


def _verify(case, step, op, model, real, sessions, logs, ev_expected, active_sig):
    from sqlalchemy import inspect
    from sqlalchemy.orm import object_session

    from checks._orm_state import STATE_FLAGS

    def fail(kind, msg, observed=None, expected=None):
        sig = active_sig or f"C35/{op}/{kind}"
        raise Violation(sig, f"step {step} {op}: {msg}", observed=observed, expected=expected)

    # events
    got = []
    for si, log in enumerate(logs):
        for name, inst in log.rows:
            idx = next((i for i, r in enumerate(real) if r is inst), None)
            got.append((name, idx if idx is not None else f"unknown:{inst!r}"))
        del log.rows[:]
    exp = sorted(ev_expected, key=repr)
    got_s = sorted(got, key=repr)
    if got_s != exp:
        fail("events", f"lifecycle events {got_s} != documented transitions {exp}", observed=got_s, expected=exp)
    # flags
    for i, (m, r) in enumerate(zip(model.objs, real)):
        ist = inspect(r)
        true = [n for n in STATE_FLAGS if getattr(ist, n)]
        if len(true) != 1:
            fail("flags-not-exclusive", f"object {i}: flags {true}", observed=true, expected=[STATES[m.st]])
        if true[0] != STATES[m.st]:
            fail("flags", f"object {i} is {true[0]}, documented automaton says {STATES[m.st]}", observed=true[0], expected=STATES[m.st])
        osess = object_session(r)
        want = sessions[m.sess] if m.st in "PSD" else None
        if osess is not want:
            fail("session", f"object {i} ({STATES[m.st]}): object_session is {osess!r}, expected {want!r}")
    # session collections
    for si, sess in enumerate(sessions):
        new = {id(x) for x in sess.new}
        exp_new = {id(real[i]) for i in model.in_sess(si, "P")}
        if new != exp_new:
            fail("session.new", f"session {si}: Session.new has {len(new)} objects, model {len(exp_new)}")
        dele = {id(x) for x in sess.deleted}
        exp_del = {id(real[i]) for i in model.marked(si)}
        if dele != exp_del:
            fail("session.deleted", f"session {si}: Session.deleted has {len(dele)} objects, model {len(exp_del)}")
        members = {id(x) for x in sess}
        exp_members = {id(real[i]) for i in model.in_sess(si, "PS")}
        if members != exp_members:
            fail("membership", f"session {si}: iter(session) has {len(members)} objects, model {len(exp_members)} (pending+persistent)")
        for i, (m, r) in enumerate(zip(model.objs, real)):
            inmap = sess.identity_map.contains_state(inspect(r))
            should = m.st == "S" and m.sess == si
            if inmap != should:
                fail("identity_map", f"session {si}: object {i} ({STATES[m.st]}) in identity_map={inmap}, documented {should}")
            if (r in sess) != (m.sess == si and m.st in "PS"):
                fail("membership", f"session {si}: `obj in session` is {r in sess} for object {i} ({STATES[m.st]})")


def check(case, ctx):
    from sqlalchemy import inspect
    from sqlalchemy.exc import InvalidRequestError
    from sqlalchemy.orm import make_transient, make_transient_to_detached

    from checks import _orm_state as F

    Thing = F.Thing
    nsess = case["nsess"]
    eoc = case["eoc"]
    pinned = case.get("pinned", False)
    model = Model(nsess, eoc)
    engines = [F.new_db(F.tables_of(Thing)) for _ in range(nsess)]
    sessions = [F.mk_session(e, expire_on_commit=eoc, autoflush=False) for e in engines]
    logs = [F.LifecycleLog(s, i) for i, s in enumerate(sessions)]
    real = []
    classes = set()
    illegal = 0

    def new_obj():
        ident = model.fresh_id()
        model.objs.append(MObj(ident))
        real.append(Thing(id=ident, x=0))

    def adopt(obj, st_, s, ident):
        """register an object created by the ORM (get / merge)"""
        m = MObj(ident)
        m.st = st_
        m.sess = s
        m.visited = {st_}
        model.objs.append(m)
        real.append(obj)
        return len(real) - 1

    for _ in range(case["nobj"]):
        new_obj()

    def excluded(sig, reason):
        """True when the op must be skipped because it would hit a listed finding"""
        if pinned:
            return False
        ctx.exclude(reason)
        return True

    try:
        with F.quiet():
            for step, opd in enumerate(case["ops"]):
                op, a, b, flag = opd[0], opd[1], opd[2], opd[3]
                s = b % nsess
                i = a % len(real)
                mode = opd[4] if len(opd) > 4 else 0
                if mode:
                    # "programs as data" with state-relative operands: pick the a-th object for which the op is meaningful
                    cand = _preferred(model, op, s)
                    if cand:
                        i = cand[a % len(cand)]
                        if model.objs[i].sess is not None and op in ("delete", "expunge", "add"):
                            s = model.objs[i].sess
                ms = model.sess[s]
                sess = sessions[s]
                m = model.objs[i]
                r = real[i]
                model.events = []
                before = [o.snap() for o in model.objs]
                expect_error = False
                active_sig = None
                skip = False
                run = None

                if op == "nested_commit" and len(ms.frames) < 2:
                    op = "begin_nested"
                if op == "nested_rollback" and len(ms.frames) < 2:
                    op = "rollback"
                if op in ("flush", "commit", "begin_nested", "nested_commit") and any(model.objs[j].id not in ms.rows for j in model.marked(s)):
                    # the identity has no row in this database (foreign / manufactured identity): DELETE would match nothing
                    ctx.info("skipped:flush-would-delete-absent-row")
                    continue

                if op == "new":
                    if len(real) < 12:
                        new_obj()
                    continue

                elif op == "add":
                    if m.st == "T":
                        ident = model.fresh_id()
                        m.id = ident
                        r.id = ident
                        m.dirty = True
                        model.move(i, "P")
                        m.sess = s
                    elif m.st == "P":
                        expect_error = m.sess != s
                    elif m.st == "S":
                        if m.sess != s:
                            expect_error = True
                        else:
                            m.marked = False  # code behaviour, see ASSUMPTIONS
                    elif m.st == "D":
                        expect_error = True  # "has been deleted. Use the make_transient() function"
                    elif m.st == "X":
                        if m.was_deleted:
                            expect_error = True
                        elif m.id in model.pending_ids(s):
                            skip = "add-detached-with-pending-twin"
                        elif m.id in ms.idmap:
                            expect_error = True  # another instance with that key is already present
                        else:
                            model.move(i, "S")
                            m.sess = s
                            ms.idmap[m.id] = i
                    run = lambda: sess.add(r)  # noqa: E731

                elif op == "delete":
                    if m.st in "TP":
                        expect_error = True  # "is not persisted"
                    elif m.st == "S":
                        if m.sess != s:
                            expect_error = True
                        else:
                            m.marked = True
                    elif m.st == "D":
                        skip = "delete-of-deleted-object"
                    elif m.st == "X":
                        if m.was_deleted:
                            active_sig = SIG_REDELETE
                            if excluded(SIG_REDELETE, "Session.delete() of a detached object that was already deleted (known finding)"):
                                continue
                        if m.id in model.pending_ids(s):
                            skip = "add-detached-with-pending-twin"
                        elif m.id in ms.idmap:
                            expect_error = True
                        else:
                            model.move(i, "S")
                            m.sess = s
                            m.marked = True
                            ms.idmap[m.id] = i
                    run = lambda: sess.delete(r)  # noqa: E731

                elif op == "flush":
                    pend = model.flush(s)

                    def run(pend=pend, s=s, sess=sess):
                        sess.flush()
                        for j in pend:
                            if model.objs[j].id is None:
                                model.objs[j].id = inspect(real[j]).identity[0]
                        model.register_inserted(s, pend)

                elif op == "commit":
                    will_delete = bool(model.in_sess(s, "D") or model.marked(s))
                    if not eoc and will_delete:
                        active_sig = SIG_EOC
                        if excluded(SIG_EOC, "commit of a deleted object with expire_on_commit=False (known finding)"):
                            continue
                    if model.stale_on_commit(s):
                        active_sig = SIG_STALE
                        if excluded(SIG_STALE, "transaction snapshot refers to objects that left the session (known finding)"):
                            continue
                    if any(model.objs[j].id is None for j in model.in_sess(s, "P")):
                        skip = "commit-with-autogenerated-pk"  # flush first (keeps the row model simple)
                    else:
                        pend = model.flush(s)
                        model.register_inserted(s, pend)
                        model.commit_root(s)
                        run = sess.commit

                elif op in ("rollback", "nested_rollback"):
                    if op == "nested_rollback" and len(ms.frames) < 2:
                        skip = "no-nested-transaction"
                    else:
                        n = len(ms.frames) if op == "rollback" else 1
                        if model.marked(s):
                            active_sig = SIG_MARKED
                            if excluded(SIG_MARKED, "rollback while an object is marked by Session.delete() but not flushed (known finding)"):
                                continue
                        if model.insdel_on_rollback(s, n):
                            active_sig = SIG_INSDEL
                            if excluded(SIG_INSDEL, "rollback of a transaction that INSERTed and DELETEd the same object (known finding)"):
                                continue
                        if model.stale_on_rollback(s, n):
                            active_sig = SIG_STALE
                            if excluded(SIG_STALE, "transaction snapshot refers to objects that left the session (known finding)"):
                                continue
                        if model.identity_conflict_on_rollback(s, n):
                            skip = "rollback-would-restore-second-object-for-one-key"
                        else:
                            for _ in range(n):
                                model.rollback_frame(s)
                            if op == "rollback":
                                run = sess.rollback
                            else:
                                run = lambda: sess.get_nested_transaction().rollback()  # noqa: E731

                elif op == "begin_nested":
                    if len(ms.frames) >= 4:
                        skip = "nesting-limit"
                    else:
                        if any(model.objs[j].id is None for j in model.in_sess(s, "P")):
                            skip = "commit-with-autogenerated-pk"
                        else:
                            pend = model.flush(s)
                            model.register_inserted(s, pend)
                            ms.frames.append(Frame(ms.rows))
                            run = sess.begin_nested

                elif op == "nested_commit":
                    if len(ms.frames) < 2:
                        skip = "no-nested-transaction"
                    else:
                        if any(model.objs[j].id is None for j in model.in_sess(s, "P")):
                            skip = "commit-with-autogenerated-pk"
                        else:
                            pend = model.flush(s)
                            model.register_inserted(s, pend)
                            fr = ms.frames.pop()
                            ms.frames[-1].new += fr.new
                            ms.frames[-1].deleted += fr.deleted
                            ms.frames[-1].gen.update(fr.gen)
                            run = lambda: sess.get_nested_transaction().commit()  # noqa: E731

                elif op == "expunge":
                    if m.sess != s or m.st not in "PSD":
                        expect_error = True  # "is not present in this Session"
                    else:
                        model.detach(i, s)
                    run = lambda: sess.expunge(r)  # noqa: E731

                elif op in ("expunge_all", "close"):
                    if model.in_sess(s, "D"):
                        active_sig = SIG_CLOSE
                        if excluded(SIG_CLOSE, f"{op} while an object is in the deleted state (known finding)"):
                            continue
                    for j in model.in_sess(s, "PSD"):
                        model.detach(j, s)
                    if op == "close":
                        ms.rows = set(ms.frames[0].rows)
                        ms.frames = [Frame(ms.rows)]
                        run = sess.close
                    else:
                        # deleted objects leave every frame when documented semantics hold
                        run = sess.expunge_all

                elif op == "make_transient":
                    if m.st in "PSD":
                        model.detach(i, m.sess)  # leaves the session exactly as expunge does
                    if m.st == "X":
                        model.edges.add("X>T")
                        m.st = "T"
                        m.visited.add("T")
                    m.was_deleted = False
                    run = lambda: make_transient(r)  # noqa: E731

                elif op == "mttd":
                    if m.st != "T":
                        expect_error = True  # "Given object must be transient"
                    elif m.id is None:
                        skip = "unknown-pk"
                    else:
                        r.id = m.id
                        m.dirty = False  # make_transient_to_detached commits the state
                        model.edges.add("T>X")
                        m.st = "X"
                        m.visited.add("X")
                        m.was_deleted = False
                    run = lambda: make_transient_to_detached(r)  # noqa: E731

                elif op == "get":
                    key = m.id
                    if key is None:
                        skip = "unknown-pk"
                    elif key in ms.idmap:
                        if key not in ms.rows:
                            skip = "get-of-identity-without-row"
                        else:
                            j = ms.idmap[key]

                            def run(key=key, j=j, sess=sess):
                                got = sess.get(Thing, key)
                                if got is not real[j]:
                                    raise Violation("C35/get/identity", f"get({key}) returned {got!r}, identity map holds object {j}")

                    elif key in ms.rows:

                        def run(key=key, s=s, sess=sess):
                            got = sess.get(Thing, key)
                            if got is None or any(got is x for x in real):
                                raise Violation("C35/get/load", f"get({key}) returned {got!r}, a newly loaded object was expected")
                            j = adopt(got, "S", s, key)
                            model.objs[j].dirty = False
                            model.sess[s].idmap[key] = j
                            model.events.append(("loaded_as_persistent", j))
                            model.edges.add("load>S")

                    else:

                        def run(key=key, sess=sess):
                            got = sess.get(Thing, key)
                            if got is not None:
                                raise Violation("C35/get/phantom", f"get({key}) returned {got!r}, no such row")

                elif op == "merge":
                    load = bool(flag)
                    if m.st == "P":
                        skip = "merge-of-pending"
                    elif m.st == "T" and not load:
                        expect_error = True
                        run = lambda: sess.merge(r, load=False)  # noqa: E731
                    elif m.id is None:
                        skip = "unknown-pk"
                    else:
                        key = m.id
                        if m.st == "T":
                            r.id = key
                            m.dirty = True
                        if not load and key not in ms.idmap and m.dirty:
                            # documented rejection ("does not support objects marked as 'dirty'"); the modified flag is not
                            # part of the lifecycle model, so such sources are simply not merged with load=False
                            skip = "merge-noload-of-possibly-dirty-source"
                        elif key in ms.idmap and ms.idmap[key] != i and key not in ms.rows:
                            skip = "merge-into-identity-without-row"
                        elif key in ms.idmap:
                            j = ms.idmap[key]

                            def run(j=j, load=load, sess=sess, i=i):
                                got = sess.merge(r, load=load)
                                if got is not real[j]:
                                    raise Violation("C35/merge/identity", f"merge returned {got!r}, identity map holds object {j}")
                                if j != i:
                                    model.objs[j].dirty = bool(load)  # attribute copy (load=False commits the copy)

                        elif key in model.pending_ids(s):
                            skip = "merge-would-duplicate-pending"
                        elif not load:

                            def run(key=key, s=s, sess=sess):
                                got = sess.merge(r, load=False)
                                if any(got is x for x in real):
                                    raise Violation("C35/merge/copy", "merge(load=False) returned an existing object")
                                j = adopt(got, "S", s, key)
                                model.objs[j].dirty = False
                                model.sess[s].idmap[key] = j
                                model.events.append(("detached_to_persistent", j))
                                model.edges.add("merge-noload>S")

                        elif key in ms.rows:

                            def run(key=key, s=s, sess=sess):
                                got = sess.merge(r)
                                if any(got is x for x in real):
                                    raise Violation("C35/merge/copy", "merge returned an existing object, a load was expected")
                                j = adopt(got, "S", s, key)
                                model.sess[s].idmap[key] = j
                                model.events.append(("loaded_as_persistent", j))
                                model.edges.add("load>S")

                        elif key in model.pending_ids(s):
                            skip = "merge-would-duplicate-pending"
                        elif "id" not in r.__dict__:
                            # expired source: the pending copy would get a database-generated key that can collide with a harness key
                            skip = "merge-copy-without-pk"
                        else:

                            def run(key=key, s=s, sess=sess):
                                got = sess.merge(r)
                                if any(got is x for x in real):
                                    raise Violation("C35/merge/copy", "merge returned an existing object, a new pending copy was expected")
                                j = adopt(got, "P", s, got.__dict__.get("id"))
                                model.objs[j].visited = {"T", "P"}
                                model.events.append(("transient_to_pending", j))
                                model.edges.add("T>P")

                else:
                    raise HarnessError(f"unknown op {op}")

                if skip:
                    ctx.info("skipped:" + skip)
                    continue
                classes.add(op)
                if expect_error:
                    illegal += 1
                    classes.add("illegal-op")
                    # model must be untouched
                    if [o.snap() for o in model.objs] != before:
                        raise HarnessError("model changed on an illegal op")
                    try:
                        run()
                    except InvalidRequestError as e:
                        if type(e) is not InvalidRequestError:
                            raise
                    else:
                        raise Violation(active_sig or f"C35/{op}/no-error", f"step {step} {op} on a {STATES[m.st]} object (session {m.sess}, target {s}, was_deleted={m.was_deleted}) "
                                        "did not raise InvalidRequestError", observed="no error", expected="InvalidRequestError")
                else:
                    try:
                        if run is not None:
                            run()
                    except InvalidRequestError as e:
                        if type(e) is not InvalidRequestError:
                            raise
                        raise Violation(active_sig or f"C35/{op}/unexpected-error", f"step {step} {op} on a {STATES[before[i][0]]} object raised InvalidRequestError: {e}",
                                        observed=str(e)[:300], expected="documented transition")
                _verify(case, step, op, model, real, sessions, logs, model.events, active_sig)
    finally:
        nontrivial = any(len(o.visited) >= 4 and o.rb_edge for o in model.objs)
        for e in model.edges:
            classes.add("edge:" + e)
        if nontrivial:
            classes.add("nontrivial")
        if nsess == 2:
            classes.add("two-sessions")
        if not eoc:
            classes.add("expire_on_commit=False")
        ctx.note(case, nontrivial, classes=classes)
        for s_ in sessions:
            try:
                s_.close()
            except Exception:
                pass
        for e in engines:
            e.dispose()


# ---------------------------------------------------------------------------------------------
_W = (["add"] * 6 + ["delete"] * 3 + ["flush"] * 5 + ["commit"] * 3 + ["rollback"] * 7 + ["begin_nested"] * 3 + ["nested_commit"] + ["nested_rollback"] * 4
      + ["expunge"] * 2 + ["expunge_all", "close"] + ["merge"] * 2 + ["make_transient", "mttd", "get", "get", "new"])


_PREFIXES = [
    [],
    [["add", 0, 0, 0, 1], ["commit", 0, 0, 0, 0]],
    [["add", 0, 0, 0, 1], ["add", 1, 0, 0, 1], ["commit", 0, 0, 0, 0]],
    [["add", 0, 0, 0, 1], ["add", 1, 0, 0, 1], ["add", 2, 0, 0, 1], ["commit", 0, 0, 0, 0], ["delete", 0, 0, 0, 1], ["flush", 0, 0, 0, 0]],
]


@st.composite
def _programs(draw):
    nsess = draw(st.sampled_from([1, 1, 2]))
    sess_ix = st.integers(0, 1) if nsess == 2 else st.just(0)
    raw = draw(st.lists(st.tuples(st.sampled_from(_W + ["delete_flush"] * 4 + ["add_flush"] * 2), st.integers(0, 11), sess_ix, st.integers(0, 1), st.sampled_from([0, 1, 1, 1])),
                        min_size=4, max_size=30))
    ops = []
    for o in raw:
        if o[0] in ("delete_flush", "add_flush"):  # macro: the request followed by the flush that realises it
            ops.append([o[0].split("_")[0]] + list(o[1:]))
            ops.append(["flush", 0, o[2], 0, 0])
        else:
            ops.append(list(o))
    prefix = draw(st.sampled_from(_PREFIXES))
    return {"nsess": nsess, "eoc": draw(st.sampled_from([True, True, False])), "nobj": draw(st.integers(1, 3)), "ops": [list(o) for o in prefix] + ops[:40]}


def subs(tier):
    return [Generated("lifecycle", check, strategy=_programs(), quick=2000, thorough=100000)]
