"""C25 - the pool never hands one connection to two holders and respects its limits.

Workloads of 2-4 real threads run under vf.sched (the harness owns the schedule:
pre-emption at every traced line of pool/impl.py, pool/base.py, util/queue.py and
at every lock / condition operation; virtual clock).  A fake DBAPI keeps the
connection ledger.  Invariants are checked at every scheduling step and at the
quiescent end state.
"""
from __future__ import annotations

import gc

from hypothesis import strategies as st

from vf.api import Enumerated, Generated, Violation

PROPERTY = "C25"
LEVEL = "exploration"
RULE = (
    "case = pool configuration (QueuePool FIFO/LIFO size 1-2 overflow 0-1/-1, NullPool, SingletonThreadPool) x 2-4 thread programs of 1-6 ops "
    "(checkout, checkin, hard/soft invalidate, drop reference without close, status, hold) x schedule (<=5 pre-emptions at drawn scheduling steps + "
    "drawn picks when a thread blocks). enum2: every schedule with <=2 pre-emptions (positions on a grid) for fixed 2-thread size-1 workloads. "
    "Non-trivial: >=1 pre-emption taken inside pool code while another thread is also inside pool code, and threads > pool_size; distinct = canonical JSON"
)
ASSUMPTIONS = [
    "pre-emption granularity is a Python source line inside pool/impl.py, pool/base.py, util/queue.py plus every Lock/RLock/Condition operation; races below that are out of reach",
    "threading / time are replaced in those modules by the scheduler's shims for the duration of a case (module attributes restored afterwards)",
    "SingletonThreadPool is only run with pool_size >= number of threads (its over-capacity cleanup is documented as unsafe for in-use connections)",
    "pool.dispose() is not in the alphabet: it resets the overflow counter while connections are checked out (documented: do not reuse a disposed pool)",
    "a TimeoutError is legal iff at the virtual instant it fires every unit of capacity is held by a live checkout (the scheduler fires timeouts only when nothing is runnable)",
]

TARGETS = ("sqlalchemy/pool/impl.py", "sqlalchemy/pool/base.py", "sqlalchemy/util/queue.py")
OPS = ["checkout", "checkout", "checkin", "checkin", "invalidate", "soft_invalidate", "drop", "status", "hold"]


class _Inv(Exception):
    def __init__(self, sig, msg):
        super().__init__(msg)
        self.sig = sig
        self.msg = msg


def _run(case, ctx, note=True):
    from sqlalchemy import exc
    from sqlalchemy import pool as sapool
    from sqlalchemy.event import attr as ev_attr
    from sqlalchemy.pool import base as pbase
    from sqlalchemy.pool import impl as pimpl
    from sqlalchemy.util import queue as squeue

    from vf import fakedb, sched as S

    cfg = case["cfg"]
    programs = case["programs"]
    preempt = {int(k): v for k, v in case["preempt"]}
    db = fakedb.FakeDB()
    kind = cfg["kind"]
    size, overflow = cfg.get("size", 1), cfg.get("overflow", 0)
    capacity = None
    if kind == "queue" and overflow >= 0:
        capacity = size + overflow
    holders = {}  # dbapi connection id -> tid  (cleared just before the connection is given back: two-holder check)
    busy = [0]  # checkouts not yet *completely* returned (a connection in transit back to the pool is still capacity in use)
    viol = []
    state = {"pool": None}
    timeouts = []

    def on_step(sched):
        p = state["pool"]
        if p is None:
            return
        openc = len(db.open_connections())
        if capacity is not None and openc > capacity:
            raise _Inv("C25/limit/open-connections-exceed-size-plus-overflow", f"{openc} DBAPI connections open > pool_size+max_overflow = {capacity} at step {sched.step}")
        if kind == "queue":
            q = p._pool.queue
            if len(q) > size:
                raise _Inv("C25/limit/idle-exceeds-pool-size", f"{len(q)} idle records > pool_size {size}")

    def in_use():
        """capacity in use right now, taking the largest of three views so that a connection in transit (taken from the
        queue but not yet handed to the caller, being returned, or a reserved overflow slot still connecting) counts"""
        p = state["pool"]
        idle = [r for r in p._pool.queue]
        idle_open = sum(1 for r in idle if r.dbapi_connection is not None and not r.dbapi_connection.closed)
        ledger = len(db.open_connections()) - idle_open
        reserved = p._pool.maxsize - len(idle) + p._overflow
        return max(busy[0], ledger, reserved)

    def on_timeout(sched, t):
        # the scheduler expires a timed wait only when no thread is runnable; if capacity is free at that instant the
        # waiter should have been woken when it became free: lost wake-up (even if the late retry then succeeds)
        if kind == "queue" and t.blocked_on == "cond.wait" and (capacity is None or in_use() < capacity):
            p = state["pool"]
            if len(p._pool.queue) == 0:
                # capacity is free only as overflow headroom: _dec_overflow() does not wake waiters (listed known finding)
                raise _Inv("C25/lost-wakeup/overflow-slot-freed-without-wakeup", f"T{t.tid} stayed blocked until its timeout although only {busy[0]} of {capacity} "
                           f"connections were in use (overflow={p._overflow}, idle=0): the slot freed by _dec_overflow() woke nobody")
            raise _Inv("C25/lost-wakeup/idle-connection-not-handed-to-waiter", f"T{t.tid} stayed blocked until its timeout although {len(p._pool.queue)} idle connection(s) "
                       f"were in the pool and only {busy[0]} of {capacity} in use")

    sch = S.Scheduler(preempt=preempt, picks=case.get("picks", []), target_files=TARGETS, on_step=on_step, max_steps=30000, on_timeout=on_timeout)

    def make_worker(prog):
        def work(w):
            p = state["pool"]
            stack = []
            mine = set()
            try:
                for op in prog:
                    name, k = op[0], op[1]
                    if name == "checkout":
                        try:
                            f = p.connect()
                        except exc.TimeoutError:
                            held_now = in_use() if kind == "queue" else busy[0]
                            timeouts.append((w.tid, held_now))
                            if capacity is None or held_now < capacity:
                                raise _Inv("C25/timeout/with-free-capacity", f"T{w.tid} got TimeoutError while only {held_now} of {capacity} connections were in use (lost wake-up)")
                            continue
                        busy[0] += 1
                        dc = f.dbapi_connection
                        cid = dc.id
                        if dc.closed:
                            raise _Inv("C25/checkout/closed-connection-handed-out", f"T{w.tid} received closed DBAPI connection {cid}")
                        if kind == "singleton":
                            if mine and cid not in mine:
                                pass
                            other = [t for c, t in holders.items() if c == cid and t != w.tid]
                            if other:
                                raise _Inv("C25/singleton/connection-shared-between-threads", f"connection {cid} held by T{other[0]} handed to T{w.tid}")
                            holders.setdefault(cid, w.tid)
                            stack.append((f, cid, True))
                            mine.add(cid)
                            continue
                        if cid in holders:
                            raise _Inv("C25/checkout/connection-handed-to-two-holders", f"DBAPI connection {cid} is held by T{holders[cid]} and was handed to T{w.tid}")
                        holders[cid] = w.tid
                        stack.append((f, cid, False))
                    elif name in ("checkin", "invalidate", "drop") and stack:
                        f, cid, shared = stack.pop(k % len(stack))
                        if not shared or not any(c == cid for _f, c, _s in stack):
                            holders.pop(cid, None)
                        try:
                            if name == "checkin":
                                f.close()
                            elif name == "invalidate":
                                f.invalidate()
                            else:
                                del f
                        finally:
                            busy[0] -= 1
                    elif name == "soft_invalidate" and stack:
                        stack[k % len(stack)][0].invalidate(soft=True)
                    elif name == "status":
                        p.status()
                    elif name == "hold":
                        sch.yield_point("hold")
            finally:
                while stack:
                    f, cid, shared = stack.pop()
                    holders.pop(cid, None)
                    try:
                        f.close()
                    except S.SchedAbort:
                        raise
                    except Exception:
                        pass
                    finally:
                        busy[0] -= 1
        return work

    mods = [squeue, pimpl, pbase, ev_attr]
    with S.patched(sch, mods, time_modules=[pbase], timefn_modules=[(squeue, "_time")]):
        if kind == "queue":
            p = sapool.QueuePool(db.connect, pool_size=size, max_overflow=overflow, timeout=30, use_lifo=cfg.get("lifo", False))
        elif kind == "null":
            p = sapool.NullPool(db.connect)
        else:
            p = sapool.SingletonThreadPool(db.connect, pool_size=cfg.get("size", 5))
        state["pool"] = p
        for prog in programs:
            sch.spawn(make_worker(prog))
        sch.run()
    gc.collect()

    nontrivial = sch.contended_preemptions >= 1 and (kind != "queue" or len(programs) > size)
    if note:
        ctx.note(case, nontrivial, classes=[kind, "threads%d" % len(programs), "preempt%d" % len(sch.trace_log), "timeouts%d" % min(len(timeouts), 2)]
                 + (["contended"] if sch.contended_preemptions else []))
    ctx.info("scheduling_steps", sch.step)
    for kind_e, e in sch.errors:
        if kind_e == "invariant" and isinstance(e, _Inv):
            raise Violation(e.sig, e.msg + f" | schedule taken: {sch.trace_log[:8]}")
        if kind_e == "deadlock":
            raise Violation("C25/deadlock-or-lost-wakeup", f"{e} | held={holders} open={len(db.open_connections())} | schedule taken: {sch.trace_log[:8]}")
        if kind_e == "harness":
            from vf.api import HarnessError

            raise HarnessError(str(e))
        raise Violation("C25/invariant", str(e))
    for w in sch.threads:
        if w.exc is not None:
            if isinstance(w.exc, _Inv):
                raise Violation(w.exc.sig, w.exc.msg + f" | schedule taken: {sch.trace_log[:8]}")
            raise w.exc
    # quiescent end state
    if kind == "queue":
        co = p.checkedout()
        if co != 0:
            raise Violation("C25/quiescent/checkedout-nonzero", f"all holders released but pool.checkedout() == {co} (overflow={p.overflow()}, checkedin={p.checkedin()}) | {sch.trace_log[:8]}")
        recs = list(p._pool.queue)
        ids = [r.dbapi_connection.id for r in recs if r.dbapi_connection is not None]
        if len(ids) != len(set(ids)) or len(set(map(id, recs))) != len(recs):
            raise Violation("C25/quiescent/record-queued-twice", f"idle queue holds a record or connection twice: {ids}")
        openc = sorted(c.id for c in db.open_connections())
        if sorted(ids) != openc:
            raise Violation("C25/quiescent/leaked-or-dead-connection", f"open DBAPI connections {openc} != idle pooled connections {sorted(ids)}")
        if capacity is not None and len(openc) > size:
            raise Violation("C25/limit/idle-exceeds-pool-size", f"{len(openc)} connections idle > pool_size {size}")
    elif kind == "null":
        if db.open_connections():
            raise Violation("C25/null/connection-left-open", f"NullPool left {len(db.open_connections())} connections open")


def check_pool(case, ctx):
    _run(case, ctx)


_op = st.tuples(st.sampled_from(OPS), st.integers(0, 3)).map(list)
_cfg = st.one_of(
    st.fixed_dictionaries({"kind": st.just("queue"), "size": st.integers(1, 2), "overflow": st.sampled_from([0, 0, 1, -1]), "lifo": st.booleans()}),
    st.fixed_dictionaries({"kind": st.just("queue"), "size": st.integers(1, 2), "overflow": st.sampled_from([0, 1]), "lifo": st.booleans()}),
    st.fixed_dictionaries({"kind": st.just("null")}),
    st.fixed_dictionaries({"kind": st.just("singleton"), "size": st.integers(1, 3)}),
)


@st.composite
def _cases(draw):
    cfg = draw(_cfg)
    nthreads = draw(st.integers(2, 4))
    programs = [draw(st.lists(_op, min_size=1, max_size=6)) for _ in range(nthreads)]
    if cfg["kind"] == "singleton":
        # documented: with more threads than pool_size, SingletonThreadPool closes connections "in an arbitrary fashion ...
        # not sensitive to whether they are currently in use"; keep the domain inside the documented safe region
        cfg = dict(cfg, size=max(cfg["size"], nthreads))
    for p in programs:
        if not any(o[0] == "checkout" for o in p):
            p.insert(0, ["checkout", 0])
    npre = draw(st.integers(0, 5))
    preempt = sorted({(draw(st.integers(1, 400)), draw(st.integers(0, 3))) for _ in range(npre)})
    picks = draw(st.lists(st.integers(0, 3), max_size=6))
    return {"cfg": cfg, "programs": programs, "preempt": [list(x) for x in preempt], "picks": picks}


def _enum2(tier):
    """all schedules with <=2 pre-emptions (step grid) for fixed contended workloads"""
    workloads = [
        ({"kind": "queue", "size": 1, "overflow": 0, "lifo": False}, [[["checkout", 0], ["checkin", 0]], [["checkout", 0], ["checkin", 0]]]),
        ({"kind": "queue", "size": 1, "overflow": 1, "lifo": False}, [[["checkout", 0], ["checkout", 0], ["checkin", 0]], [["checkout", 0], ["drop", 0]], [["checkout", 0], ["invalidate", 0]]]),
    ]
    grid = list(range(1, 260, 4 if tier == "quick" else 1))
    for cfg, progs in workloads:
        yield {"cfg": cfg, "programs": progs, "preempt": [], "picks": []}
        for a in grid:
            yield {"cfg": cfg, "programs": progs, "preempt": [[a, 0]], "picks": []}
        step2 = 16 if tier == "quick" else 3
        g2 = grid[::step2] if tier == "quick" else grid[::step2]
        for i, a in enumerate(g2):
            for b in g2[i + 1:]:
                yield {"cfg": cfg, "programs": progs, "preempt": [[a, 0], [b, 1]], "picks": []}


def subs(tier):
    return [
        Enumerated("enum2", check_pool, cases=_enum2),
        Generated("random", check_pool, strategy=_cases(), quick=1200, thorough=100000),
    ]
