"""C14 - DDL is emitted in dependency order for any foreign-key graph.

Three oracles per generated FK graph (programs-as-data, built into a fresh
MetaData per evaluation):

1. ``MetaData.sorted_tables``: permutation, referenced-before-referrer for every
   FK whose owning table is not on a dependency cycle, warning iff a cycle
   exists, identical for two independently built MetaData objects.
2. strict-catalog model (PostgreSQL semantics) fed with the *rendered SQL* of
   every DDL element that ``create_all`` / ``drop_all`` hand to a mock engine of
   the postgresql and mysql dialects.
3. live SQLite with ``PRAGMA foreign_keys=ON``: create_all (optionally on a
   partially created schema with checkfirst), row chain, drop_all.
"""
from __future__ import annotations

import itertools
import re
import warnings

from hypothesis import strategies as st

from vf.api import Enumerated, Generated, HarnessError, Violation

PROPERTY = "C14"
LEVEL = "exploration"
RULE = (
    "exh: every labelled FK digraph (one FK per ordered table pair incl. self references) over n<=3 tables [thorough: n<=4] x 4 option sets "
    "(all unnamed / all named / named + use_alter on child<parent edges / mixed naming) x declaration order (identity, reversed); "
    "random: 1-7 tables, 0-14 FKs (child,parent by index, 1 or 2 columns, named?, use_alter?, column-level or table-level), parallel edges, "
    "drawn declaration order, two-phase create/drop split (tables= subsets closed under references), SQLite pre-created / pre-dropped subsets with checkfirst, indexes. "
    "history: the same random graphs plus a history of 2-8 calls (create_all twice; create_all(tables=subset closed under references) then create_all; Tables added to the MetaData after "
    "create_all, then create_all again; drop_all(tables=subset closed under 'referenced by') then drop_all; free mixes) with checkfirst functional on the postgresql and mysql dialects "
    "(has_table/has_index answered from the strict catalog); after every call the catalog must equal exactly the MetaData's definition of the existing tables (FK constraints as a multiset: "
    "re-emitted ALTER .. ADD CONSTRAINT shows up as 'already exists' or as a duplicate). history non-trivial: a checkfirst create finds existing tables and the graph has FKs, or an existing table owns an ALTER-rendered FK. "
    "Non-trivial (exh/random): the FK graph has a cycle over >=2 tables or a dependency chain over >=3 tables, and the declaration order is not already a valid creation order; "
    "distinct = canonical JSON of the case"
)
ASSUMPTIONS = [
    "no PostgreSQL/MySQL server: ordering is judged by a strict catalog model (referenced table must exist for inline FK / ADD CONSTRAINT; DROP TABLE refused while a live FK of another table references it) fed with the rendered SQL text",
    "documented outcomes are modelled, not flagged: drop_all raises CircularDependencyError when a cycle consists only of unnamed non-use_alter FKs; DROP of an unnamed use_alter FK raises CompileError; sorted_tables warns on cycles and ignores FKs of cyclic tables; SQLite drop_all warns and drops unsorted when a cycle exists",
    "two-phase subsets passed as tables= are closed under references (a user creating a referrer without its target is outside the contract)",
    "SQLite live part: with a cycle present rows carry NULL references (SQLite docs: mutually dependent tables cannot be relied on with foreign_keys=ON)",
    "known finding excluded by construction: a cyclic table with both a named and an unnamed FK to the same parent (C14/drop_all/parallel-fk-mixed-naming-edge-discarded)",
]

_FK_INLINE = re.compile(r"(?:CONSTRAINT (\w+) )?FOREIGN KEY\s*\(([^)]*)\) REFERENCES (\w+) \(([^)]*)\)")
_CREATE_TABLE = re.compile(r"^\s*CREATE TABLE (\w+) \(")
_ADD_FK = re.compile(r"^\s*ALTER TABLE (\w+) ADD (?:CONSTRAINT (\w+) )?FOREIGN KEY\s*\(([^)]*)\) REFERENCES (\w+) \(([^)]*)\)")
_DROP_FK = re.compile(r"^\s*ALTER TABLE (\w+) DROP (?:CONSTRAINT|FOREIGN KEY) (\w+)\s*$")
_DROP_TABLE = re.compile(r"^\s*DROP TABLE (\w+)\s*$")
_CREATE_INDEX = re.compile(r"^\s*CREATE (?:UNIQUE )?INDEX (\w+) ON (\w+) \(")


# --------------------------------------------------------------------------- graph helpers
def _norm(case):
    """decode a case into (n, order, fks, opts); every index is taken modulo the
    current count so any JSON case is valid"""
    if isinstance(case, list):  # enumerated: ["g", n, mask, opt, rev]
        _, n, mask, opt, rev = case
        fks = []
        for c in range(n):
            for p in range(n):
                if mask >> (c * n + p) & 1:
                    named = opt in (1, 2) or (opt == 3 and (c + p) % 2 == 1)
                    ua = opt == 2 and c < p
                    fks.append({"c": c, "p": p, "ncols": 1 + ((c + 2 * p) % 2), "named": named, "ua": ua, "tbl": bool((c + p) % 2)})
        order = list(range(n))
        if rev:
            order.reverse()
        return n, order, fks, {"split": 0, "pre": 0, "predrop": 0, "idx": (1 << n) - 1 if opt % 2 else 0, "pinned": False}
    n = max(1, min(7, int(case["n"])))
    order = []
    for x in case["order"]:
        x = x % n
        if x not in order:
            order.append(x)
    order += [i for i in range(n) if i not in order]
    fks = []
    for f in case["fks"]:
        fks.append({"c": f[0] % n, "p": f[1] % n, "ncols": 2 if f[2] else 1, "named": bool(f[3]), "ua": bool(f[4]), "tbl": bool(f[5])})
    return n, order, fks, {"split": case.get("split", 0), "pre": case.get("pre", 0), "predrop": case.get("predrop", 0),
                            "idx": case.get("idx", 0), "pinned": bool(case.get("pinned", False))}


def _cyclic_nodes(n, edges):
    """nodes lying on a cycle of length >= 2 ... or 1 if self-loops are passed in (callers pass non-self edges)"""
    succ = {i: set() for i in range(n)}
    for a, b in edges:
        succ[a].add(b)
    out = set()
    for s in range(n):
        seen, stack = set(), list(succ[s])
        while stack:
            x = stack.pop()
            if x in seen:
                continue
            seen.add(x)
            stack.extend(succ[x])
        if s in seen:
            out.add(s)
    return out


def _longest_chain(n, edges):
    """number of tables on the longest simple dependency path (DAG part only; cyclic graphs return n)"""
    if _cyclic_nodes(n, edges):
        return n
    succ = {i: set() for i in range(n)}
    for a, b in edges:
        succ[a].add(b)
    memo = {}

    def depth(x):
        if x not in memo:
            memo[x] = 1 + max([depth(y) for y in succ[x]], default=0)
        return memo[x]

    return max([depth(i) for i in range(n)], default=0)


def _topo(n, edges):
    """a reference topological order (parents first) of a DAG given as (parent, child) pairs"""
    indeg = {i: 0 for i in range(n)}
    for p, c in set(edges):
        indeg[c] += 1
    done, out = set(), []
    while len(out) < n:
        ready = [i for i in range(n) if i not in done and not any(p not in done for p, c in edges if c == i)]
        if not ready:
            raise HarnessError("reference topo called on cyclic graph")
        out.append(ready[0])
        done.add(ready[0])
    return out


def _closure_down(n, fks, mask):
    """smallest superset of the masked tables closed under 'references'"""
    s = {i for i in range(n) if mask >> i & 1}
    changed = True
    while changed:
        changed = False
        for f in fks:
            if f["c"] in s and f["p"] not in s:
                s.add(f["p"])
                changed = True
    return s


# --------------------------------------------------------------------------- build
def _build(n, order, fks, idxmask, md=None, only=None):
    from sqlalchemy import Column, ForeignKey, ForeignKeyConstraint, Index, Integer, MetaData, Table, UniqueConstraint

    md = MetaData() if md is None else md
    tables = {}
    for i in order:
        if only is not None and i not in only:
            continue
        cols = [Column("id", Integer, primary_key=True), Column("k", Integer)]
        extra = [UniqueConstraint("id", "k")]
        for j, f in enumerate(fks):
            if f["c"] != i:
                continue
            name = f"fk{j}" if f["named"] else None
            if f["ncols"] == 1 and not f["tbl"]:
                cols.append(Column(f"f{j}a", Integer, ForeignKey(f"t{f['p']}.id", name=name, use_alter=f["ua"])))
            elif f["ncols"] == 1:
                cols.append(Column(f"f{j}a", Integer))
                extra.append(ForeignKeyConstraint([f"f{j}a"], [f"t{f['p']}.id"], name=name, use_alter=f["ua"]))
            else:
                cols.append(Column(f"f{j}a", Integer))
                cols.append(Column(f"f{j}b", Integer))
                extra.append(ForeignKeyConstraint([f"f{j}a", f"f{j}b"], [f"t{f['p']}.id", f"t{f['p']}.k"], name=name, use_alter=f["ua"]))
        if idxmask >> i & 1:
            extra.append(Index(f"ix_t{i}", "k"))
        tables[i] = Table(f"t{i}", md, *cols, *extra)
    return md, tables


def _declared_fk_set(fks, subset=None):
    out = []
    for j, f in enumerate(fks):
        if subset is not None and f["c"] not in subset:
            continue
        cols = (f"f{j}a",) if f["ncols"] == 1 else (f"f{j}a", f"f{j}b")
        ref = ("id",) if f["ncols"] == 1 else ("id", "k")
        out.append((f"t{f['c']}", cols, f"t{f['p']}", ref, f"fk{j}" if f["named"] else None))
    return sorted(out, key=repr)


# --------------------------------------------------------------------------- strict catalog (PostgreSQL semantics)
class _Catalog:
    def __init__(self, dialect_name):
        self.dn = dialect_name
        self.tables = {}  # name -> set(columns)
        self.fks = []  # dicts: table, cols, ref, refcols, name
        self.indexes = {}  # name -> table
        self.log = []

    def _fail(self, what, msg):
        raise Violation(f"C14/{what}", f"[{self.dn}] {msg}; statements so far: {self.log[-12:]}", observed=self.log[-12:])

    def _add_fk(self, table, name, cols, ref, refcols, how):
        cols = tuple(c.strip() for c in cols.split(","))
        refcols = tuple(c.strip() for c in refcols.split(","))
        if ref not in self.tables:
            self._fail(f"{how}/fk-to-missing-table", f"{how} on {table}: FOREIGN KEY references table {ref} which does not exist yet")
        if not set(refcols) <= self.tables[ref] or not set(cols) <= self.tables[table]:
            self._fail(f"{how}/fk-unknown-column", f"{how} on {table}: columns {cols}->{ref}{refcols} not in catalog")
        if name is not None and any(f["table"] == table and f["name"] == name for f in self.fks):
            self._fail(f"{how}/duplicate-constraint", f"constraint {name} already exists on {table}")
        self.fks.append({"table": table, "cols": cols, "ref": ref, "refcols": refcols, "name": name, "how": how})

    def execute(self, sql):
        s = " ".join(sql.split())
        self.log.append(s[:160])
        m = _CREATE_TABLE.match(s)
        if m:
            t = m.group(1)
            if t in self.tables:
                self._fail("create/table-exists", f"CREATE TABLE {t}: already exists")
            body = s[m.end():].strip()
            cols = set(re.findall(r"(?:^|, )(\w+) (?:INTEGER|SERIAL|BIGINT)", body))
            self.tables[t] = cols  # registered first: self references are legal
            try:
                for name, c, ref, rc in _FK_INLINE.findall(body):
                    self._add_fk(t, name or None, c, ref, rc, "create-table")
            except Violation:
                del self.tables[t]
                raise
            return
        m = _ADD_FK.match(s)
        if m:
            t, name, c, ref, rc = m.groups()
            if t not in self.tables:
                self._fail("add-constraint/table-missing", f"ALTER TABLE {t} ADD CONSTRAINT before the table exists")
            self._add_fk(t, name, c, ref, rc, "add-constraint")
            return
        m = _DROP_FK.match(s)
        if m:
            t, name = m.groups()
            hit = [f for f in self.fks if f["table"] == t and f["name"] == name]
            if t not in self.tables or not hit:
                self._fail("drop-constraint/missing", f"DROP CONSTRAINT {name} on {t}: no such constraint")
            self.fks.remove(hit[0])
            return
        m = _DROP_TABLE.match(s)
        if m:
            t = m.group(1)
            if t not in self.tables:
                self._fail("drop/table-missing", f"DROP TABLE {t}: does not exist")
            live = [f for f in self.fks if f["ref"] == t and f["table"] != t]
            if live:
                self._fail("drop/table-still-referenced", f"DROP TABLE {t} while constraint {live[0]['name']} of {live[0]['table']} still references it")
            del self.tables[t]
            self.fks = [f for f in self.fks if f["table"] != t]
            self.indexes = {k: v for k, v in self.indexes.items() if v != t}
            return
        m = _CREATE_INDEX.match(s)
        if m:
            ix, t = m.groups()
            if t not in self.tables:
                self._fail("create-index/table-missing", f"CREATE INDEX {ix} on missing table {t}")
            if ix in self.indexes:
                self._fail("create-index/exists", f"CREATE INDEX {ix}: already exists")
            self.indexes[ix] = t
            return
        raise HarnessError(f"strict catalog cannot parse statement: {s!r}")

    def fk_set(self):
        return sorted([(f["table"], f["cols"], f["ref"], f["refcols"], f["name"]) for f in self.fks], key=repr)


_MOCKS = {}
_DIALECT_URLS = {"postgresql": "postgresql+psycopg2://", "mysql": "mysql+pymysql://"}


def _expected_drop_outcome(n, fks, subset):
    """documented outcome of drop_all on an ALTER-capable backend for the given table subset"""
    fixed = [(f["p"], f["c"]) for f in fks if f["c"] in subset and f["p"] != f["c"] and not f["ua"] and not f["named"]]
    if _cyclic_nodes(n, fixed):
        return "circular"
    if any(f["ua"] and not f["named"] for f in fks if f["c"] in subset):
        return "noname"
    return "ok"


def _run_catalog(dialect_name, n, order, fks, opts, phases, ctx):
    from sqlalchemy import create_mock_engine
    from sqlalchemy.exc import CircularDependencyError, CompileError

    md, tables = _build(n, order, fks, opts["idx"])
    cat = _Catalog(dialect_name)
    if dialect_name not in _MOCKS:  # one mock engine per dialect and process; the executor forwards to the current catalog
        holder = {"cat": None}

        def executor(sql, *a, _h=holder, **kw):
            _h["cat"].execute(str(sql.compile(dialect=_h["e"].dialect)))

        holder["e"] = create_mock_engine(_DIALECT_URLS[dialect_name], executor)
        _MOCKS[dialect_name] = holder
    _MOCKS[dialect_name]["cat"] = cat
    eng = _MOCKS[dialect_name]["e"]
    create_orders = []
    for subset in phases:
        kw = {} if len(phases) == 1 else {"tables": [tables[i] for i in order if i in subset]}
        md.create_all(eng, checkfirst=False, **kw)
    create_orders = [s.split()[2] for s in cat.log if s.startswith("CREATE TABLE")]
    # complete after create_all
    if sorted(cat.tables) != sorted(f"t{i}" for i in range(n)):
        raise Violation("C14/create_all/tables-missing", f"[{dialect_name}] tables after create_all {sorted(cat.tables)}", observed=sorted(cat.tables))
    if cat.fk_set() != _declared_fk_set(fks):
        raise Violation("C14/create_all/constraints-incomplete", f"[{dialect_name}] FK constraints after create_all differ from the declared ones",
                        observed=cat.fk_set(), expected=_declared_fk_set(fks))
    # documented: a use_alter FK is not part of CREATE TABLE but added by ALTER (ALTER-capable backends)
    ua_cols = {(f"t{f['c']}", f"f{j}a") for j, f in enumerate(fks) if f["ua"]}
    for f in cat.fks:
        if (f["table"], f["cols"][0]) in ua_cols and f["how"] != "add-constraint":
            raise Violation("C14/create_all/use_alter-rendered-inline", f"[{dialect_name}] use_alter FK {f['table']}{f['cols']} was rendered inside CREATE TABLE", observed=cat.log[-8:])
    exp_ix = sorted(f"ix_t{i}" for i in range(n) if opts["idx"] >> i & 1)
    if sorted(cat.indexes) != exp_ix:
        raise Violation("C14/create_all/indexes-incomplete", f"[{dialect_name}] indexes {sorted(cat.indexes)} != {exp_ix}", observed=sorted(cat.indexes), expected=exp_ix)
    outcomes = []
    for subset in reversed(phases):
        kw = {} if len(phases) == 1 else {"tables": [tables[i] for i in order if i in subset]}
        exp = _expected_drop_outcome(n, fks, subset)
        before = len(cat.log)
        if exp == "noname" and dialect_name == "mysql" and not opts["pinned"]:
            ctx.exclude("mysql: DROP of an unnamed use_alter FK (known finding: AssertionError instead of the documented CompileError)")
            outcomes.append(exp)
            return create_orders, outcomes
        try:
            md.drop_all(eng, checkfirst=False, **kw)
            got = "ok"
        except AssertionError as e:
            from vf.api import in_lib_frames
            from vf import purehook

            fs = in_lib_frames(e, purehook.LIB)
            if fs is None:
                raise
            if exp == "noname" and dialect_name == "mysql" and fs.name == "format_constraint":
                raise Violation("C14/drop_all/mysql-unnamed-use_alter-AssertionError",
                                "[mysql] DROP of an unnamed use_alter FK raises a bare AssertionError (TypeError under -O) instead of the documented CompileError 'it has no name'",
                                observed="AssertionError in IdentifierPreparer.format_constraint", expected="CompileError")
            raise
        except CircularDependencyError as e:
            got = "circular"
            if "Can't sort tables for DROP" not in str(e):
                raise Violation("C14/drop_all/circular-error-message", f"[{dialect_name}] CircularDependencyError without the documented message: {e}")
            if len(cat.log) != before:
                raise Violation("C14/drop_all/partial-drop-before-circular-error", f"[{dialect_name}] statements were emitted before CircularDependencyError: {cat.log[before:]}")
        except CompileError as e:
            got = "noname"
            if "it has no name" not in str(e):
                raise
        outcomes.append(got)
        if got != exp:
            sig = f"C14/drop_all/outcome-{got}-expected-{exp}"
            raise Violation(sig, f"[{dialect_name}] drop_all outcome {got!r}, documented outcome {exp!r} (subset {sorted(subset)})", observed=got, expected=exp)
        if got != "ok":
            return create_orders, outcomes
        left = sorted(set(cat.tables) & {f"t{i}" for i in subset})
        if left:
            raise Violation("C14/drop_all/tables-left", f"[{dialect_name}] tables left after drop_all: {left}", observed=left, expected=[])
    if cat.tables or cat.fks or cat.indexes:
        raise Violation("C14/drop_all/catalog-not-empty", f"[{dialect_name}] catalog after drop_all: {sorted(cat.tables)} {cat.fk_set()}")
    return create_orders, outcomes


# --------------------------------------------------------------------------- sorted_tables
def _check_sorted_tables(n, order, fks, opts):
    from sqlalchemy.exc import SAWarning

    res = []
    dep = [(f["p"], f["c"]) for f in fks if not f["ua"] and f["p"] != f["c"]]
    cyc = _cyclic_nodes(n, dep)
    for rep in range(2):
        md, tables = _build(n, order, fks, opts["idx"])
        with warnings.catch_warnings(record=True) as w:
            warnings.simplefilter("always")
            st_ = [t.name for t in md.sorted_tables]
        warned = [x for x in w if issubclass(x.category, SAWarning) and "unresolvable cycles" in str(x.message)]
        other = [x for x in w if x not in warned]
        if other:
            raise Violation("C14/sorted_tables/unexpected-warning", f"{other[0].message}")
        if sorted(st_) != sorted(f"t{i}" for i in range(n)) or len(st_) != n:
            raise Violation("C14/sorted_tables/not-a-permutation", f"sorted_tables {st_} is not a permutation of the {n} tables", observed=st_)
        if bool(warned) != bool(cyc):
            raise Violation("C14/sorted_tables/cycle-warning", f"cycle among tables {sorted(cyc)} but warning emitted: {bool(warned)}", observed=bool(warned), expected=bool(cyc))
        pos = {name: i for i, name in enumerate(st_)}
        for p, c in dep:
            if c in cyc:
                continue  # documented: FKs of tables on a cycle are not considered
            if pos[f"t{p}"] >= pos[f"t{c}"]:
                raise Violation("C14/sorted_tables/edge-violated", f"t{c} references t{p} (t{c} is not on a cycle) but sorted_tables = {st_}", observed=st_, expected=f"t{p} before t{c}")
        res.append(st_)
    if res[0] != res[1]:
        raise Violation("C14/sorted_tables/non-deterministic", f"two identically declared MetaData gave {res[0]} and {res[1]}", observed=res)


# --------------------------------------------------------------------------- live SQLite
def _sqlite_engine():
    from sqlalchemy import create_engine, event
    from sqlalchemy.pool import StaticPool

    eng = create_engine("sqlite://", poolclass=StaticPool)

    @event.listens_for(eng, "connect")
    def _fk_on(dbapi_connection, rec):  # documented recipe (dialects/sqlite/base.py "Foreign Key Support")
        cur = dbapi_connection.cursor()
        cur.execute("PRAGMA foreign_keys=ON")
        cur.close()

    return eng


def _master(conn):
    from sqlalchemy import text

    rows = conn.execute(text("select type, name from sqlite_master where name not like 'sqlite_%' order by 1, 2")).fetchall()
    return sorted(r[1] for r in rows if r[0] == "table"), sorted(r[1] for r in rows if r[0] == "index" )


def _run_sqlite(n, order, fks, opts):
    from sqlalchemy import text
    from sqlalchemy.exc import SAWarning

    from vf.sautil import Capture

    md, tables = _build(n, order, fks, opts["idx"])
    eng = _sqlite_engine()
    all_names = sorted(f"t{i}" for i in range(n))
    all_ix = sorted(f"ix_t{i}" for i in range(n) if opts["idx"] >> i & 1)
    sort_dep = [(f["p"], f["c"]) for f in fks if f["p"] != f["c"] and not f["ua"]]
    sort_cyc = _cyclic_nodes(n, sort_dep)
    cap = Capture(eng)
    try:
        with eng.connect() as conn:
            if conn.execute(text("PRAGMA foreign_keys")).scalar() != 1:
                raise HarnessError("PRAGMA foreign_keys not enabled")
            pre = {i for i in range(n) if opts["pre"] >> i & 1}
            if pre:
                md.create_all(conn, tables=[tables[i] for i in order if i in pre], checkfirst=False)
            cap.clear()
            with warnings.catch_warnings(record=True) as w:
                warnings.simplefilter("always")
                md.create_all(conn, checkfirst=bool(pre) or bool(opts["split"] & 1))
            if w:
                raise Violation("C14/sqlite/create_all/unexpected-warning", str(w[0].message))
            created = sorted(m.group(1) for s, _, _ in cap.rows for m in [_CREATE_TABLE.match(s.replace("\n", " "))] if m)
            created_ix = sorted(m.group(1) for s, _, _ in cap.rows for m in [_CREATE_INDEX.match(s)] if m)
            exp_created = sorted(f"t{i}" for i in range(n) if i not in pre)
            exp_ix = sorted(f"ix_t{i}" for i in range(n) if i not in pre and opts["idx"] >> i & 1)
            if created != exp_created or created_ix != exp_ix:
                raise Violation("C14/sqlite/checkfirst/created-set", f"pre-existing {sorted(pre)}: create_all(checkfirst) emitted CREATE for {created} / {created_ix}, missing objects were {exp_created} / {exp_ix}",
                                observed=[created, created_ix], expected=[exp_created, exp_ix])
            if _master(conn) != (all_names, all_ix):
                raise Violation("C14/sqlite/create_all/incomplete", f"sqlite_master after create_all: {_master(conn)}", observed=_master(conn), expected=[all_names, all_ix])
            # row chain: one row per table, inserted parents first in a reference order computed here
            # (references only along FKs the documented sort considers: use_alter FKs are "known cycles that will be
            # ignored" and are rendered inline on SQLite, so they carry NULL)
            use_refs = not sort_cyc
            ins_order = _topo(n, sort_dep) if use_refs else list(range(n))
            for i in ins_order:
                vals = {"id": 1, "k": 1}
                for j, f in enumerate(fks):
                    if f["c"] == i and ((use_refs and not f["ua"]) or f["p"] == i):
                        vals[f"f{j}a"] = 1
                        if f["ncols"] == 2:
                            vals[f"f{j}b"] = 1
                conn.execute(tables[i].insert().values(**vals))
            conn.commit()
            # drop: optionally drop an upward-closed subset first, then drop_all(checkfirst=True)
            predrop = set()
            if opts["predrop"] and not sort_cyc:
                predrop = {i for i in range(n) if opts["predrop"] >> i & 1}
                changed = True
                while changed:  # close under 'is referenced by' so the partial drop is itself legal
                    changed = False
                    for f in fks:
                        if f["p"] in predrop and f["c"] not in predrop:
                            predrop.add(f["c"])
                            changed = True
                if len(predrop) == n:
                    predrop = set()
            if predrop:
                md.drop_all(conn, tables=[tables[i] for i in order if i in predrop], checkfirst=False)
                conn.commit()
                if _master(conn)[0] != sorted(f"t{i}" for i in range(n) if i not in predrop):
                    raise Violation("C14/sqlite/drop_all/partial", f"after drop_all(tables={sorted(predrop)}): {_master(conn)[0]}")
            cap.clear()
            with warnings.catch_warnings(record=True) as w:
                warnings.simplefilter("always")
                md.drop_all(conn, checkfirst=bool(predrop) or bool(opts["split"] & 2))
            conn.commit()
            warned = [x for x in w if issubclass(x.category, SAWarning) and "Can't sort tables for DROP" in str(x.message)]
            if [x for x in w if x not in warned]:
                raise Violation("C14/sqlite/drop_all/unexpected-warning", str([x for x in w if x not in warned][0].message))
            if bool(warned) != bool(sort_cyc):
                raise Violation("C14/sqlite/drop_all/cycle-warning", f"cycle tables {sorted(sort_cyc)}; warning emitted: {bool(warned)}", observed=bool(warned), expected=bool(sort_cyc))
            dropped = sorted(m.group(1) for s, _, _ in cap.rows for m in [_DROP_TABLE.match(s.replace("\n", " "))] if m)
            exp_dropped = sorted(f"t{i}" for i in range(n) if i not in predrop)
            if dropped != exp_dropped:
                raise Violation("C14/sqlite/checkfirst/dropped-set", f"pre-dropped {sorted(predrop)}: drop_all(checkfirst) emitted DROP for {dropped}, existing were {exp_dropped}", observed=dropped, expected=exp_dropped)
            if _master(conn) != ([], []):
                raise Violation("C14/sqlite/drop_all/not-empty", f"sqlite_master after drop_all: {_master(conn)}", observed=_master(conn), expected=[[], []])
    finally:
        cap.close()
        eng.dispose()



# --------------------------------------------------------------------------- histories of create/drop calls with a functional checkfirst
_SIMS = {}


def _sim_engine(dialect_name):
    """MockConnection that keeps the caller's checkfirst flag, over a subclass of the real dialect whose has_table /
    has_index answers come from the strict catalog (the documented Dialect.has_* interface); one per dialect and process"""
    if dialect_name in _SIMS:
        return _SIMS[dialect_name]
    from sqlalchemy.engine.mock import MockConnection
    from sqlalchemy.engine.url import make_url

    base = make_url(_DIALECT_URLS[dialect_name]).get_dialect()
    holder = {"cat": None}

    class SimDialect(base):
        supports_statement_cache = False

        def has_table(self, connection, table_name, schema=None, **kw):
            return table_name in holder["cat"].tables

        def has_multi_table(self, connection, table_names, schema=None, **kw):
            return [((schema, name), name in holder["cat"].tables) for name in table_names]

        def has_index(self, connection, table_name, index_name, schema=None, **kw):
            return holder["cat"].indexes.get(index_name) == table_name

        def has_sequence(self, connection, sequence_name, schema=None, **kw):
            return False

    class SimConnection(MockConnection):
        def _run_ddl_visitor(self, visitorcallable, element, **kwargs):
            visitorcallable(dialect=self.dialect, connection=self, **kwargs).traverse_single(element)

    dia = SimDialect()

    def executor(sql, *a, **kw):
        holder["cat"].execute(str(sql.compile(dialect=dia)))

    holder["e"] = SimConnection(dia, executor)
    _SIMS[dialect_name] = holder
    return holder


def _closure_up(fks, start, universe):
    s = set(start)
    changed = True
    while changed:
        changed = False
        for f in fks:
            if f["p"] in s and f["c"] not in s and f["c"] in universe:
                s.add(f["c"])
                changed = True
    return s


def _norm_history(case, n, fks):
    """-> (late set, ops); late = tables added to the MetaData by the 'late' op (closed under 'is referenced by',
    so no declared table ever refers to an undeclared one)"""
    full = set(range(n))
    late = _closure_up(fks, {i for i in range(n) if case.get("late", 0) >> i & 1}, full)
    if len(late) == n:
        late = set()
    ops = []
    for op in case.get("hist", [])[:8]:
        ops.append(list(op))
    if late and not any(o[0] == "late" for o in ops):
        ops.insert(len(ops) // 2, ["late"])
    return late, ops


def _invariant(cat, dn, n, fks, exists, idxmask, where):
    """the catalog must equal exactly the MetaData's definition of the tables that exist"""
    names = sorted(f"t{i}" for i in exists)
    if sorted(cat.tables) != names:
        raise Violation("C14/history/tables", f"[{dn}] {where}: tables in catalog {sorted(cat.tables)} != expected {names}; log {cat.log[-8:]}", observed=sorted(cat.tables), expected=names)
    exp_fk = _declared_fk_set(fks, exists)
    got_fk = cat.fk_set()
    if got_fk != exp_fk:
        extra = [x for x in got_fk if got_fk.count(x) > exp_fk.count(x)]
        sig = "C14/history/fk-constraint-duplicated" if extra else "C14/history/fk-constraint-missing"
        raise Violation(sig, f"[{dn}] {where}: FK constraints in catalog differ from the MetaData ({'duplicated: ' + repr(extra[:2]) if extra else 'missing'}); log {cat.log[-8:]}",
                        observed=got_fk, expected=exp_fk)
    exp_ix = sorted(f"ix_t{i}" for i in exists if idxmask >> i & 1)
    if sorted(cat.indexes) != exp_ix:
        raise Violation("C14/history/indexes", f"[{dn}] {where}: indexes {sorted(cat.indexes)} != {exp_ix}", observed=sorted(cat.indexes), expected=exp_ix)


def _alter_owned(n, fks, declared):
    """tables (among the declared ones) owning a FK that create_all renders through ALTER: use_alter, or owner on a cycle"""
    dep = [(f["p"], f["c"]) for f in fks if f["p"] != f["c"] and not f["ua"] and f["c"] in declared and f["p"] in declared]
    cyc = _cyclic_nodes(n, dep)
    return {f["c"] for f in fks if f["c"] in declared and (f["ua"] or (f["c"] in cyc and f["p"] != f["c"]))} | {f["c"] for f in fks if f["c"] in declared and f["c"] in cyc}


def _run_history(dn, n, order, fks, opts, late, ops, ctx, classes):
    from sqlalchemy.exc import CircularDependencyError, CompileError

    sim = _sim_engine(dn)
    cat = sim["cat"] = _Catalog(dn)
    eng = sim["e"]
    declared = set(range(n)) - late
    md, tables = _build(n, order, fks, opts["idx"], only=declared)
    exists = set()
    for k, op in enumerate(ops):
        kind = op[0]
        where = f"op {k} {op}"
        if kind == "late":
            if late - declared:
                _, more = _build(n, order, fks, opts["idx"], md=md, only=late)
                tables.update(more)
                declared |= late
                classes.add("table-added-after-create")
            continue
        if kind in ("ca", "cs"):
            target = set(declared) if kind == "ca" else (_closure_down(n, fks, op[1]) & declared)
            if kind == "cs" and not target:
                continue
            cf = bool(op[-1]) or bool(target & exists)  # creating an existing table without checkfirst is a user error
            if cf and target & exists:
                classes.add("checkfirst-with-existing-tables")
                if target <= exists:
                    classes.add("checkfirst-all-exist")
                if _alter_owned(n, fks, declared) & target & exists and target - exists:
                    classes.add("alter-fk-owner-already-exists")
                elif _alter_owned(n, fks, declared) & target & exists:
                    classes.add("alter-fk-owner-already-exists(all-exist)")
            kw = {} if kind == "ca" else {"tables": [tables[i] for i in order if i in target]}
            md.create_all(eng, checkfirst=cf, **kw)
            exists |= target
            _invariant(cat, dn, n, fks, exists, opts["idx"], where)
        else:
            target = set(declared) if kind == "da" else (_closure_up(fks, {i for i in range(n) if op[1] >> i & 1}, declared) & declared)
            if kind == "ds" and not target:
                continue
            cf = bool(op[-1]) or not (target <= exists)  # dropping a missing table without checkfirst is a user error
            eff = target & exists if cf else target
            if cf and not (target <= exists):
                classes.add("drop-checkfirst-with-missing-tables")
            if kind == "ds":
                classes.add("drop-subset")
            exp = _expected_drop_outcome(n, fks, eff)
            if exp == "noname" and dn == "mysql" and not opts["pinned"]:
                ctx.exclude("mysql: DROP of an unnamed use_alter FK (known finding: AssertionError instead of the documented CompileError)")
                return
            kw = {} if kind == "da" else {"tables": [tables[i] for i in order if i in target]}
            before = len(cat.log)
            try:
                md.drop_all(eng, checkfirst=cf, **kw)
                got = "ok"
            except CircularDependencyError:
                got = "circular"
                if len(cat.log) != before:
                    raise Violation("C14/drop_all/partial-drop-before-circular-error", f"[{dn}] {where}: statements emitted before CircularDependencyError: {cat.log[before:]}")
            except CompileError as e:
                if "it has no name" not in str(e):
                    raise
                got = "noname"
            if got != exp:
                raise Violation(f"C14/drop_all/outcome-{got}-expected-{exp}", f"[{dn}] {where}: drop_all outcome {got!r}, documented outcome {exp!r} (tables {sorted(eff)})", observed=got, expected=exp)
            if got == "noname":
                return  # constraints were partly dropped before the documented error: history ends
            if got == "ok":
                exists -= eff
            _invariant(cat, dn, n, fks, exists, opts["idx"], where)


def check_history(case, ctx):
    n, order, fks, opts = _norm(case)
    _exclude_known(n, fks, opts, ctx)
    late, ops = _norm_history(case, n, fks)
    classes = set()
    results = {}
    for dn in ("postgresql", "mysql"):
        cl = set()
        try:
            _run_history(dn, n, order, fks, opts, late, ops, ctx, cl)
        except Violation as v:
            ctx.note(case, True, classes=cl | classes)
            raise
        classes |= cl
    full_dep = [(f["p"], f["c"]) for f in fks if f["p"] != f["c"]]
    if _cyclic_nodes(n, full_dep):
        classes.add("cyclic")
    if any(f["ua"] for f in fks):
        classes.add("use_alter")
    nontrivial = bool(classes & {"alter-fk-owner-already-exists", "alter-fk-owner-already-exists(all-exist)"}) or ("checkfirst-with-existing-tables" in classes and bool(full_dep))
    ctx.note(case, nontrivial, classes=classes)


def _exclude_known(n, fks, opts, ctx):
    """known finding (parallel named + unnamed FKs of a cyclic table to one parent): name them all unless pinned; returns whether a pinned case carries the trigger"""
    sort_dep = [(f["p"], f["c"]) for f in fks if f["p"] != f["c"] and not f["ua"]]
    cyc_sort = _cyclic_nodes(n, sort_dep)
    mixed = False
    for c in sorted(cyc_sort):
        for p in range(n):
            allp = [f for f in fks if f["c"] == c and f["p"] == p and p != c]
            grp = [f for f in allp if not f["ua"]]
            if any(f["named"] for f in allp) and not all(f["named"] for f in grp):
                if opts["pinned"]:
                    mixed = True
                    continue
                ctx.exclude("cyclic table with named+unnamed parallel FKs to one parent (known finding: drop_all discards the dependency edge)")
                for f in grp:
                    f["named"] = True
    return mixed

# --------------------------------------------------------------------------- the check
def check_graph(case, ctx):
    n, order, fks, opts = _norm(case)
    full_dep = [(f["p"], f["c"]) for f in fks if f["p"] != f["c"]]
    sort_dep = [(f["p"], f["c"]) for f in fks if f["p"] != f["c"] and not f["ua"]]
    cyc_full = _cyclic_nodes(n, full_dep)
    cyc_sort = _cyclic_nodes(n, sort_dep)

    # known finding: a cyclic table with a named and an unnamed FK to the same parent -> name them all (unless pinned)
    mixed_parallel = False
    for c in sorted(cyc_sort):
        for p in range(n):
            allp = [f for f in fks if f["c"] == c and f["p"] == p and p != c]
            grp = [f for f in allp if not f["ua"]]  # the FKs that create the sort dependency c -> p
            if any(f["named"] for f in allp) and not all(f["named"] for f in grp):
                if opts["pinned"]:
                    mixed_parallel = True
                    continue
                ctx.exclude("cyclic table with named+unnamed parallel FKs to one parent (known finding: drop_all discards the dependency edge)")
                for f in grp:
                    f["named"] = True

    pos = {t: i for i, t in enumerate(order)}
    already_topo = all(pos[p] < pos[c] for p, c in full_dep)
    chain = _longest_chain(n, full_dep)
    nontrivial = (bool(cyc_full) or chain >= 3) and not already_topo
    classes = ["cyclic" if cyc_full else "dag", f"n={n}"]
    if cyc_full and not cyc_sort:
        classes.append("cycle-resolved-by-use_alter")
    if any(f["p"] == f["c"] for f in fks):
        classes.append("self-ref")
    if any(f["ncols"] == 2 for f in fks):
        classes.append("multi-col-fk")
    if len({(f["c"], f["p"]) for f in fks}) < len(fks):
        classes.append("parallel-edges")
    if chain >= 3 and not cyc_full:
        classes.append("chain>=3")
    comp = _components(n, full_dep)
    if comp > 1 and fks:
        classes.append("disconnected")

    # two-phase split closed under references
    phases = [set(range(n))]
    if opts["split"] >> 2:
        s1 = _closure_down(n, fks, opts["split"] >> 2)
        if 0 < len(s1) < n:
            phases = [s1, set(range(n)) - s1]
            classes.append("two-phase")
    if opts["pre"]:
        classes.append("sqlite-partial-create")
    exp_drop = _expected_drop_outcome(n, fks, set(range(n)))
    classes.append(f"drop-{exp_drop}")
    ctx.note(case, nontrivial, classes=classes)

    _check_sorted_tables(n, order, fks, opts)
    orders = {}
    for dn in ("postgresql", "mysql"):
        try:
            orders[dn] = _run_catalog(dn, n, order, fks, opts, phases, ctx)
        except Violation as v:
            if mixed_parallel and v.signature == "C14/drop/table-still-referenced":
                raise Violation("C14/drop_all/parallel-fk-mixed-naming-edge-discarded",
                                "a table on a cycle has a named and an unnamed FK to the same parent: sort_tables_and_constraints discards the dependency edge "
                                "when the named FK is moved to DROP CONSTRAINT although the unnamed FK still needs it -> " + v.message,
                                observed=v.observed, expected="referrer dropped before the referenced table")
            raise
    # table creation order is deterministic for a given declaration order (independent MetaData objects, both dialects)
    if orders["postgresql"] != orders["mysql"]:
        raise Violation("C14/create_all/order-differs-between-builds", f"CREATE TABLE order / drop outcome differs between two identically declared MetaData: {orders}", observed=str(orders))
    _run_sqlite(n, order, fks, opts)


def _components(n, edges):
    parent = list(range(n))

    def find(x):
        while parent[x] != x:
            parent[x] = parent[parent[x]]
            x = parent[x]
        return x

    for a, b in edges:
        parent[find(a)] = find(b)
    return len({find(i) for i in range(n)})


# --------------------------------------------------------------------------- cases
def _exh_cases(tier):
    maxn = 3 if tier == "quick" else 4
    for n in range(1, maxn + 1):
        for mask in range(1 << (n * n)):
            for opt in range(4):
                for rev in (0, 1):
                    if n == 1 and rev:
                        continue
                    yield ["g", n, mask, opt, rev]


@st.composite
def _graphs(draw):
    n = draw(st.integers(1, 7))
    order = draw(st.permutations(list(range(n))))
    mode = draw(st.sampled_from(["any", "chain", "chain+back", "cycle", "any"]))
    nf = draw(st.integers(0, min(14, 2 * n + 2)))
    node = st.integers(0, n - 1)
    fks = []
    ua_bias = draw(st.sampled_from([0, 0, 1, 3]))
    name_bias = draw(st.sampled_from([0, 1, 2, 3]))  # 0: none named, 3: all named

    def flags():
        named = name_bias == 3 or (name_bias != 0 and draw(st.integers(0, 2)) < name_bias)
        ua = ua_bias > 0 and draw(st.integers(0, 3)) < ua_bias
        return [int(draw(st.booleans())), int(named), int(ua), int(draw(st.booleans()))]

    if mode in ("chain", "chain+back", "cycle") and n >= 2:
        perm = draw(st.permutations(list(range(n))))
        ln = draw(st.integers(2, n))
        for a, b in zip(perm[:ln], perm[1:ln]):
            fks.append([b, a] + flags())  # b references a
        if mode == "cycle":
            fks.append([perm[0], perm[ln - 1]] + flags())
        if mode == "chain+back" and ln >= 2:
            i = draw(st.integers(0, ln - 1))
            j = draw(st.integers(0, ln - 1))
            fks.append([perm[min(i, j)], perm[max(i, j)]] + flags())
    for _ in range(nf):
        fks.append([draw(node), draw(node)] + flags())
    if fks and draw(st.booleans()):
        k = draw(st.integers(0, len(fks) - 1))
        fks.append(fks[k][:2] + flags())  # parallel edge
    split = draw(st.sampled_from([0, 0, 1, 2, 3])) | (draw(st.integers(0, (1 << n) - 1)) << 2 if draw(st.booleans()) else 0)
    pre = draw(st.integers(0, (1 << n) - 1)) if draw(st.booleans()) else 0
    predrop = draw(st.integers(0, (1 << n) - 1)) if draw(st.booleans()) else 0
    idx = draw(st.integers(0, (1 << n) - 1))
    return {"n": n, "order": list(order), "fks": fks, "split": split, "pre": pre, "predrop": predrop, "idx": idx}


@st.composite
def _histories(draw):
    g = draw(_graphs())
    n = g["n"]
    mask = st.integers(0, (1 << n) - 1)
    tmpl = draw(st.sampled_from(["twice", "subset-then-all", "late", "drop-subset", "free", "free"]))
    cf = lambda: int(draw(st.booleans()))  # noqa: E731
    if tmpl == "twice":
        hist = [["ca", cf()], ["ca", 1], ["da", cf()]]
    elif tmpl == "subset-then-all":
        hist = [["cs", draw(mask), cf()], ["ca", 1], ["cs", draw(mask), 1], ["da", cf()]]
    elif tmpl == "late":
        hist = [["ca", cf()], ["late"], ["ca", 1], ["da", cf()], ["ca", cf()]]
    elif tmpl == "drop-subset":
        hist = [["ca", cf()], ["ds", draw(mask), cf()], ["da", 1], ["ca", cf()], ["ca", 1]]
    else:
        hist = []
        for _ in range(draw(st.integers(2, 7))):
            k = draw(st.sampled_from(["ca", "ca", "cs", "cs", "late", "ds", "da"]))
            hist.append([k] if k == "late" else ([k, cf()] if k in ("ca", "da") else [k, draw(mask), cf()]))
    g["hist"] = hist
    g["late"] = draw(mask) if (tmpl == "late" or draw(st.integers(0, 3)) == 0) else 0
    return g


def subs(tier):
    return [
        Enumerated("exh", check_graph, cases=_exh_cases),
        Generated("random", check_graph, strategy=_graphs(), quick=500, thorough=50000),
        Generated("history", check_history, strategy=_histories(), quick=600, thorough=40000),
    ]
