"""Shared ORM fixture for the session-state checks C39 / C45 / C46 / C47 / C48.

A small fixed family of mapped classes in a private ``registry()``:

    Owner 1---* Parent 1---* Child 1---* Grandchild        Parent *---* Tag

* ``Parent.children`` / ``Child.parent``        one-to-many / many-to-one (back_populates)
* ``Child.grandchildren`` / ``Grandchild.child`` one-to-many / many-to-one (back_populates)
* ``Parent.tags``                                many-to-many through ``parent_tag`` (no backref)
* ``Parent.owner`` / ``Owner.parents``           many-to-one with the one-to-many as reverse side
* ``Parent.profile`` / ``Profile.parent``        one-to-one (scalar on the Parent side, foreign key on Profile; default cascade)
* ``Parent.notes``                               unidirectional one-to-many (Note has no relationship back; cascade is a parameter)
* ``Item`` / ``SubItem(Item)``                   joined-table inheritance pair, unrelated to the rest (C46)
* ``Owner.badges``                               unidirectional one-to-many below the many-to-one target (cascade is a parameter)
* ``Shape.start``                                composite(Point, px, py) on a stand-alone class (C46)

The cascade setting of the four "forward" relationships (children, grandchildren,
tags, owner) is a parameter; one mapping is built and cached per distinct
setting per process (mapper configuration is the expensive part).  The reverse
sides keep the library default ("save-update, merge").

Primary keys are plain INTEGER PRIMARY KEY columns; harnesses normally assign
them explicitly so that model and database agree without reading anything back.
All foreign keys are nullable and SQLite does not enforce them (no PRAGMA
foreign_keys), so every generated history is executable.
"""
from __future__ import annotations

import warnings
from collections import OrderedDict

from sqlalchemy import Column, ForeignKey, Integer, String, Table
from sqlalchemy.orm import composite, registry, relationship

from vf import sautil

DEFAULT_CASCADE = "save-update, merge"
ALL_OPTS = ("save-update", "merge", "expunge", "delete", "delete-orphan", "refresh-expire")

_CACHE: "OrderedDict[tuple, Family]" = OrderedDict()
_CACHE_MAX = 80


def norm_cascade(opts) -> str:
    """canonical cascade string for a collection of option names (or None = default)"""
    if opts is None:
        return DEFAULT_CASCADE
    if isinstance(opts, str):
        opts = [o.strip() for o in opts.split(",") if o.strip()]
    return ", ".join(o for o in ALL_OPTS if o in set(opts))


class Point:
    """value object of the composite attribute Shape.start"""

    def __init__(self, x, y):
        self.x, self.y = x, y

    def __composite_values__(self):
        return self.x, self.y

    def __eq__(self, other):
        return isinstance(other, Point) and (self.x, self.y) == (other.x, other.y)

    def __ne__(self, other):
        return not self.__eq__(other)

    def __hash__(self):
        return hash((self.x, self.y))

    def __repr__(self):
        return f"Point({self.x!r}, {self.y!r})"


class Family:
    """one configured mapping (classes + metadata)"""

    def __init__(self, c_children, c_grandchildren, c_tags, c_owner, c_notes=DEFAULT_CASCADE, c_badges=DEFAULT_CASCADE):
        self.cascades = {"children": c_children, "grandchildren": c_grandchildren, "tags": c_tags, "owner": c_owner, "notes": c_notes, "badges": c_badges}
        reg = registry()
        self.reg = reg
        md = reg.metadata
        self.metadata = md

        parent_tag = Table(
            "parent_tag",
            md,
            Column("parent_id", ForeignKey("parent.id"), primary_key=True),
            Column("tag_id", ForeignKey("tag.id"), primary_key=True),
        )
        self.parent_tag = parent_tag

        def rel(target, casc, **kw):
            # delete-orphan on a many-to-one / many-to-many needs single_parent=True
            if "delete-orphan" in casc and kw.pop("_needs_single_parent", False):
                kw["single_parent"] = True
            kw.pop("_needs_single_parent", None)
            return relationship(target, cascade=casc, **kw)

        with warnings.catch_warnings():
            # "'delete-orphan' cascade option requires 'delete'" is a warning, the
            # configuration is accepted; it is part of the explored space
            warnings.simplefilter("ignore")

            @reg.mapped
            class Owner:
                __tablename__ = "owner"
                id = Column(Integer, primary_key=True)
                name = Column(String)
                parents = relationship("Parent", back_populates="owner", order_by="Parent.id")
                # unidirectional one-to-many below the many-to-one target: Parent.owner -> Owner.badges -> Badge
                badges = rel("Badge", c_badges, order_by="Badge.id")

                def __repr__(self):
                    return f"Owner#{self.__dict__.get('id')}"

            @reg.mapped
            class Parent:
                __tablename__ = "parent"
                id = Column(Integer, primary_key=True)
                name = Column(String)
                x = Column(Integer)
                y = Column(Integer)
                owner_id = Column(ForeignKey("owner.id"))
                children = rel("Child", c_children, back_populates="parent", order_by="Child.id")
                tags = rel("Tag", c_tags, secondary=parent_tag, order_by="Tag.id", _needs_single_parent=True)
                # one-to-one seen from the one-to-many direction (scalar on the side that does not hold the foreign key)
                profile = relationship("Profile", back_populates="parent", uselist=False)
                # unidirectional one-to-many: Note has no relationship back to Parent
                notes = rel("Note", c_notes, order_by="Note.id")
                owner = rel("Owner", c_owner, back_populates="parents", _needs_single_parent=True)

                def __repr__(self):
                    return f"Parent#{self.__dict__.get('id')}"

            @reg.mapped
            class Child:
                __tablename__ = "child"
                id = Column(Integer, primary_key=True)
                parent_id = Column(ForeignKey("parent.id"))
                name = Column(String)
                x = Column(Integer)
                parent = relationship("Parent", back_populates="children")
                grandchildren = rel("Grandchild", c_grandchildren, back_populates="child", order_by="Grandchild.id")

                def __repr__(self):
                    return f"Child#{self.__dict__.get('id')}"

            @reg.mapped
            class Grandchild:
                __tablename__ = "grandchild"
                id = Column(Integer, primary_key=True)
                child_id = Column(ForeignKey("child.id"))
                x = Column(Integer)
                child = relationship("Child", back_populates="grandchildren")

                def __repr__(self):
                    return f"Grandchild#{self.__dict__.get('id')}"

            @reg.mapped
            class Profile:
                __tablename__ = "profile"
                id = Column(Integer, primary_key=True)
                parent_id = Column(ForeignKey("parent.id"))
                x = Column(Integer)
                parent = relationship("Parent", back_populates="profile")

                def __repr__(self):
                    return f"Profile#{self.__dict__.get('id')}"

            @reg.mapped
            class Badge:
                __tablename__ = "badge"
                id = Column(Integer, primary_key=True)
                owner_id = Column(ForeignKey("owner.id"))
                x = Column(Integer)

                def __repr__(self):
                    return f"Badge#{self.__dict__.get('id')}"

            @reg.mapped
            class Shape:
                """plain class with a composite attribute over two of its columns (C46)"""

                __tablename__ = "shape"
                id = Column(Integer, primary_key=True)
                px = Column(Integer)
                py = Column(Integer)
                start = composite(Point, px, py)

                def __repr__(self):
                    return f"Shape#{self.__dict__.get('id')}"

            @reg.mapped
            class Note:
                __tablename__ = "note"
                id = Column(Integer, primary_key=True)
                parent_id = Column(ForeignKey("parent.id"))
                x = Column(Integer)

                def __repr__(self):
                    return f"Note#{self.__dict__.get('id')}"

            # joined-table inheritance pair (used by C46: a base-class query's row lacks the subclass table's columns)
            @reg.mapped
            class Item:
                __tablename__ = "item"
                id = Column(Integer, primary_key=True)
                kind = Column(String)
                a = Column(Integer)
                __mapper_args__ = {"polymorphic_on": kind, "polymorphic_identity": "item"}

                def __repr__(self):
                    return f"{type(self).__name__}#{self.__dict__.get('id')}"

            @reg.mapped
            class SubItem(Item):
                __tablename__ = "subitem"
                id = Column(ForeignKey("item.id"), primary_key=True)
                s = Column(Integer)
                __mapper_args__ = {"polymorphic_identity": "sub"}

            @reg.mapped
            class Tag:
                __tablename__ = "tag"
                id = Column(Integer, primary_key=True)
                name = Column(String)

                def __repr__(self):
                    return f"Tag#{self.__dict__.get('id')}"

            self.Owner, self.Parent, self.Child, self.Grandchild, self.Tag = Owner, Parent, Child, Grandchild, Tag
            self.Profile, self.Note, self.Item, self.SubItem, self.Badge, self.Shape = Profile, Note, Item, SubItem, Badge, Shape
            self.classes = {"owner": Owner, "parent": Parent, "child": Child, "grandchild": Grandchild, "tag": Tag, "profile": Profile, "note": Note, "badge": Badge}
            reg.configure()


def family(children=None, grandchildren=None, tags=None, owner=None, notes=None, badges=None) -> Family:
    """cached mapping for the given cascade settings (None = library default)"""
    key = (norm_cascade(children), norm_cascade(grandchildren), norm_cascade(tags), norm_cascade(owner), norm_cascade(notes), norm_cascade(badges))
    fam = _CACHE.get(key)
    if fam is None:
        fam = Family(*key)
        _CACHE[key] = fam
        if len(_CACHE) > _CACHE_MAX:
            _k, old = _CACHE.popitem(last=False)
            old.reg.dispose()
    else:
        _CACHE.move_to_end(key)
    return fam


# ------------------------------------------------------------------ databases
TABLE_COLS = {
    "owner": ("id", "name"),
    "parent": ("id", "name", "x", "y", "owner_id"),
    "child": ("id", "parent_id", "name", "x"),
    "grandchild": ("id", "child_id", "x"),
    "tag": ("id", "name"),
    "parent_tag": ("parent_id", "tag_id"),
    "profile": ("id", "parent_id", "x"),
    "note": ("id", "parent_id", "x"),
    "badge": ("id", "owner_id", "x"),
    "shape": ("id", "px", "py"),
    "item": ("id", "kind", "a"),
    "subitem": ("id", "s"),
}


def new_db(ctx, fam: Family, **engine_kw):
    """fresh file-backed SQLite database with the family's tables; returns the engine
    (``engine._vf_path`` is the file, for ``sautil.raw_connect``)"""
    eng = sautil.file_engine(ctx, **engine_kw)
    fam.metadata.create_all(eng)
    return eng


def drop_db(eng):
    sautil.remove_db(eng)


def raw(eng):
    return sautil.raw_connect(eng._vf_path)


def raw_insert(conn, table, rows):
    """rows: list of dicts (missing columns -> NULL) inserted through a raw sqlite3 connection"""
    cols = TABLE_COLS[table]
    conn.executemany(
        f"INSERT INTO {table} ({', '.join(cols)}) VALUES ({', '.join('?' for _ in cols)})",
        [tuple(r.get(c) for c in cols) for r in rows],
    )


def raw_snapshot(conn, tables=None):
    """{table: sorted list of row tuples} read through a raw connection (committed state)"""
    out = {}
    for t in tables or TABLE_COLS:
        cols = TABLE_COLS[t]
        out[t] = sorted(
            (tuple(r) for r in conn.execute(f"SELECT {', '.join(cols)} FROM {t}")),
            key=lambda r: tuple((v is None, v) for v in r),
        )
    return out


def session_snapshot(session, tables=None):
    """same shape as raw_snapshot but read through the session's own connection
    (sees uncommitted flushed state).  Uses textual SQL: no ORM machinery, no autoflush."""
    from sqlalchemy import text

    out = {}
    conn = session.connection()
    for t in tables or TABLE_COLS:
        cols = TABLE_COLS[t]
        out[t] = sorted(
            (tuple(r) for r in conn.execute(text(f"SELECT {', '.join(cols)} FROM {t}"))),
            key=lambda r: tuple((v is None, v) for v in r),
        )
    return out
