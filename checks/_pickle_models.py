"""Fixed, importable (module-level) mapped classes and tables for C51.

pickle stores classes by reference (module + qualname), so everything that is
pickled here must live at module level of an importable module.
"""
from __future__ import annotations

from sqlalchemy import Column, ForeignKey, Integer, MetaData, String, Table
from sqlalchemy.orm import declarative_base, deferred, relationship

metadata = MetaData()
Base = declarative_base(metadata=metadata)


class User(Base):
    __tablename__ = "pk_user"
    id = Column(Integer, primary_key=True)
    name = Column(String(50))
    nick = Column(String(50))
    bio = deferred(Column(String(200)))
    addresses = relationship("Address", back_populates="user", order_by="Address.id", cascade="all, delete-orphan")
    keywords = relationship("Keyword", secondary=lambda: user_keyword, order_by="Keyword.id")

    def __repr__(self):
        return f"User({self.__dict__.get('id')!r})"


class Address(Base):
    __tablename__ = "pk_address"
    id = Column(Integer, primary_key=True)
    user_id = Column(ForeignKey("pk_user.id"))
    email = Column(String(50))
    user = relationship("User", back_populates="addresses")

    def __repr__(self):
        return f"Address({self.__dict__.get('id')!r})"


class Keyword(Base):
    __tablename__ = "pk_keyword"
    id = Column(Integer, primary_key=True)
    word = Column(String(30))


user_keyword = Table(
    "pk_user_keyword", metadata,
    Column("user_id", ForeignKey("pk_user.id"), primary_key=True),
    Column("keyword_id", ForeignKey("pk_keyword.id"), primary_key=True),
)

# plain Core table (no mapper) for the serializer / Row checks
item = Table(
    "pk_item", metadata,
    Column("id", Integer, primary_key=True),
    Column("user_id", ForeignKey("pk_user.id")),
    Column("label", String(30)),
    Column("qty", Integer),
)

# a table whose name / column key contain the separator character used by ext.serializer persistent ids
odd = Table(
    "pk:odd", metadata,
    Column("id", Integer, primary_key=True),
    Column("a:b", Integer, key="a:b"),
)


# same column names as pk_user but an unrelated table: target of aliased(User, user_archive, adapt_on_names=True)
user_archive = Table(
    "pk_user_archive", metadata,
    Column("id", Integer, primary_key=True),
    Column("name", String(50)),
    Column("nick", String(50)),
    Column("bio", String(200)),
)


def populate(session):
    """deterministic fixture rows"""
    kws = [Keyword(id=i, word=w) for i, w in enumerate(["red", "green", "blue"], 1)]
    session.add_all(kws)
    for i in range(1, 5):
        u = User(id=i, name=f"user{i}", nick=f"n{i % 2}", bio=f"bio of {i}")
        for j in range(i - 1):
            u.addresses.append(Address(id=i * 10 + j, email=f"u{i}a{j}@x"))
        u.keywords = kws[: i % 4]
        session.add(u)
    session.flush()
    session.execute(item.insert(), [{"id": k, "user_id": 1 + k % 4, "label": f"L{k % 3}", "qty": k * 2} for k in range(1, 9)])
    session.execute(user_archive.insert(), [{"id": 100 + k, "name": f"user{k % 3}", "nick": f"n{k % 2}", "bio": f"old {k}"} for k in range(1, 6)])
    session.execute(odd.insert(), [{"id": 1, "a:b": 5}, {"id": 2, "a:b": 7}])
    session.commit()
